#!/bin/bash
# Demonstrates detection: applies each patch of /verif/mutants (or /verif/seeded/*/patch.diff) to a scratch copy of
# the repository (outside /repo and /verif), checks that it still compiles and passes the repository's own test
# suite, runs the quick check of the property it breaks against the scratch copy twice and expects a VIOLATION
# both times (expect=detected), or silence both times for behaviour-preserving negative controls (expect=silent).
# Appends to mutants/results.jsonl.  The scratch copy and its build output are removed at the end.
#   usage: selftest_mutants.sh [name-filter]        (VERIF_SCRATCH=<dir> to run two instances side by side)
cd "$(dirname "$0")" || exit 2
VERIF=$(pwd)
SCR=${VERIF_SCRATCH:-/tmp/vmut}
mkdir -p "$SCR"
export CARGO_NET_OFFLINE=true
RES="$VERIF/mutants/results.jsonl"
[ -z "$1" ] && : > "$RES"
list() {
  python3 - "$VERIF" <<'PY'
import json,sys,os,glob
v=sys.argv[1]
for x in json.load(open(v+'/mutants/index.json')):
    print(x['name'], x['property'], v+'/mutants/'+x['name']+'.patch', x.get('expect','detected'))
for d in sorted(glob.glob(v+'/seeded/*/meta.json')):
    m=json.load(open(d))
    print('seeded_'+os.path.basename(os.path.dirname(d)), m['property'], os.path.dirname(d)+'/patch.diff', 'detected')
for d in sorted(glob.glob(v+'/neutral/*/meta.json')):
    m=json.load(open(d))
    print('neutral_'+os.path.basename(os.path.dirname(d)), ','.join(m['checks']), os.path.dirname(d)+'/patch.diff', 'silent')
PY
}
list | while read -r NAME PROP PATCH EXPECT; do
  case "$NAME" in *"$1"*) ;; *) continue;; esac
  rsync -a --delete --exclude target --exclude .git /repo/ "$SCR/repo/"
  if ! (cd "$SCR/repo" && patch -p1 -s < "$PATCH"); then
    echo "{\"name\":\"$NAME\",\"property\":\"$PROP\",\"status\":\"patch-does-not-apply\"}" >> "$RES"; echo "$NAME: patch does not apply"; continue
  fi
  if ! (cd "$SCR/repo" && CARGO_TARGET_DIR="$SCR/target" cargo test --workspace --no-fail-fast --offline > "$SCR/test.log" 2>&1); then
    if grep -qE '^error(\[E[0-9]+\])?: (could not compile|aborting)|^error\[E' "$SCR/test.log"; then ST=does-not-compile; else ST=killed-by-the-repository-suite; fi
    echo "{\"name\":\"$NAME\",\"property\":\"$PROP\",\"status\":\"$ST\"}" >> "$RES"; echo "$NAME: $ST (not a valid mutant)"; continue
  fi
  mkdir -p "$SCR/ev"
  case "$NAME" in neutral_*)
    # behaviour-preserving change (DESIGN.md section 13): every listed check must stay silent (exit 0)
    BAD=""
    for P in $(echo "$PROP" | tr ',' ' '); do
      R=$(VERIF_REPO="$SCR/repo" VERIF_EVIDENCE_DIR="$SCR/ev" "$VERIF/check.sh" "$P" quick 2>&1); C=$?
      [ $C -eq 0 ] && ! echo "$R" | grep -q "^VIOLATION" || BAD="$BAD $P(rc=$C)"
    done
    if [ -z "$BAD" ]; then ST=silent-as-expected; else ST="FALSE-ALARM:$BAD"; fi
    echo "{\"name\":\"$NAME\",\"property\":\"$PROP\",\"expect\":\"silent\",\"status\":\"$ST\"}" >> "$RES"
    echo "$NAME [$PROP]: $ST"; continue;;
  esac
  R1=$(VERIF_REPO="$SCR/repo" VERIF_EVIDENCE_DIR="$SCR/ev" "$VERIF/check.sh" "$PROP" quick 2>&1); C1=$?
  R2=$(VERIF_REPO="$SCR/repo" VERIF_EVIDENCE_DIR="$SCR/ev" "$VERIF/check.sh" "$PROP" quick 2>&1); C2=$?
  SIG=$(echo "$R1" | grep -E "^  $PROP/" | head -3 | sed 's/ — .*//' | tr -d ' ' | paste -sd, -)
  if [ "$EXPECT" = silent ]; then
    if [ $C1 -eq 0 ] && [ $C2 -eq 0 ] && ! echo "$R1" | grep -q "^VIOLATION"; then ST=silent-as-expected; else ST="FALSE-ALARM(rc=$C1,$C2)"; fi
  else
    if [ $C1 -eq 1 ] && [ $C2 -eq 1 ] && echo "$R1" | grep -q "^VIOLATION property=$PROP"; then ST=detected; else ST="MISSED(rc=$C1,$C2)"; fi
  fi
  echo "{\"name\":\"$NAME\",\"property\":\"$PROP\",\"expect\":\"$EXPECT\",\"status\":\"$ST\",\"signatures\":\"$SIG\"}" >> "$RES"
  echo "$NAME [$PROP]: $ST $SIG"
done
TAG=$(printf '%s' "$SCR/repo" | cksum | cut -d' ' -f1)
rm -rf "$SCR" "$VERIF/.target/w$TAG"
