#!/usr/bin/env python3
"""Regenerates MANIFEST.json from the table below (single source of truth for the interface)."""
import json, subprocess
props=[json.loads(l) for l in open('/verif/properties.jsonl')]
ids=[p['id'] for p in props]
IN="engine IN: bounded-exhaustive enumeration of a grammar automaton / fault operators over the real code, judged by an independent reference (decoder, serialiser, HMAC/CRC, attribute codecs)"
SM="engine SM: explicit-state breadth-first search whose transition function replays the history on a fresh real object in lock-step with a reference model"
C={
 "C01":("IN","exhaustive enumeration of inputs and single faults; every entry point and read-only operation guarded (Display / Debug also into bounded sinks and under format specifications); watchdog for hangs","panics, overflow traps (overflow-checks on), debug assertions and non-termination on every generated buffer; not: inputs outside the grammar/fault alphabets"),
 "C02":("IN","exhaustive skeleton x single-fault enumeration (structural faults, consistent-length cuts, every header/attribute-header byte value, bit flips) and a sweep of all 65536 attribute types around MI/MI256/FP templates vs independent reference decoder (set-valued rejection causes)","reference decoder written from RFC 8489 and the statement; skeleton alphabet (depth 5-6 quick) and single faults"),
 "C03":("IN","exhaustive builder-program enumeration (attribute lists x sealings x headers; every length 0..=763; every 16-bit type code as a raw attribute; application-defined attributes of 0..=65000 bytes and with values changed after add_attribute; sibling clones kept alive; after a caught panic elsewhere in the process; under four concurrent long-term users) vs reference serialiser/decoder/HMAC/CRC","attribute alphabet of 42 entries, list depth 3 (4 thorough)"),
 "C04":("IN","exhaustive fault enumeration: every bit flip and byte value of the covered range of every sealed buffer (fingerprinted messages also with the CRC recomputed), plausible alternative HMAC values, near-miss and decorated keys, key-length sweep 0..=140 bytes around the HMAC block size; controlled single-preemption interleaving of validate / seal / parse under different credentials at every tracing call site of the library (1328 interleavings)","HMAC collision resistance; key alphabet"),
 "C05":("SM","explicit-state BFS over agent call histories (all poll orders via the hook) vs reference transaction model; drain from every state, continued black-box after a divergence owned by another property; single-transaction schedules with one intervention (responses of every content, plain and authenticated) at every position; enumerated long histories with 1..=300 concurrent requests; responses of every error code 300..=699 x attribute subsets x integrity states","depth/population bounds; time lattice"),
 "C06":("SM","explicit-state BFS + full single-transaction schedule sweep vs schedule arithmetic of the statement; black-box WaitUntil contract; enumerated long histories with 1..=300 concurrent requests under mixed configurations; configurations that are not whole milliseconds; sub-millisecond phases; requests of every serialised size","millisecond granularity; configurations of the alphabet"),
 "C07":("SM","explicit-state BFS with forged/genuine response alphabet and a credential-kinds slice vs reference HMAC delivery rule; forged responses of every content at every position of single-transaction schedules; timing effect of dropped responses isolated by replaying the history without them; responses of every error code 300..=699 x attribute subsets x five integrity states x credential kinds","response alphabet; depth bound"),
 "C08":("IN","exhaustive value enumeration per attribute type (short values, lengths 0..=800 x patterns, all 65536 error class/number pairs, byte-lane walks) vs three-valued reference codec","DON'T-CARE regions listed in DESIGN.md"),
 "C09":("IN","exhaustive fault enumeration (all byte substitutions, all bursts <= 32 bits) judged by the reference decoder","CRC as computed by an independent implementation"),
 "C10":("IN","exhaustive enumeration of sealing-attribute orders vs reference exposure rule (iteration, raw and typed lookups, validate_integrity coverage)","sequence depth 7 (8 thorough)"),
 "C11":("SM","explicit-state BFS over builder operation sequences, incl. fork / swap (a sibling clone kept alive and serialised beside the builder), deduplicated on the complete Debug snapshots of builder and sibling, vs reference builder","operation alphabet; depth 7 (9 thorough)"),
 "C12":("IN","exhaustive enumeration of values x destination sizes; all serialisation paths compared bytewise with the reference encoding; application-defined attributes of every length 0..=1100 and up to 65000 bytes, and with values changed after add_attribute","value alphabets"),
 "C13":("IN","exhaustive ports / byte-lane walks / lane pairs (all 2^32 IPv4 in thorough) vs RFC 8489 14.2 reference; every other 16-bit attribute type carrying an address-shaped value beside the XOR-MAPPED-ADDRESS","IPv6/tid beyond lane and lane-pair walks"),
 "C14":("SM","exhaustive enumeration of frame sequences x all chunkings x pull schedules (no dedup: TcpBuffer state is not observable) vs reference framing; every frame length 0..=65535; > 2^32 bytes through one buffer; the process clock (the harness' own clock_gettime) jumping between chunks","frame lengths alphabet; <= 3 frames"),
 "C15":("SM","explicit-state BFS over multi-source histories (and a stays-validated slice over every other API call) vs reference validated-peer set; enumerated long histories with up to 10000 (70000 thorough) distinct peers of five address families; responses of every error code 300..=699 x attribute subsets x integrity states: validated exactly when delivered","depth bound"),
 "C16":("IN","exhaustive enumeration: request messages x every verdict-relevant supported/required subset (all 2^9 x 2^9 for messages of <= 2 attributes), requests with 1..=400 unknown attributes and the response constructors called directly vs RFC 8489 6.3.1 reference verdict","type universe of 9"),
 "C17":("IN","every declared length (all multiples of 4 up to 65532) x cuts below 1100 and where a misread length field leads; every well-formed message of the family x every cut point (messages up to 65552 bytes: stated cut-point subset); header decoder on all type fields, all length fields, cookie bits and transaction-id lanes","message family"),
 "C18":("SM","explicit-state BFS; every Transmit (also after into_owned) compared with the harness' own serialisation and addressing; single-transaction schedules with reconfiguration / cancel_retransmissions / foreign traffic at every position; addressing matrix of 21 x 21 local / destination addresses x 4 message kinds; enumerated long histories with 1..=300 concurrent requests; requests carrying every 16-bit attribute type, of every method and of every serialised size 24..=2264 bytes","depth bound; two payload shapes"),
 "C19":("IN","fully exhaustive over the 16-bit type field and all (class, method) pairs (also as headers of messages with attributes, incl. one whose length changes after add_attribute); boundary transaction ids; 2^24 (2^32 thorough) consecutive generate() calls","generate() is observed, not enumerated"),
 "C20":("SM","differential replay of every explored history on fresh threads: shifted time base (latest first), unchanged afterwards, interleaved unrelated agent, wall-clock bases, hand-over to another thread; exploration after a prelude of unrelated agents with breaches re-run in a pristine child process; single-transaction projections for the leak clause; enumerated long histories replayed five times; the process clock (the harness' own clock_gettime) jumping at every read; every environment variable the library reads (recorded through the harness' own getenv) under an 18-value alphabet; non-reproducible replies are violations","depth bound; shifts {1 ms, 1 day, 10^9 ms}; wall clock, -1 h, -1 day"),
}
built=set(open('/verif/.built').read().split()) if __import__('os').path.exists('/verif/.built') else set()
checks=[];na=[]
for p in props:
    i=p['id']
    eng,tech,note=C[i]
    if i not in built:
        na.append({"property_id":i,"reason":"check not built yet (work in progress; planned engine %s per DESIGN.md section 6)"%eng})
        continue
    checks.append({"property_id":i,"quick_cmd":"./check.sh %s quick"%i,"thorough_cmd":"./check.sh %s thorough"%i,
      "evidence_file":"/verif/evidence/%s.json"%i,"replay_cmd_template":"./check.sh %s quick --replay {path}"%i,
      "engine":eng,"level_claimed":{"category":"model_checking","text":(IN if eng=="IN" else SM)+"; "+tech+". Everything inside the stated bound is executed on the real code, nothing is sampled.","design_ref":"DESIGN.md section 6, "+i},
      "level_note":"trusted base: the harness' own references (validated against RFC 5769/8489 vectors, FIPS/RFC known answers and python hashlib in setup), bounds: "+note,"technique":tech})
hooks=subprocess.run(['git','-C','/repo','log','--format=%h','--grep=^verif-hooks'],capture_output=True,text=True).stdout.split()
m={"version":1,"setup_cmd":"./setup.sh",
 "hooks":{"guard":"cargo feature `verif-hooks` of stun-proto (off by default)","enable":"the harness crate depends on stun-proto with features=[\"verif-hooks\"]; check.sh rebuilds it against /repo's working tree on every run","baseline_off_cmd":"cd /repo && cargo test --workspace --no-fail-fast --offline","source_commits":hooks,"add_only":True},
 "engines":[{"name":"IN","path":"/verif/harness/src/engine_in","serves_properties":[i for i in ids if C[i][0]=="IN"],"kind_free_text":IN},
            {"name":"SM","path":"/verif/harness/src/engine_sm","serves_properties":[i for i in ids if C[i][0]=="SM"],"kind_free_text":SM}],
 "checks":checks,
 "notes":"exit 0 held / 1 VIOLATION / 2 machinery failure. VERIF_REPO=<dir> points the checks at another checkout. known_findings.json lists fixed defects (fix: commits in /repo).",
 "not_applicable":na}
json.dump(m,open('/verif/MANIFEST.json','w'),indent=1)
print(len(checks),"checks,",len(na),"not yet claimed")
