#!/bin/bash
# Offline build of the harness against /repo's working tree (or $VERIF_REPO) + self-tests of the references.
set -e
cd "$(dirname "$0")"
exec ./check.sh selftest quick
