#!/bin/bash
# Offline build of the harness against /repo's working tree (or $VERIF_REPO), self-tests of the independent
# references (known answers, RFC 5769 / RFC 8489 vectors) and a cross-check of the reference crypto against
# python3's hashlib / hmac / zlib on a deterministic corpus.
set -e
cd "$(dirname "$0")"
./check.sh selftest quick
CORPUS="$(pwd)/.target/crypto_corpus.txt"
python3 - "$CORPUS" <<'PY'
import hashlib, hmac, zlib, sys
out=open(sys.argv[1],'w')
def h(b): return b.hex() if b else '-'
x=12345
def rnd(n):
    global x
    r=bytearray()
    for _ in range(n):
        x=(x*6364136223846793005+1442695040888963407)%(1<<64)
        r.append((x>>33)&0xff)
    return bytes(r)
for n in list(range(0,300))+[511,512,513,1000,4096,65535,65556]:
    d=rnd(n)
    out.write(f"sha1 {h(d)} - {hashlib.sha1(d).hexdigest()}\n")
    out.write(f"sha256 {h(d)} - {hashlib.sha256(d).hexdigest()}\n")
    out.write(f"md5 {h(d)} - {hashlib.md5(d).hexdigest()}\n")
    out.write(f"crc32 {h(d)} - {zlib.crc32(d)&0xffffffff:08x}\n")
    for kl in (0,1,16,20,63,64,65,100,200):
        k=rnd(kl)
        out.write(f"hmac-sha1 {h(d)} {h(k)} {hmac.new(k,d,hashlib.sha1).hexdigest()}\n")
        out.write(f"hmac-sha256 {h(d)} {h(k)} {hmac.new(k,d,hashlib.sha256).hexdigest()}\n")
out.close()
PY
./check.sh crosscheck "$CORPUS"
