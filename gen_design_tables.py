#!/usr/bin/env python3
"""Refreshes the generated tables of DESIGN.md (between <!-- BEGIN:x --> / <!-- END:x --> markers) from
evidence/*.json (sizes of the last quick run), seeded/*/meta.json and mutants/results.jsonl."""
import json,glob,os,re
V='/verif'
def sizes():
    out=["| property | engine | states / distinct inputs | transitions / executions | validated against the implementation | wall (s) | exhaustive within the bound |","|---|---|---|---|---|---|---|"]
    man=json.load(open(V+'/MANIFEST.json'))
    eng={c['property_id']:c['engine'] for c in man['checks']}
    for i in range(1,21):
        pid='C%02d'%i
        try: e=json.load(open(V+'/evidence/%s.json'%pid))
        except Exception: continue
        c=e['coverage']
        out.append("| %s | %s | %s | %s | %s | %s | %s |"%(pid,eng.get(pid,'?'),f"{c['states']:,}".replace(',',' '),f"{c['transitions']:,}".replace(',',' '),f"{c['traces_validated_against_impl']:,}".replace(',',' '),e['wall_s'],'yes' if c['exhaustive'] else 'no (cap: %s)'%'; '.join(c.get('caps_hit',[]))[:80]))
    return "\n".join(out)
def seeded():
    out=["| seed | property | what it needs in order to manifest | first run of the quick check | now | caught by (signatures) |","|---|---|---|---|---|---|"]
    for d in sorted(glob.glob(V+'/seeded/*/meta.json')):
        m=json.load(open(d))
        first='missed' if m.get('detected_initially') is False else 'detected'
        now='detected' if m.get('detected') else 'MISSED'
        sig=m.get('signatures','').replace(',',', ')
        out.append("| %s | %s | %s | %s | %s | %s |"%(m['id'],m['property'],m['needs_to_manifest'],first,now,'`'+sig+'`' if sig else ''))
    return "\n".join(out)
def seedcount():
    ms=[json.load(open(d)) for d in sorted(glob.glob(V+'/seeded/*/meta.json'))]
    miss=[m['id'] for m in ms if m.get('detected_initially') is False]
    still=[m['id'] for m in ms if not m.get('detected')]
    return ("Of %d changes, %d were caught by the quick check as it stood when the change arrived; %d were missed at first (%s; C20-a was\nanswered with a machinery failure, exit 2) and led to the strengthenings recorded in the `strengthening`\nfield of their `meta.json` and in 11.1. %s."
            %(len(ms),len(ms)-len(miss),len(miss),', '.join(miss),'All %d are caught by the checks as they stand: each was run when it was taken in or when its check was strengthened; the last re-run of every earlier seed through `selftest_mutants.sh seeded_` was made after round l (mutants/results.jsonl), the re-runs since are named in 11.1'%len(ms) if not still else 'Still missed: '+', '.join(still)))
def neutral():
    out=["| control | origin | what it changes (behaviour preserved) | checks run against it | outcome |","|---|---|---|---|---|"]
    for d in sorted(glob.glob(V+'/neutral/*/meta.json')):
        m=json.load(open(d))
        checks=m['checks']
        cs='all 20' if len(checks)==20 else ' '.join(checks)
        out.append("| %s | %s | %s | %s | %s |"%(m['id'],'sub-agent' if m['origin'].startswith('sub-agent') else 'by hand',m['what'],cs,'silent' if m['all_silent'] else 'ALARM: '+str({k:v for k,v in m['quick_check_exit'].items() if v})))
    return "\n".join(out)
s=open(V+'/DESIGN.md').read()
for name,fn in (('sizes',sizes),('seeded',seeded),('seedcount',seedcount),('neutral',neutral)):
    pat=re.compile(r'(<!-- BEGIN:%s -->\n).*?(<!-- END:%s -->)'%(name,name),re.S)
    if pat.search(s):
        s=pat.sub(lambda m: m.group(1)+fn()+"\n"+m.group(2),s)
open(V+'/DESIGN.md','w').write(s)
print("tables refreshed")
