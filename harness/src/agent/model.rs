//! The agent as an explicit-state model: a node is (reference state, history); the transition
//! function rebuilds a real `StunAgent`, replays the history and executes one more action.

use super::spec::{Breach, Spec};
use super::*;
use crate::common::*;
use crate::engine_sm::{snapshot, SmModel};
use serde_json::{json, Value};
use std::sync::atomic::{AtomicU64, Ordering};
use std::sync::Arc;

static SEED: AtomicU64 = AtomicU64::new(1);
pub fn set_seed(s: u64) {
    SEED.store(s, Ordering::SeqCst);
}
pub fn seed() -> u64 {
    SEED.load(Ordering::Relaxed)
}

#[derive(Clone)]
pub struct Slice {
    pub name: &'static str,
    /// property on whose behalf the slice runs (panics of the agent are charged to it)
    pub prop: &'static str,
    pub tcp: bool,
    pub ids: u8,
    pub send: Vec<(u8, Seal, u8)>,
    pub send_other: Vec<(u8, u8)>,
    pub poll_whens: Vec<When>,
    pub all_orders: bool,
    pub ticks: Vec<u32>,
    pub resp: Vec<(u8, Auth, u8)>,
    pub resp_unknown: bool,
    pub resp_completed: bool,
    pub incoming: Vec<(u8, u8)>,
    pub cancel: bool,
    pub cancel_rtx: bool,
    pub configs: Vec<u8>,
    pub set_remote: Vec<u8>,
    pub set_local: Vec<u8>,
    /// build the agent with `.remote_addr(peer(i))` (offered as the first step only)
    pub rebuild: Vec<u8>,
    pub max_live: usize,
    pub max_sends: u8,
    pub drain: bool,
    pub differential: bool,
}

#[derive(Clone)]
pub struct Node {
    pub spec: Spec,
    pub hist: Arc<Vec<Step>>,
    pub key: u128,
}

pub struct AgentModel {
    pub slice: Slice,
}

fn fact(n: usize) -> usize {
    (1..=n).product::<usize>().max(1)
}

pub fn replay_json(tcp: bool, steps: &[Step], extra: Option<Value>) -> Value {
    let mut v = json!({"engine": "SM", "model": "agent", "tcp": tcp, "seed": seed(), "steps": steps});
    if let Some(e) = extra {
        v["variant"] = e;
    }
    v
}

pub fn to_violation(b: &Breach, tcp: bool, steps: &[Step]) -> Violation {
    Violation {
        property: b.property.to_string(),
        signature: format!("{}/{}", b.property, b.clause),
        what: b.what.clone(),
        expected: b.expected.clone(),
        observed: b.observed.clone(),
        replay: replay_json(tcp, steps, None),
    }
}

/// Rebuild a real agent by replaying `steps` (observations discarded).
pub fn rebuild(tcp: bool, steps: &[Step], base: std::time::Instant) -> Real {
    let mut r = Real::new(tcp, base);
    for s in steps {
        let _ = r.exec(s);
    }
    r
}

fn node_key(spec: &Spec, real: &Real) -> u128 {
    static LEARNT: std::sync::Once = std::sync::Once::new();
    LEARNT.call_once(|| {
        let a = Real::new(spec.tcp, real.base);
        let b = Real::new(spec.tcp, real.base);
        snapshot::learn_instance_fields(&format!("{:?}", a.agent), &format!("{:?}", b.agent));
    });
    let snap = snapshot::canonical(&format!("{:?}", real.agent), real.at(spec.now));
    snapshot::hash128(&format!("{}#{}", spec.canonical(), snap))
}

/// One lock-step transition on an already rebuilt agent.  Returns breaches.
pub fn lockstep(spec: &mut Spec, real: &mut Real, step: &Step, prop: &'static str) -> Vec<Breach> {
    match guarded(|| {
        let o = real.exec(step);
        let p = real.post();
        (o, p)
    }) {
        Ok((obs, post)) => spec.apply(step, &obs, &post),
        Err(p) => {
            spec.diverged = true;
            vec![Breach { property: prop, clause: format!("panic/{}", panic_label(&p)), what: format!("the agent panicked: {}", p.message), expected: "a reply".into(), observed: format!("panic at {}", p.location) }]
        }
    }
}

fn witnesses(before: &Spec, step: &Step, after: &Spec, hist_before: &[Step], acc: &mut Acc) {
    let tcp = before.tcp;
    match step.act {
        Act::Poll { order, .. } => {
            let due = before.live.values().filter(|x| x.cancelled || x.next_time(tcp) <= step.now).count();
            if due >= 2 && order >= 1 {
                acc.outcome("witness: two requests due at one poll, non-default order taken");
            }
            if before.live.len() >= 3 && after.pending_wait.is_some() {
                acc.outcome("witness: WaitUntil answered with three requests live");
            }
            for (id, hows) in &after.completed {
                let n_before = before.completed.get(id).map(|v| v.len()).unwrap_or(0);
                if hows.len() > n_before {
                    let was = before.live.get(id).unwrap();
                    if *hows.last().unwrap() == 2 {
                        acc.outcome("witness: timed out");
                    }
                    match hows.last().unwrap() {
                        2 if was.strict() && !tcp && was.n_tx as u32 == was.retransmits + 1 && was.retransmits >= 1 => acc.outcome("witness: timed out after the full retransmission schedule"),
                        2 if tcp => acc.outcome("witness: timed out (TCP)"),
                        3 if was.cancelled => acc.outcome("witness: cancelled by cancel()"),
                        3 => acc.outcome("witness: completed after cancel_retransmissions()"),
                        _ => {}
                    }
                    if *hows.last().unwrap() == 2 && was.stop_tx && !was.cancelled {
                        acc.outcome("witness: completed after cancel_retransmissions()");
                    }
                }
            }
        }
        Act::Send { id, .. } => {
            if before.completed.contains_key(&id) && !before.live.contains_key(&id) && after.live.contains_key(&id) {
                acc.outcome("witness: id re-sent after completion");
            }
            if before.live.contains_key(&id) {
                acc.outcome("witness: duplicate send refused");
            }
        }
        Act::Resp { id, auth, .. } => {
            let delivered = after.completed.get(&id).map(|v| v.len()).unwrap_or(0) > before.completed.get(&id).map(|v| v.len()).unwrap_or(0);
            if delivered {
                acc.outcome("witness: response delivered");
                if let Some(x) = before.live.get(&id) {
                    if x.sealed && forged_before(hist_before, id) {
                        match auth {
                            Auth::Sha256(_) => acc.outcome("witness: forged dropped, then genuine SHA-256 response delivered"),
                            Auth::Sha1(_) => acc.outcome("witness: forged dropped, then genuine SHA-1 response delivered"),
                            _ => acc.outcome("witness: forged dropped, then genuine response delivered"),
                        }
                    }
                }
            } else if let Some(hows) = before.completed.get(&id) {
                if !before.live.contains_key(&id) {
                    match hows.last() {
                        Some(2) => acc.outcome("witness: response after timeout dropped"),
                        Some(3) => acc.outcome("witness: response after cancellation dropped"),
                        Some(1) => acc.outcome("witness: duplicate response dropped"),
                        _ => {}
                    }
                }
            }
        }
        Act::Incoming { class, from, .. } => {
            if class == 0 && !before.validated.contains(&from) && before.live.values().all(|x| x.to != from) {
                acc.outcome("witness: peer other than a destination validated by an incoming request");
            }
        }
        Act::Configure { id, cfg } => {
            if let Some(x) = before.live.get(&id) {
                if super::cfg(cfg).1 < x.n_tx - 1 {
                    acc.outcome("witness: reconfiguration shortened the schedule below the transmissions made");
                }
            }
        }
        _ => {}
    }
}

/// did the history (since the last send of `id`) contain a response that had to be dropped?
fn forged_before(hist: &[Step], id: u8) -> bool {
    let mut forged = false;
    for s in hist {
        match s.act {
            Act::Send { id: i, .. } if i == id => forged = false,
            Act::Resp { id: i, auth, .. } if i == id => {
                if matches!(auth, Auth::Sha1Flipped(_) | Auth::Sha256Flipped(_) | Auth::MixedSha1Good(_) | Auth::Sha1WireLenFp(_) | Auth::Sha256WireLenFp(_) | Auth::None | Auth::Sha1(2) | Auth::Sha1(0)) || matches!(auth, Auth::Sha256Len(_, n) if !matches!(n, 16 | 20 | 24 | 28 | 32)) {
                    forged = true;
                }
            }
            _ => {}
        }
    }
    forged
}

impl SmModel for AgentModel {
    type State = Node;
    type Action = Act;

    fn name(&self) -> String {
        format!("agent/{}/{}", self.slice.name, if self.slice.tcp { "tcp" } else { "udp" })
    }

    fn init(&self) -> Vec<Node> {
        let spec = Spec::new(self.slice.tcp);
        let real = Real::new(self.slice.tcp, base_instant());
        let key = node_key(&spec, &real);
        vec![Node { spec, hist: Arc::new(vec![]), key }]
    }

    fn actions(&self, s: &Node, out: &mut Vec<Act>) {
        let sp = &s.spec;
        if sp.diverged {
            return;
        }
        let sl = &self.slice;
        for id in 0..sl.ids {
            if sp.live.contains_key(&id) {
                // duplicate send: must be refused; one variant suffices
                if let Some((d, seal, shape)) = sl.send.first() {
                    out.push(Act::Send { id, dest: (*d + 1) % 2, seal: *seal, shape: *shape });
                }
            } else if sp.live.len() < sl.max_live && sp.sends < sl.max_sends {
                // ids are interchangeable: only the lowest unused id may start a new send unless it was used before
                let lower_fresh = (0..id).any(|j| !sp.live.contains_key(&j) && !sp.completed.contains_key(&j));
                if lower_fresh {
                    continue;
                }
                for (d, seal, shape) in &sl.send {
                    out.push(Act::Send { id, dest: *d, seal: *seal, shape: *shape });
                }
            }
        }
        for (k, d) in &sl.send_other {
            out.push(Act::SendOther { kind: *k, dest: *d });
        }
        let mut times = Vec::new();
        for w in &sl.poll_whens {
            if let Some(t) = sp.resolve_time(&Act::Poll { when: *w, order: 0 }) {
                if times.contains(&t) {
                    continue;
                }
                times.push(t);
                let n_orders = if sl.all_orders { fact(sp.live.len()) } else { 1 };
                for o in 0..n_orders {
                    out.push(Act::Poll { when: *w, order: o as u8 });
                }
            }
        }
        for t in &sl.ticks {
            out.push(Act::Tick { ms: *t });
        }
        let mut resp_ids: Vec<u8> = sp.live.keys().copied().collect();
        if sl.resp_completed {
            for id in sp.completed.keys() {
                if !resp_ids.contains(id) {
                    resp_ids.push(*id);
                }
            }
        }
        if sl.resp_unknown {
            resp_ids.push(3);
        }
        for id in resp_ids {
            for (class, auth, from) in &sl.resp {
                out.push(Act::Resp { id, class: *class, auth: *auth, from: *from });
            }
        }
        for (class, from) in &sl.incoming {
            let id = sp.live.keys().next().copied().unwrap_or(3);
            out.push(Act::Incoming { class: *class, id, from: *from });
        }
        for id in sp.live.keys() {
            let x = &sp.live[id];
            if sl.cancel && !x.cancelled {
                out.push(Act::Cancel { id: *id });
            }
            if sl.cancel_rtx && !x.stop_tx {
                out.push(Act::CancelRtx { id: *id });
            }
            for c in &sl.configs {
                let (rto, n, last) = super::cfg(*c);
                if (x.rto, x.retransmits, x.last) != (rto, n, last) {
                    out.push(Act::Configure { id: *id, cfg: *c });
                }
            }
        }
        for k in &sl.set_remote {
            if sp.remote_key != Some(*k) {
                out.push(Act::SetRemote { key: *k });
            }
        }
        for k in &sl.set_local {
            if sp.local_key != Some(*k) {
                out.push(Act::SetLocal { key: *k });
            }
        }
        if s.hist.is_empty() {
            for r in &sl.rebuild {
                out.push(Act::Rebuild { remote: *r });
            }
        }
    }

    fn step(&self, s: &Node, a: &Act, acc: &mut Acc) -> Option<Node> {
        let now = s.spec.resolve_time(a)?;
        let step = Step { act: *a, now };
        let mut real = match guarded(|| rebuild(s.spec.tcp, &s.hist, base_instant())) {
            Ok(r) => r,
            Err(p) => {
                // the history did not panic when it was first executed: replaying it does
                let b = Breach { property: self.slice.prop, clause: format!("panic/{}/replay", panic_label(&p)), what: format!("the agent panicked while a recorded history was replayed: {}", p.message), expected: "the replies recorded before".into(), observed: format!("panic at {}", p.location) };
                acc.violation(to_violation(&b, s.spec.tcp, &s.hist));
                return None;
            }
        };
        let mut spec = s.spec.clone();
        acc.evaluations += 1;
        acc.validated += 1;
        let breaches = lockstep(&mut spec, &mut real, &step, self.slice.prop);
        let mut hist = (*s.hist).clone();
        hist.push(step);
        if !breaches.is_empty() {
            for b in &breaches {
                acc.violation(to_violation(b, spec.tcp, &hist));
            }
            if self.slice.prop == "C20" && breaches.iter().any(|b| b.property == "C06") {
                if let Some(v) = leak_check(spec.tcp, &hist) {
                    acc.violation(v);
                }
            }
            if self.slice.prop == "C07" && breaches.iter().any(|b| b.property == "C06") {
                if let Some(v) = drop_effect_check(spec.tcp, &hist) {
                    acc.violation(v);
                }
            }
            acc.outcome("diverged (path not extended)");
            // a diverged node is kept (so it is counted) but gets no successors
            let key = snapshot::hash128(&format!("diverged#{:?}", hist));
            return Some(Node { spec, hist: Arc::new(hist), key });
        }
        witnesses(&s.spec, &step, &spec, &s.hist, acc);
        let key = node_key(&spec, &real);
        if let Act::Resp { id, auth, .. } = step.act {
            if let (Some(x), true) = (s.spec.live.get(&id), spec.live.contains_key(&id)) {
                // a dropped response for a live transaction
                if x.sealed {
                    // (whether the snapshot is unchanged is an evidence note, not part of the witness: a
                    // statistics counter of dropped responses changes it and breaks nothing)
                    acc.outcome("witness: forged or unauthenticated response dropped");
                }
                if key == s.key {
                    acc.outcome("note: snapshot unchanged after a dropped response (self-loop)");
                } else {
                    // evidence note only (DESIGN.md 4.3): the futures of the new state are explored in lock-step
                    acc.outcome("note: snapshot changed after a dropped response (futures explored)");
                }
            }
            if let Some(x) = s.spec.live.get(&id) {
                if x.sealed && !spec.live.contains_key(&id) {
                    match auth {
                        Auth::Sha1(_) => acc.outcome("witness: genuine SHA-1 response delivered to an authenticated request"),
                        Auth::Sha256(_) => acc.outcome("witness: genuine SHA-256 response delivered to an authenticated request"),
                        Auth::Both(_) => acc.outcome("witness: genuine SHA-1+SHA-256 response delivered to an authenticated request"),
                        _ => {}
                    }
                }
            }
        }
        Some(Node { spec, hist: Arc::new(hist), key })
    }

    fn key(&self, s: &Node) -> u128 {
        s.key
    }

    fn on_unique(&self, s: &Node, acc: &mut Acc) {
        acc.nontrivial += 1;
        if s.spec.diverged {
            return;
        }
        if self.slice.drain && !s.spec.live.is_empty() {
            drain(s, self.slice.prop, acc);
        }
        if self.slice.differential && !s.hist.is_empty() {
            differential(s, acc);
        }
    }

    fn describe(&self, s: &Node) -> Value {
        json!({"tcp": s.spec.tcp, "steps": *s.hist})
    }
}

/// Poll at every reported wake-up until nothing is outstanding (at most 60 service polls).
pub fn drain(s: &Node, prop: &'static str, acc: &mut Acc) {
    let Ok(real) = guarded(|| rebuild(s.spec.tcp, &s.hist, base_instant())) else { return };
    drain_from(s.spec.clone(), real, (*s.hist).clone(), prop, acc);
}

pub fn drain_from(mut spec: Spec, mut real: Real, mut steps: Vec<Step>, prop: &'static str, acc: &mut Acc) {
    let prefix = steps.len();
    let mut n = 0;
    while !spec.live.is_empty() {
        n += 1;
        if n > 60 {
            let b = Breach { property: "C05", clause: "never-completes".into(), what: "a transaction is still outstanding after 60 service polls at the announced wake-ups".into(), expected: "every request ends in exactly one outcome".into(), observed: format!("{} still outstanding", spec.live.len()) };
            let mut v = to_violation(&b, spec.tcp, &steps[..prefix]);
            v.replay["variant"] = json!("drain");
            acc.violation(v);
            return;
        }
        let t = spec.wake().unwrap().max(spec.now);
        let step = Step { act: Act::Poll { when: When::Wake, order: 0 }, now: t };
        acc.evaluations += 1;
        acc.validated += 1;
        let before = spec.clone();
        let breaches = lockstep(&mut spec, &mut real, &step, prop);
        if breaches.is_empty() {
            witnesses(&before, &step, &spec, &steps, acc);
        }
        steps.push(step);
        if !breaches.is_empty() {
            for b in &breaches {
                let mut v = to_violation(b, spec.tcp, &steps);
                v.signature = format!("{}/drain", v.signature);
                acc.violation(v);
            }
            if prop == "C07" && breaches.iter().any(|b| b.property == "C06") {
                if let Some(v) = drop_effect_check(spec.tcp, &steps) {
                    acc.violation(v);
                }
            }
            if breaches.iter().all(|b| b.property != "C05") {
                // the reference lost track for a reason that is another property's business (timing,
                // addressing, ...); "ends in exactly one outcome" is still judged, black-box
                blackbox_completion(&mut real, spec.tcp, step.now, &steps[..prefix], acc);
            }
            return;
        }
    }
    acc.outcome("drained to completion");
    // one more poll: an idle agent must not produce events
    let step = Step { act: Act::Poll { when: When::Now, order: 0 }, now: spec.now + 1 };
    let breaches = lockstep(&mut spec, &mut real, &step, prop);
    steps.push(step);
    for b in &breaches {
        let mut v = to_violation(b, spec.tcp, &steps);
        v.signature = format!("{}/drain", v.signature);
        acc.violation(v);
    }
}

/// After the reference model diverged for a reason owned by another property: keep servicing the
/// real agent at the wake-ups it announces itself and judge only C05's completion clause — every
/// outstanding request of the universe ends, exactly once, within 80 further polls.
fn blackbox_completion(real: &mut Real, tcp: bool, from: i64, prefix: &[Step], acc: &mut Acc) {
    let mut t = from;
    let mut completions: std::collections::BTreeMap<u128, u32> = Default::default();
    let mut polls = 0;
    let problem: Option<(String, String, String)> = loop {
        let live_now = match guarded(|| real.post().live.iter().any(|l| *l)) {
            Ok(l) => l,
            Err(p) => break Some((format!("panic/{}/blackbox", panic_label(&p)), format!("the agent panicked while its outstanding requests were inspected: {}", p.message), format!("panic at {}", p.location))),
        };
        if !live_now {
            break None;
        }
        polls += 1;
        if polls > 80 {
            break Some(("never-completes/blackbox".into(), "a transaction is still outstanding after 80 further polls at the wake-ups the agent announced itself".into(), format!("still outstanding at +{t}ms")));
        }
        let obs = match guarded(|| real.exec(&Step { act: Act::Poll { when: When::Now, order: 0 }, now: t })) {
            Ok(o) => o,
            Err(_) => return, // a panic is reported by the lock-step path
        };
        match obs {
            Obs::PollWait(ns) => {
                let w = (ns / 1_000_000) as i64;
                t = if w > t { w } else { t + 1 };
            }
            Obs::PollTimedOut(id) | Obs::PollCancelled(id) => {
                let c = completions.entry(id).or_insert(0);
                *c += 1;
                if *c > 1 {
                    break Some(("completed-twice/blackbox".into(), "poll reported the completion of the same transaction twice".into(), format!("{id:#x} x{c}")));
                }
            }
            _ => {}
        }
    };
    if let Some((clause, what, observed)) = problem {
        let b = Breach { property: "C05", clause, what, expected: "every request ends in exactly one outcome".into(), observed };
        let mut v = to_violation(&b, tcp, prefix);
        v.replay["variant"] = json!("drain");
        acc.violation(v);
    } else {
        acc.outcome("completion judged black-box after a divergence owned by another property");
    }
}

/// C20, last clause ("instants passed to one call do not leak into another transaction's
/// schedule"): the joint history breaches a timing clause although the projection of the history
/// onto each single transaction (same instants, the other transactions' calls removed) does not.
pub fn leak_check(tcp: bool, hist: &[Step]) -> Option<Violation> {
    let run = |steps: &[Step]| -> Vec<Breach> {
        let mut real = Real::new(tcp, base_instant());
        let mut spec = Spec::new(tcp);
        for st in steps {
            let b = lockstep(&mut spec, &mut real, st, "C20");
            if !b.is_empty() {
                return b;
            }
        }
        Vec::new()
    };
    let joint = run(hist);
    let timing = joint.iter().find(|b| b.property == "C06")?;
    let ids: Vec<u8> = (0..3u8).filter(|i| hist.iter().any(|s| matches!(s.act, Act::Send { id, .. } if id == *i))).collect();
    // (a) instants of calls made while nothing was outstanding (idle polls) must not matter either:
    // the same history without its idle polls
    {
        let mut live = 0usize;
        let mut spec = Spec::new(tcp);
        let mut real = Real::new(tcp, base_instant());
        let mut idle_polls: Vec<usize> = Vec::new();
        for (i, st) in hist.iter().enumerate() {
            if matches!(st.act, Act::Poll { .. }) && live == 0 {
                idle_polls.push(i);
            }
            if !lockstep(&mut spec, &mut real, st, "C20").is_empty() {
                break;
            }
            live = spec.live.len();
        }
        if !idle_polls.is_empty() {
            let without: Vec<Step> = hist.iter().enumerate().filter(|(i, _)| !idle_polls.contains(i)).map(|(_, s)| *s).collect();
            if run(&without).is_empty() {
                return Some(Violation {
                    property: "C20".into(),
                    signature: "C20/idle-call-leak".into(),
                    what: format!("a transaction's schedule depends on the instant of a poll made while nothing was outstanding: the history breaches `{}` ({}), the same history without its {} idle poll(s) follows the schedule", timing.clause, timing.what, idle_polls.len()),
                    expected: timing.expected.clone(),
                    observed: timing.observed.clone(),
                    replay: replay_json(tcp, hist, Some(json!("leak"))),
                });
            }
        }
    }
    if ids.len() < 2 {
        return None;
    }
    for i in &ids {
        let proj: Vec<Step> = hist
            .iter()
            .filter(|s| match s.act {
                Act::Send { id, .. } | Act::Cancel { id } | Act::CancelRtx { id } | Act::Configure { id, .. } => id == *i,
                Act::Resp { id, .. } => id == *i || id >= 3,
                _ => true,
            })
            .map(|s| match s.act {
                Act::Poll { when, .. } => Step { act: Act::Poll { when, order: 0 }, now: s.now },
                _ => *s,
            })
            .collect();
        if !run(&proj).is_empty() {
            return None; // the transaction misbehaves on its own: a C06 matter, not a leak
        }
    }
    Some(Violation {
        property: "C20".into(),
        signature: "C20/cross-transaction-leak".into(),
        what: format!("a transaction's schedule depends on calls made for another transaction: the joint history breaches `{}` ({}) while every single-transaction projection of it (same instants) follows the schedule", timing.clause, timing.what),
        expected: timing.expected.clone(),
        observed: timing.observed.clone(),
        replay: replay_json(tcp, hist, Some(json!("leak"))),
    })
}

/// C07, "a dropped response leaves the retransmission timing unchanged": the history breaches a
/// timing clause, and the same history with the dropped responses removed (same instants for
/// everything else) does not — so the drops are what moved the schedule.
pub fn drop_effect_check(tcp: bool, hist: &[Step]) -> Option<Violation> {
    // joint run, remembering which response steps were dropped while their transaction was live
    let mut real = Real::new(tcp, base_instant());
    let mut spec = Spec::new(tcp);
    let mut dropped: Vec<usize> = Vec::new();
    let mut timing: Option<Breach> = None;
    for (i, st) in hist.iter().enumerate() {
        let live_before = match st.act {
            Act::Resp { id, .. } => spec.live.contains_key(&id),
            _ => false,
        };
        let b = lockstep(&mut spec, &mut real, st, "C07");
        if let Act::Resp { id, .. } = st.act {
            if live_before && spec.live.contains_key(&id) {
                dropped.push(i);
            }
        }
        if !b.is_empty() {
            timing = b.into_iter().find(|x| x.property == "C06");
            break;
        }
    }
    let timing = timing?;
    if dropped.is_empty() {
        return None;
    }
    let without: Vec<Step> = hist.iter().enumerate().filter(|(i, _)| !dropped.contains(i)).map(|(_, s)| *s).collect();
    let mut real = Real::new(tcp, base_instant());
    let mut spec = Spec::new(tcp);
    for st in &without {
        if !lockstep(&mut spec, &mut real, st, "C07").is_empty() {
            return None; // misbehaves without the drops as well: not their effect
        }
    }
    Some(Violation {
        property: "C07".into(),
        signature: "C07/dropped-response-changed-timing".into(),
        what: format!("a dropped response changed the transaction's retransmission timing: the history breaches `{}` ({}), the same history without its {} dropped response(s) follows the schedule", timing.clause, timing.what, dropped.len()),
        expected: timing.expected.clone(),
        observed: timing.observed.clone(),
        replay: replay_json(tcp, hist, Some(json!("drop-effect"))),
    })
}

/// run a history on a fresh agent and collect (observation, observers) per step
pub fn observe(tcp: bool, steps: &[Step], base: std::time::Instant) -> Vec<(Obs, Post)> {
    let mut r = Real::new(tcp, base);
    steps
        .iter()
        .map(|s| {
            let o = r.exec(s);
            let p = r.post();
            (o, p)
        })
        .collect()
}

pub const SHIFTS_MS: [u64; 3] = [1, 86_400_000, 1_000_000_000];

/// C20: the same history under a shifted time base, on another thread, interleaved with an
/// unrelated agent, near the wall clock, or handed to another thread half way must give identical
/// observations (instants relative to the base).
///
/// Ambient state would typically live in a thread-local or a static that an *earlier* use has
/// set, so the order matters and is fixed: the reference is taken on a freshly spawned thread that
/// has never run an agent; all variants run on a second fresh thread, latest time base first, so
/// that every later variant runs "after a use at later instants".  Nothing depends on what the
/// calling (pool) thread did before, which keeps a finding reproducible from its replay file.
pub fn differential_variants(tcp: bool, steps: &[Step]) -> Vec<(String, bool, String)> {
    let base = base_instant();
    type Ret = (Vec<(Obs, Post)>, Vec<(String, bool, String)>, Option<Real>);
    let spawn = |f: Box<dyn FnOnce() -> Ret + Send>| -> Ret { std::thread::Builder::new().stack_size(256 << 10).spawn(f).expect("spawn").join().unwrap() };
    let half = steps.len() / 2;
    // thread 1 (fresh): the reference run is the first thing it ever does; then the first half of
    // the history on the agent that will be handed over
    let st: Vec<Step> = steps.to_vec();
    let (mut t1, _, handed) = spawn(Box::new(move || {
        let mut obs = observe(tcp, &st, base);
        let mut r = Real::new(tcp, base);
        for s in &st[..half] {
            let o = r.exec(s);
            let p = r.post();
            obs.push((o, p));
        }
        (obs, Vec::new(), Some(r))
    }));
    let first_half: Vec<(Obs, Post)> = t1.split_off(steps.len());
    let reference = t1;
    // thread 2 (fresh): all variants, latest time base first
    let st: Vec<Step> = steps.to_vec();
    let refc = reference.clone();
    let (_, mut out, _) = spawn(Box::new(move || {
        let steps = st;
        let reference = refc;
        let mut out = Vec::new();
        // (whatever the library asks the process environment for on this thread is recorded)
        let _ambient = crate::ambient::scope();
        crate::ambient::record(true);
        for d in SHIFTS_MS.iter().rev() {
            let shifted = observe(tcp, &steps, base + Duration::from_millis(*d));
            out.push((format!("time base shifted by {d} ms"), shifted == reference, first_diff(&reference, &shifted)));
        }
        let again = observe(tcp, &steps, base);
        out.push(("replayed unchanged on a thread that ran later histories before".to_string(), again == reference, first_diff(&reference, &again)));
        // interleaved with an unrelated agent running another script an hour ahead
        let mut r = Real::new(tcp, base);
        let mut noise = Real::new(!tcp, base);
        let mut inter = Vec::new();
        for (i, s) in steps.iter().enumerate() {
            let n1 = Step { act: Act::Send { id: (i % 3) as u8, dest: 1, seal: Seal::Sha1, shape: 1 }, now: s.now + 3_600_000 };
            let _ = noise.exec(&n1);
            let o = r.exec(s);
            let n2 = Step { act: Act::Poll { when: When::Now, order: 0 }, now: s.now + 3_699_999 };
            let _ = noise.exec(&n2);
            let p = r.post();
            inter.push((o, p));
        }
        out.push(("interleaved with an unrelated agent".to_string(), inter == reference, first_diff(&reference, &inter)));
        // under a tracing subscriber (the ambient dispatcher of the thread): arguments of the
        // library's log statements are only evaluated then, and formatting runs its Debug impls
        for (name, level) in [("TRACE", tracing::Level::TRACE), ("DEBUG", tracing::Level::DEBUG), ("INFO", tracing::Level::INFO), ("WARN", tracing::Level::WARN), ("ERROR", tracing::Level::ERROR)] {
            let d = sink_dispatch(level);
            let logged = tracing::dispatcher::with_default(&d, || observe(tcp, &steps, base));
            out.push((format!("replayed under a {name} tracing subscriber"), logged == reference, first_diff(&reference, &logged)));
        }
        // the process clock (the harness' own clock_gettime) jumping at every read made on this thread:
        // two reads inside one history are 7 s / 50 days apart
        for secs in [7u64, 4_320_000] {
            let _g = crate::ambient::scope();
            crate::ambient::clock_step(Duration::from_secs(secs));
            let o = observe(tcp, &steps, base);
            out.push((format!("replayed with the process clock jumping {secs} s at every read"), o == reference, first_diff(&reference, &o)));
        }
        // every environment variable the library was seen to read (on any thread, so far), under every
        // value of a small alphabet and unset (the harness' own getenv answers on this thread)
        for name in crate::ambient::env_names() {
            for value in crate::ambient::ENV_VALUES.iter().map(|v| Some(*v)).chain([None]) {
                let _g = crate::ambient::scope();
                crate::ambient::env_override(&name, value);
                let o = observe(tcp, &steps, base);
                out.push((format!("replayed with the environment variable {name} reading as {value:?}"), o == reference, first_diff(&reference, &o)));
            }
        }
        // time bases around the real clock: "now" and an hour ago (an ambient clock read used as a
        // fallback or clamp shows here, BASE being 100 000 s in the future)
        let wall = std::time::Instant::now();
        let near = observe(tcp, &steps, wall);
        out.push(("time base at the wall clock".to_string(), near == reference, first_diff(&reference, &near)));
        for back in [3_601u64, 86_401] {
            // (only as far back as the platform's monotonic clock can represent)
            if let Some(past) = wall.checked_sub(Duration::from_secs(back)) {
                let o = observe(tcp, &steps, past);
                out.push(("time base at the wall clock".to_string(), o == reference, first_diff(&reference, &o)));
            }
        }
        (Vec::new(), out, None)
    }));
    // thread 3 (fresh): drives an unrelated agent an hour ahead, then receives the agent of
    // thread 1 and runs the second half of the history on it
    if steps.len() >= 2 {
        let second: Vec<Step> = steps[half..].to_vec();
        let mut r = handed.unwrap();
        let t0 = steps[half].now;
        let (rest, _, _) = spawn(Box::new(move || {
            let mut noise = Real::new(tcp, base);
            let _ = noise.exec(&Step { act: Act::Send { id: 0, dest: 1, seal: Seal::None, shape: 0 }, now: t0 + 3_600_000 });
            let _ = noise.exec(&Step { act: Act::Poll { when: When::Now, order: 0 }, now: t0 + 3_600_100 });
            let o: Vec<(Obs, Post)> = second.iter().map(|s| { let o = r.exec(s); let p = r.post(); (o, p) }).collect();
            (o, Vec::new(), None)
        }));
        let mut obs = first_half;
        obs.extend(rest);
        out.push(("handed to another thread half way".to_string(), obs == reference, first_diff(&reference, &obs)));
    }
    out
}

/// The maximum levels a subscriber is given: with INFO the library's spans are recorded and its debug! /
/// trace! events are not (their arguments are then never evaluated), with WARN / ERROR no span is current.
pub const LEVELS: [tracing::Level; 5] = [tracing::Level::TRACE, tracing::Level::DEBUG, tracing::Level::INFO, tracing::Level::WARN, tracing::Level::ERROR];

pub fn sink_dispatch(level: tracing::Level) -> tracing::Dispatch {
    use std::sync::OnceLock;
    static CELLS: [OnceLock<tracing::Dispatch>; 5] = [OnceLock::new(), OnceLock::new(), OnceLock::new(), OnceLock::new(), OnceLock::new()];
    let cell = &CELLS[LEVELS.iter().position(|l| *l == level).unwrap_or(0)];
    cell.get_or_init(|| tracing::Dispatch::new(tracing_subscriber::fmt().with_max_level(level).with_writer(std::io::sink).finish())).clone()
}

fn clause_of(name: &str) -> String {
    if name.starts_with("time base shifted") {
        "time-shift".to_string()
    } else if name.starts_with("time base at the wall clock") {
        "wall-clock-base".to_string()
    } else if name.contains("tracing subscriber") {
        "tracing-subscriber".to_string()
    } else if name.contains("process clock") {
        "process-clock".to_string()
    } else if name.contains("environment variable") {
        "process-environment".to_string()
    } else {
        name.replace(' ', "-")
    }
}

fn first_diff(a: &[(Obs, Post)], b: &[(Obs, Post)]) -> String {
    for (i, (x, y)) in a.iter().zip(b.iter()).enumerate() {
        if x != y {
            return format!("step {i}: {:?} vs {:?}", x.0, y.0);
        }
    }
    String::new()
}

/// Thread creation is the dominant cost of the differential check and contends in the kernel, so
/// the number of differential checks in flight is limited (VERIF_DIFF_PAR, default 4).
fn diff_gate() -> &'static (std::sync::Mutex<usize>, std::sync::Condvar) {
    static G: std::sync::OnceLock<(std::sync::Mutex<usize>, std::sync::Condvar)> = std::sync::OnceLock::new();
    G.get_or_init(|| {
        let n = std::env::var("VERIF_DIFF_PAR").ok().and_then(|s| s.parse().ok()).unwrap_or(4usize);
        (std::sync::Mutex::new(n.max(1)), std::sync::Condvar::new())
    })
}

fn differential(s: &Node, acc: &mut Acc) {
    let (m, cv) = diff_gate();
    {
        let mut g = m.lock().unwrap();
        while *g == 0 {
            g = cv.wait(g).unwrap();
        }
        *g -= 1;
    }
    struct Release;
    impl Drop for Release {
        fn drop(&mut self) {
            let (m, cv) = diff_gate();
            *m.lock().unwrap() += 1;
            cv.notify_one();
        }
    }
    let _release = Release;
    let variants = match guarded(|| differential_variants(s.spec.tcp, &s.hist)) {
        Ok(v) => v,
        Err(p) => {
            acc.violation(Violation {
                property: "C20".into(),
                signature: format!("C20/panic/{}/variant", panic_label(&p)),
                what: format!("the agent panicked while a history that had run without panic was replayed under the C20 variants: {}", p.message),
                expected: "identical replies".into(),
                observed: format!("panic at {}", p.location),
                replay: replay_json(s.spec.tcp, &s.hist, Some(json!("differential"))),
            });
            return;
        }
    };
    for (name, same, diff) in variants {
        acc.evaluations += 1;
        acc.validated += 1;
        if !same {
            let clause = clause_of(&name);
            acc.violation(Violation {
                property: "C20".into(),
                signature: format!("C20/{clause}"),
                what: format!("replies differ when the history is {name}"),
                expected: "identical replies (reported instants shifted by the same constant)".into(),
                observed: diff,
                replay: replay_json(s.spec.tcp, &s.hist, Some(json!("differential"))),
            });
        }
    }
    acc.outcome("history replayed under 13-15 variants");
}

pub fn replay(prop: &str, rp: &Value) -> Vec<Violation> {
    let tcp = rp["tcp"].as_bool().unwrap_or(false);
    if let Some(s) = rp["seed"].as_u64() {
        set_seed(s);
    }
    let steps: Vec<Step> = serde_json::from_value(rp["steps"].clone()).unwrap_or_else(|e| {
        eprintln!("MACHINERY-FAILURE: bad agent replay: {e}");
        std::process::exit(2)
    });
    let mut acc = Acc::default();
    if rp.get("variant").and_then(|v| v.as_str()) == Some("differential") {
        let variants = match guarded(|| differential_variants(tcp, &steps)) {
            Ok(v) => v,
            Err(p) => {
                return vec![Violation { property: "C20".into(), signature: format!("C20/panic/{}/variant", panic_label(&p)), what: format!("the agent panicked under the C20 variants: {}", p.message), expected: "identical replies".into(), observed: format!("panic at {}", p.location), replay: rp.clone() }];
            }
        };
        for (name, same, diff) in variants {
            if !same {
                let clause = clause_of(&name);
                acc.violation(Violation { property: "C20".into(), signature: format!("C20/{clause}"), what: format!("replies differ when the history is {name}"), expected: "identical replies".into(), observed: diff, replay: rp.clone() });
            }
        }
        return acc.violations.into_values().map(|(v, _)| v).collect();
    }
    if rp.get("variant").and_then(|v| v.as_str()) == Some("drop-effect") {
        return drop_effect_check(tcp, &steps).into_iter().collect();
    }
    if rp.get("variant").and_then(|v| v.as_str()) == Some("leak") {
        return leak_check(tcp, &steps).into_iter().collect();
    }
    let mut real = Real::new(tcp, base_instant());
    let mut spec = Spec::new(tcp);
    let drain_sig = rp.get("drain").is_some();
    let _ = drain_sig;
    for (i, st) in steps.iter().enumerate() {
        let breaches = lockstep(&mut spec, &mut real, st, "C05");
        for b in &breaches {
            let mut v = to_violation(b, tcp, &steps[..=i]);
            acc.violation(v.clone());
            // drain-found violations carry the /drain suffix
            v.signature = format!("{}/drain", v.signature);
            acc.violation(v);
        }
        // (schedule paths go on after a breach that belongs to another property, see schedule::run_path2)
        let go_on = rp.get("continue_foreign").is_some() && breaches.iter().all(|b| b.property != prop);
        if !breaches.is_empty() && !go_on {
            break;
        }
    }
    if rp.get("variant").and_then(|v| v.as_str()) == Some("drain") && !spec.diverged {
        drain_from(spec, real, steps.clone(), "C05", &mut acc);
    }
    let _ = prop;
    acc.violations.into_values().map(|(v, _)| v).collect()
}
