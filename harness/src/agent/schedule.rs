//! C06 (a): single-transaction schedule sweep to completion — every timeout configuration of the
//! grid x transport x every poll pattern (early-then-exact, exact, late by 1 ms, late by half the
//! interval) at every wake-up, plus reconfiguration / cancel_retransmissions / cancel at every
//! step index.  Every path is executed on the real agent in lock-step with the reference model.

use super::model::{lockstep, to_violation};
use super::spec::Spec;
use super::*;
use crate::common::*;
use rayon::prelude::*;
use serde_json::Value;

#[derive(Clone, Copy, Debug, PartialEq, Eq)]
enum Pat {
    Exact,
    EarlyThenExact,
    Late1,
    LateHalf,
}

const PATS: [Pat; 4] = [Pat::Exact, Pat::EarlyThenExact, Pat::Late1, Pat::LateHalf];

/// all pattern vectors of length k: exhaustive for k <= 6, at most 2 non-exact polls above that
fn pattern_vectors(k: usize) -> Vec<Vec<Pat>> {
    let mut out = Vec::new();
    let mut cur = vec![Pat::Exact; k];
    fn rec(i: usize, k: usize, budget: usize, cur: &mut Vec<Pat>, out: &mut Vec<Vec<Pat>>) {
        if i == k {
            out.push(cur.clone());
            return;
        }
        for p in PATS {
            if p != Pat::Exact {
                if budget == 0 {
                    continue;
                }
                cur[i] = p;
                rec(i + 1, k, budget - 1, cur, out);
            } else {
                cur[i] = p;
                rec(i + 1, k, budget, cur, out);
            }
        }
    }
    let budget = if k <= 6 { k } else { 2 };
    rec(0, k, budget, &mut cur, &mut out);
    out
}

/// Mid-flight intervention: after `at` wake-ups, execute `act`.
#[derive(Clone, Copy, Debug)]
struct Intervention {
    at: usize,
    act: Act,
}

/// Run one path: send, optional configure, then service wake-ups with the given pattern vector
/// (exact once the vector is exhausted) until nothing is outstanding.
fn run_path(prop: &'static str, sealed: bool, tcp: bool, cfg_idx: Option<u8>, pats: &[Pat], iv: Option<Intervention>, acc: &mut Acc) {
    run_path2(prop, sealed, tcp, cfg_idx, pats, iv, None, acc)
}

/// As `run_path`, with up to two interventions (the second at the same or a later wake-up).
#[allow(clippy::too_many_arguments)]
fn run_path2(prop: &'static str, sealed: bool, tcp: bool, cfg_idx: Option<u8>, pats: &[Pat], iv: Option<Intervention>, iv2: Option<Intervention>, acc: &mut Acc) {
    let mut real = Real::new(tcp, base_instant());
    let mut spec = Spec::new(tcp);
    let mut steps: Vec<Step> = Vec::new();
    // set once the path went on after a breach that belongs to another property
    let diverged = std::cell::Cell::new(false);
    let mut exec = |spec: &mut Spec, real: &mut Real, steps: &mut Vec<Step>, act: Act, now: i64, acc: &mut Acc| -> bool {
        let st = Step { act, now };
        acc.evaluations += 1;
        acc.validated += 1;
        let br = lockstep(spec, real, &st, prop);
        steps.push(st);
        if !br.is_empty() {
            for b in &br {
                let mut v = to_violation(b, tcp, steps);
                v.replay["model"] = serde_json::json!("agent-schedule");
                acc.violation(v);
            }
            if prop == "C07" && br.iter().any(|b| b.property == "C06") {
                if let Some(v) = super::model::drop_effect_check(tcp, steps) {
                    acc.violation(v);
                }
            }
            // a breach that belongs to another property does not end the path: the reference stays on its
            // course, and what this property says about the steps that follow is still judged (a request
            // that silently left the outstanding set is C05's finding at this step and C06's / C18's at
            // the retransmission that never comes)
            let foreign = br.iter().all(|b| b.property != prop);
            if foreign {
                diverged.set(true);
            }
            return foreign;
        }
        true
    };
    if sealed && !exec(&mut spec, &mut real, &mut steps, Act::SetRemote { key: 1 }, 0, acc) {
        return;
    }
    let seal = if sealed { Seal::Sha1 } else { Seal::None };
    // (how the builder reaches send - as built, through into_owned / clone / clone_from - rotates with the configuration)
    let provenance = (cfg_idx.map_or(0, |c| c as u8 + 1) % 4) << 4;
    if !exec(&mut spec, &mut real, &mut steps, Act::Send { id: 0, dest: 0, seal, shape: provenance }, 0, acc) {
        return;
    }
    if let Some(c) = cfg_idx {
        if !exec(&mut spec, &mut real, &mut steps, Act::Configure { id: 0, cfg: c }, 0, acc) {
            return;
        }
    }
    let mut wake_no = 0usize;
    let mut guard = 0;
    while !spec.live.is_empty() {
        guard += 1;
        if guard > 80 {
            if diverged.get() {
                return; // the reference and the agent parted ways at another property's breach: reported there
            }
            acc.violation(Violation::new("C05", "never-completes/schedule", "the transaction is still outstanding after 80 service polls", "completion", "still outstanding", super::model::replay_json(tcp, &steps, None)));
            return;
        }
        if let Some(i) = iv {
            if i.at == wake_no {
                let now = if matches!(i.act, Act::Poll { when: When::Past, .. }) { spec.resolve_time(&i.act).unwrap_or(spec.now) } else { spec.now };
                if !exec(&mut spec, &mut real, &mut steps, i.act, now, acc) {
                    return;
                }
            }
        }
        if spec.live.is_empty() {
            break; // the intervention completed the transaction (response delivered)
        }
        if let Some(i) = iv2 {
            if i.at == wake_no {
                let now = if matches!(i.act, Act::Poll { when: When::Past, .. }) { spec.resolve_time(&i.act).unwrap_or(spec.now) } else { spec.now };
                if !exec(&mut spec, &mut real, &mut steps, i.act, now, acc) {
                    return;
                }
            }
        }
        if spec.live.is_empty() {
            break;
        }
        let wake = spec.wake().unwrap().max(spec.now);
        let pat = pats.get(wake_no).copied().unwrap_or(Pat::Exact);
        let interval = (wake - spec.now).max(0);
        let t = match pat {
            Pat::Exact => wake,
            Pat::EarlyThenExact => {
                if wake - 1 > spec.now {
                    if !exec(&mut spec, &mut real, &mut steps, Act::Poll { when: When::WakeMinus1, order: 0 }, wake - 1, acc) {
                        return;
                    }
                }
                wake
            }
            Pat::Late1 => wake + 1,
            Pat::LateHalf => wake + (interval / 2).max(2),
        };
        if !exec(&mut spec, &mut real, &mut steps, Act::Poll { when: When::Wake, order: 0 }, t, acc) {
            return;
        }
        wake_no += 1;
    }
    // afterwards: the idle agent produces no event, a late response is dropped, the id is reusable
    let now = spec.now + 1;
    for act in [Act::Poll { when: When::Now, order: 0 }, Act::Resp { id: 0, class: 2, auth: Auth::None, from: 0 }, Act::Send { id: 0, dest: 0, seal: Seal::None, shape: 0 }] {
        if !exec(&mut spec, &mut real, &mut steps, act, now, acc) {
            return;
        }
    }
    acc.nontrivial += 1;
    let how = spec.completed.get(&0).and_then(|v| v.first().copied());
    acc.outcome(match how {
        Some(2) => "schedule ran to timeout",
        Some(3) => "schedule ended in cancellation",
        Some(1) => "schedule ended in delivery",
        _ => "schedule ended",
    });
    if steps.len() > 3 && acc.samples.len() < 2 && (wake_no * 7 + pats.len()) % 23 == 0 {
        acc.sample(serde_json::json!({"tcp": tcp, "cfg": cfg_idx.map(cfg), "steps": steps}));
    }
}

pub fn sweep(ctx: &Ctx) -> Acc {
    // jobs: (tcp, cfg index or None for default)
    let mut jobs: Vec<(bool, Option<u8>)> = vec![(false, None), (true, None)];
    for c in N_NAMED_CFGS..n_cfgs() {
        jobs.push((false, Some(c as u8)));
        jobs.push((true, Some(c as u8)));
    }
    for c in 0..N_NAMED_CFGS {
        jobs.push((false, Some(c as u8)));
        jobs.push((true, Some(c as u8)));
    }
    let acc1 = jobs
        .par_iter()
        .fold(Acc::default, |mut acc, (tcp, c)| {
            let (_, n, _) = c.map(cfg).unwrap_or((500, 6, 8000));
            let k = if *tcp { 1 } else { n as usize + 1 };
            for pv in pattern_vectors(k) {
                run_path("C06", false, *tcp, *c, &pv, None, &mut acc);
            }
            acc
        })
        .reduce(Acc::default, |a, b| a.merge(b));
    // interventions at every step index: reconfigure (named configs), cancel_retransmissions, cancel
    let mut acts: Vec<Act> = (0..N_NAMED_CFGS as u8).map(|c| Act::Configure { id: 0, cfg: c }).collect();
    acts.push(Act::CancelRtx { id: 0 });
    acts.push(Act::Cancel { id: 0 });
    // a poll whose instant lies before the previous call's (a stale clock sample)
    acts.push(Act::Poll { when: When::Past, order: 0 });
    acts.extend(neutral_acts());
    // pairs: reconfigure / cancel_retransmissions / dropped response, then reconfigure / cancel_retransmissions
    let firsts: Vec<Act> = (0..N_NAMED_CFGS as u8).map(|c| Act::Configure { id: 0, cfg: c }).chain([Act::CancelRtx { id: 0 }, Act::Resp { id: 0, class: 2, auth: Auth::None, from: 0 }]).collect();
    let seconds: Vec<Act> = (0..N_NAMED_CFGS as u8).map(|c| Act::Configure { id: 0, cfg: c }).chain([Act::CancelRtx { id: 0 }]).collect();
    acc1.merge(interventions(ctx, "C06", false, &acts)).merge(pair_interventions(ctx, "C06", true, &firsts, &seconds))
}

/// Single-transaction paths to completion with one intervention at every step index, under two
/// poll patterns and a family of base configurations, both transports.
pub fn interventions(ctx: &Ctx, prop: &'static str, sealed: bool, acts: &[Act]) -> Acc {
    let thorough = ctx.tier == Tier::Thorough;
    let mut ijobs: Vec<(bool, Option<u8>, Intervention, Pat)> = Vec::new();
    let bases: Vec<Option<u8>> = if thorough { (0..n_cfgs() as u8).map(Some).chain([None]).collect() } else { vec![None, Some(1), Some(3), Some(4), Some(5 + 9 * 4 * 2 + 4 * 3 + 2), Some(5 + 9 * 4 * 3 + 4 * 6)] };
    for tcp in [false, true] {
        for b in &bases {
            let (_, n, _) = b.map(cfg).unwrap_or((500, 6, 8000));
            let k = if tcp { 1 } else { n as usize + 1 };
            for at in 0..=k {
                for pat in [Pat::Exact, Pat::LateHalf] {
                    for a in acts {
                        ijobs.push((tcp, *b, Intervention { at, act: *a }, pat));
                    }
                }
            }
        }
    }
    // every path twice: plain, and with a TRACE tracing subscriber as the thread's dispatcher (log
    // statements evaluate their arguments only then)
    // ... and once more under one of DEBUG / INFO / WARN / ERROR in turn (with INFO the library's spans are
    // recorded while its debug! events are not)
    let sink = super::model::sink_dispatch(tracing::Level::TRACE);
    ijobs
        .par_iter()
        .enumerate()
        .fold(Acc::default, |mut acc, (n, (tcp, c, iv, pat))| {
            run_path(prop, sealed, *tcp, *c, &vec![*pat; 12], Some(*iv), &mut acc);
            tracing::dispatcher::with_default(&sink, || run_path(prop, sealed, *tcp, *c, &vec![*pat; 12], Some(*iv), &mut acc));
            let other = super::model::sink_dispatch(super::model::LEVELS[1 + (n + iv.at) % 4]);
            tracing::dispatcher::with_default(&other, || run_path(prop, sealed, *tcp, *c, &vec![*pat; 12], Some(*iv), &mut acc));
            acc
        })
        .reduce(Acc::default, |a, b| a.merge(b))
}

/// Calls that concern no transaction or another one - a request or indication arriving under the id of
/// the request under way (a reflected / hairpinned check) or under another id, a response for an unknown
/// id, a duplicate send (refused), an indication sent, credentials set: at whatever position, the
/// transaction under way keeps its schedule, its bytes and its completion.  Every sweep includes them.
pub fn neutral_acts() -> Vec<Act> {
    vec![
        Act::Incoming { class: 0, id: 0, from: 2 },
        Act::Incoming { class: 1, id: 0, from: 0 },
        Act::Incoming { class: 0, id: 0, from: 0 },
        Act::Incoming { class: 1, id: 3, from: 2 },
        Act::Resp { id: 3, class: 2, auth: Auth::None, from: 0 },
        Act::Send { id: 0, dest: 1, seal: Seal::None, shape: 0 },
        Act::SendOther { kind: 1, dest: 1 },
        Act::SetRemote { key: 2 },
        Act::SetLocal { key: 3 },
    ]
}

/// Two interventions at every pair of positions (i <= j) of single-transaction schedules: what one
/// call leaves behind only shows when a later call of another kind meets it.
pub fn pair_interventions(ctx: &Ctx, prop: &'static str, sealed: bool, first: &[Act], second: &[Act]) -> Acc {
    let thorough = ctx.tier == Tier::Thorough;
    let bases: Vec<Option<u8>> = if thorough { vec![None, Some(1), Some(2), Some(3), Some(4)] } else { vec![None, Some(1), Some(3)] };
    let mut jobs: Vec<(bool, Option<u8>, Intervention, Intervention)> = Vec::new();
    for tcp in [false, true] {
        for b in &bases {
            let (_, n, _) = b.map(cfg).unwrap_or((500, 6, 8000));
            let k = if tcp { 1 } else { n as usize + 1 };
            for i in 0..=k {
                for j in i..=k {
                    for a in first {
                        for c in second {
                            jobs.push((tcp, *b, Intervention { at: i, act: *a }, Intervention { at: j, act: *c }));
                        }
                    }
                }
            }
        }
    }
    let sink = super::model::sink_dispatch(tracing::Level::DEBUG);
    jobs.par_iter()
        .enumerate()
        .fold(Acc::default, |mut acc, (n, (tcp, c, i1, i2))| {
            if n % 2 == 0 {
                run_path2(prop, sealed, *tcp, *c, &[Pat::Exact; 12], Some(*i1), Some(*i2), &mut acc);
            } else {
                tracing::dispatcher::with_default(&sink, || run_path2(prop, sealed, *tcp, *c, &[Pat::Exact; 12], Some(*i1), Some(*i2), &mut acc));
            }
            acc
        })
        .reduce(Acc::default, |a, b| a.merge(b))
}

/// C05: at every position of every schedule of the family, a plain response (delivered: the
/// transaction ends there), a duplicate send (refused, nothing changes), an incoming request
/// carrying the same id, an indication sent meanwhile, cancel and cancel_retransmissions.
pub fn completion_sweep(ctx: &Ctx) -> Acc {
    let acts = [
        Act::Resp { id: 0, class: 2, auth: Auth::None, from: 0 },
        Act::Resp { id: 0, class: 3, auth: Auth::None, from: 2 },
        Act::Resp { id: 3, class: 2, auth: Auth::None, from: 0 },
        Act::Send { id: 0, dest: 1, seal: Seal::None, shape: 0 },
        Act::Incoming { class: 0, id: 0, from: 2 },
        Act::Incoming { class: 1, id: 0, from: 0 },
        Act::SendOther { kind: 1, dest: 1 },
        Act::Cancel { id: 0 },
        Act::CancelRtx { id: 0 },
    ];
    let mut acts = acts.to_vec();
    // what a response says (401 / 438 challenge with REALM and NONCE, 300 with ALTERNATE-SERVER,
    // XOR-MAPPED-ADDRESS, 420) never changes what happens to its transaction
    for f in RESP_FLAVOURS {
        acts.push(Act::Resp { id: 0, class: f, auth: Auth::None, from: 0 });
    }
    let plain = interventions(ctx, "C05", false, &acts);
    // the same for an authenticated request with remote credentials R1: unsigned, signed by R1, by R2
    let mut sealed = vec![Act::Resp { id: 0, class: 2, auth: Auth::Sha1(1), from: 0 }, Act::Resp { id: 0, class: 3, auth: Auth::None, from: 0 }, Act::SetRemote { key: 2 }, Act::SetRemote { key: 1 }, Act::SetRemote { key: 3 }, Act::SetLocal { key: 3 }, Act::SetLocal { key: 0 }];
    for f in RESP_FLAVOURS {
        for auth in [Auth::None, Auth::Sha1(1), Auth::Sha1(2)] {
            sealed.push(Act::Resp { id: 0, class: f, auth, from: 0 });
        }
    }
    // (credentials set, replaced by other ones, replaced by equal ones, local credentials set: none of
    // these touches an outstanding request)
    let firsts = [Act::Configure { id: 0, cfg: 1 }, Act::Configure { id: 0, cfg: 4 }, Act::CancelRtx { id: 0 }, Act::Resp { id: 0, class: 4, auth: Auth::None, from: 0 }, Act::Send { id: 0, dest: 1, seal: Seal::None, shape: 0 }, Act::Incoming { class: 0, id: 0, from: 0 }, Act::SetRemote { key: 2 }, Act::SetRemote { key: 1 }, Act::SetRemote { key: 3 }, Act::SetLocal { key: 3 }, Act::SetLocal { key: 0 }];
    let seconds = [Act::Resp { id: 0, class: 2, auth: Auth::Sha1(1), from: 0 }, Act::Resp { id: 0, class: 2, auth: Auth::Sha1(2), from: 0 }, Act::Resp { id: 0, class: 3, auth: Auth::None, from: 0 }, Act::Cancel { id: 0 }, Act::CancelRtx { id: 0 }, Act::Configure { id: 0, cfg: 3 }, Act::Configure { id: 0, cfg: 0 }];
    plain.merge(interventions(ctx, "C05", true, &sealed)).merge(pair_interventions(ctx, "C05", true, &firsts, &seconds)).merge(pair_interventions(ctx, "C05", false, &firsts, &seconds))
}

/// C18: every transmission of every schedule of the family carries the request's bytes and
/// addressing, also after a reconfiguration (which may extend an exhausted schedule), after
/// cancel_retransmissions and after a dropped response from another address.
pub fn transmission_sweep(ctx: &Ctx) -> Acc {
    let mut acts: Vec<Act> = (0..N_NAMED_CFGS as u8).map(|c| Act::Configure { id: 0, cfg: c }).collect();
    acts.push(Act::CancelRtx { id: 0 });
    acts.push(Act::Resp { id: 0, class: 2, auth: Auth::Sha1(2), from: 2 });
    acts.push(Act::SendOther { kind: 3, dest: 1 });
    acts.push(Act::SendOther { kind: DATA_KIND, dest: 2 });
    acts.push(Act::Send { id: 1, dest: 2, seal: Seal::None, shape: 1 });
    acts.extend(neutral_acts());
    let firsts = [Act::Configure { id: 0, cfg: 1 }, Act::Configure { id: 0, cfg: 4 }, Act::CancelRtx { id: 0 }, Act::SetLocal { key: 0 }, Act::SetRemote { key: 2 }, Act::Send { id: 1, dest: 2, seal: Seal::Sha256, shape: 1 }];
    let seconds = [Act::Configure { id: 0, cfg: 3 }, Act::Resp { id: 0, class: 2, auth: Auth::Sha1(2), from: 2 }, Act::SendOther { kind: 2, dest: 1 }, Act::Cancel { id: 1 }];
    interventions(ctx, "C18", true, &acts).merge(pair_interventions(ctx, "C18", true, &firsts, &seconds))
}

/// C07: an authenticated request with remote credentials R1; at every position of every schedule
/// of the family a forged (other key, unsigned, corrupted, local key) response is dropped and the
/// schedule afterwards is the one without it; a genuine response is delivered.
pub fn forgery_sweep(ctx: &Ctx) -> Acc {
    let mut acts = Vec::new();
    for auth in [Auth::Sha1(2), Auth::None, Auth::Sha1Flipped(1), Auth::Sha1(0), Auth::Sha256(2), Auth::Sha1(1), Auth::Sha256(1), Auth::Both(1), Auth::Sha256Trunc(1), Auth::Sha256Trunc(2), Auth::Sha256Flipped(1), Auth::MixedSha1Good(1), Auth::MixedSha256Good(1), Auth::MixedSha256Good(2), Auth::Sha1WireLenFp(1), Auth::Sha256WireLenFp(1)] {
        acts.push(Act::Resp { id: 0, class: 2, auth, from: 0 });
    }
    // MESSAGE-INTEGRITY-SHA256 of every declared length around the admissible ones
    for n in [0u8, 4, 15, 16, 17, 18, 19, 20, 21, 23, 27, 29, 31, 33, 36] {
        acts.push(Act::Resp { id: 0, class: 2, auth: Auth::Sha256Len(1, n), from: 0 });
    }
    acts.push(Act::Resp { id: 0, class: 3, auth: Auth::None, from: 2 });
    acts.push(Act::Resp { id: 0, class: 3, auth: Auth::Sha1(1), from: 2 });
    for f in RESP_FLAVOURS {
        for auth in [Auth::None, Auth::Sha1(2), Auth::Sha1(1)] {
            acts.push(Act::Resp { id: 0, class: f, auth, from: 0 });
        }
    }
    acts.extend(neutral_acts().into_iter().filter(|a| !matches!(a, Act::SetRemote { .. } | Act::SetLocal { .. })));
    // pairs: a forged response / a change of remote credentials, then a genuine or forged response
    let firsts = [Act::Resp { id: 0, class: 2, auth: Auth::Sha1(2), from: 0 }, Act::Resp { id: 0, class: 2, auth: Auth::None, from: 0 }, Act::Resp { id: 0, class: 4, auth: Auth::None, from: 0 }, Act::Resp { id: 0, class: 2, auth: Auth::MixedSha1Good(1), from: 0 }, Act::SetRemote { key: 2 }, Act::SetRemote { key: 3 }, Act::SetLocal { key: 3 }, Act::Configure { id: 0, cfg: 1 }];
    let seconds = [Act::Resp { id: 0, class: 2, auth: Auth::Sha1(1), from: 0 }, Act::Resp { id: 0, class: 2, auth: Auth::Sha256(2), from: 0 }, Act::Resp { id: 0, class: 3, auth: Auth::Sha1(3), from: 0 }, Act::Resp { id: 0, class: 2, auth: Auth::Sha1Flipped(1), from: 0 }, Act::SetRemote { key: 1 }];
    interventions(ctx, "C07", true, &acts).merge(pair_interventions(ctx, "C07", true, &firsts, &seconds))
}

pub fn replay(prop: &str, rp: &Value) -> Vec<Violation> {
    // a schedule path is an ordinary agent history
    let mut v = rp.clone();
    v["model"] = serde_json::json!("agent");
    v["continue_foreign"] = serde_json::json!(true);
    let mut out = super::model::replay(prop, &v);
    for x in out.iter_mut() {
        x.replay = rp.clone();
    }
    out
}
