pub fn selftest() -> Vec<String> { vec![] }
