//! Reference model of the STUN agent, written from the statements of C05 C06 C07 C15 C18 and
//! RFC 8489 §6.2.1 — not from the code.  Observation-driven: the model is told what the real
//! agent answered, checks that the answer is one the statements allow, and advances itself from
//! the observation (so it never has to guess a map-iteration order).  Each violated clause is
//! attributed to exactly one property (DESIGN.md Appendix A).

use super::*;
use crate::refimpl::wire;
use std::collections::{BTreeMap, BTreeSet};

#[derive(Clone, Debug, PartialEq, Eq, Hash)]
pub struct Tx {
    pub to: u8,
    pub sealed: bool,
    pub wire: std::sync::Arc<Vec<u8>>,
    /// transmissions handed out so far (1 after `send`)
    pub n_tx: u32,
    pub last_tx: i64,
    pub rto: u64,
    pub retransmits: u32,
    pub last: u64,
    /// cancel_retransmissions() or cancel() was called
    pub stop_tx: bool,
    /// cancel() was called
    pub cancelled: bool,
}

#[derive(Clone, Copy, Debug, PartialEq, Eq)]
pub enum Due {
    Retransmit(i64),
    Timeout(i64),
}

impl Tx {
    /// next scheduled event of this transaction per the statement of C06
    pub fn next(&self, tcp: bool) -> Due {
        if tcp {
            let mut sum = self.last as i64;
            for i in 0..self.retransmits {
                sum += (self.rto as i64) << i;
            }
            return Due::Timeout(self.last_tx + sum);
        }
        let done = self.n_tx - 1; // retransmissions made so far
        if done < self.retransmits {
            Due::Retransmit(self.last_tx + ((self.rto as i64) << done))
        } else {
            Due::Timeout(self.last_tx + self.last as i64)
        }
    }
    pub fn next_time(&self, tcp: bool) -> i64 {
        match self.next(tcp) {
            Due::Retransmit(t) | Due::Timeout(t) => t,
        }
    }
    /// strict = the statements pin when it is serviced (no cancel flag)
    pub fn strict(&self) -> bool {
        !self.stop_tx && !self.cancelled
    }
}

#[derive(Clone, Debug, PartialEq, Eq, Hash)]
pub struct Spec {
    pub tcp: bool,
    pub now: i64,
    pub remote_key: Option<u8>,
    pub local_key: Option<u8>,
    /// the agent was built with `.remote_addr(peer(i))`
    pub remote_addr: Option<u8>,
    pub validated: BTreeSet<u8>,
    pub live: BTreeMap<u8, Tx>,
    /// per id: how many sends completed, and how (1 delivered, 2 timed out, 3 cancelled)
    pub completed: BTreeMap<u8, Vec<u8>>,
    pub sends: u8,
    /// the last poll answered WaitUntil(t) with something live and nothing that may move the
    /// schedule has happened since (black-box WaitUntil contract)
    pub pending_wait: Option<i64>,
    pub diverged: bool,
}

/// A violated clause: (property, clause, what, expected, observed)
#[derive(Clone, Debug)]
pub struct Breach {
    pub property: &'static str,
    pub clause: String,
    pub what: String,
    pub expected: String,
    pub observed: String,
}

fn breach(property: &'static str, clause: &str, what: &str, expected: String, observed: String) -> Breach {
    Breach { property, clause: clause.to_string(), what: what.to_string(), expected, observed }
}

pub fn cfg_of(i: u8) -> (u64, u32, u64) {
    super::cfg(i)
}

pub fn id_of_tid(t: u128) -> Option<u8> {
    (0..N_IDS as u8).find(|i| tid(*i) == t)
}

impl Spec {
    pub fn new(tcp: bool) -> Spec {
        Spec { tcp, now: 0, remote_key: None, local_key: None, remote_addr: None, validated: BTreeSet::new(), live: BTreeMap::new(), completed: BTreeMap::new(), sends: 0, pending_wait: None, diverged: false }
    }

    /// earliest scheduled event over live transactions whose timing the statements pin
    pub fn min_next_strict(&self) -> Option<i64> {
        self.live.values().filter(|t| t.strict()).map(|t| t.next_time(self.tcp)).min()
    }
    pub fn min_next_all(&self) -> Option<i64> {
        self.live.values().map(|t| t.next_time(self.tcp)).min()
    }
    /// the wake-up the poll timing alphabet is relative to
    pub fn wake(&self) -> Option<i64> {
        self.pending_wait.or(self.min_next_all())
    }

    /// time at which `act` executes (None = not enabled at this state)
    pub fn resolve_time(&self, act: &Act) -> Option<i64> {
        match act {
            Act::Poll { when, .. } => {
                let t = match when {
                    When::Now => self.now,
                    _ => {
                        let w = self.wake()?;
                        match when {
                            When::WakeMinus1 => w - 1,
                            When::Wake => w,
                            When::WakePlus1 => w + 1,
                            When::WakePlus700 => w + 700,
                            When::Far => w + FAR_MS,
                            When::Past => return if self.live.is_empty() { None } else { Some(self.now - 300) },
                            When::Now => unreachable!(),
                        }
                    }
                };
                if t < self.now || (*when != When::Now && t == self.now && *when == When::WakeMinus1) {
                    // time never runs backwards; "wake-1" is only interesting strictly ahead
                    if t < self.now {
                        return None;
                    }
                }
                Some(t)
            }
            Act::Tick { ms } => Some(self.now + *ms as i64),
            _ => Some(self.now),
        }
    }

    /// canonical, time-shift-invariant rendering for the deduplication key
    pub fn canonical(&self) -> String {
        let mut s = format!("{}|{:?}|{:?}|{:?}|{:?}|", self.tcp, self.remote_key, self.local_key, self.remote_addr, self.validated);
        for (id, t) in &self.live {
            s.push_str(&format!("{id}:{}:{}:{}:{}:{}:{}:{}:{}:{}:{}:{};", t.to, t.sealed, t.wire.len(), t.n_tx, t.last_tx - self.now, t.rto, t.retransmits, t.last, t.stop_tx, t.cancelled, wire::be16(&t.wire[2..4])));
        }
        s.push_str(&format!("|{:?}|{}|{:?}|{}", self.completed.keys().collect::<Vec<_>>(), self.sends, self.pending_wait.map(|w| w - self.now), self.diverged));
        s
    }

    fn complete(&mut self, id: u8, how: u8) {
        self.live.remove(&id);
        self.completed.entry(id).or_default().push(how);
    }

    /// Check the observation of one step against the statements and advance.
    pub fn apply(&mut self, step: &Step, obs: &Obs, post: &Post) -> Vec<Breach> {
        let mut out = Vec::new();
        let clock_before = self.now;
        debug_assert!(step.now >= self.now || matches!(step.act, Act::Poll { when: When::Past, .. }));
        self.now = step.now;
        let tcp = self.tcp;
        match (&step.act, obs) {
            (_, Obs::Unparsable(e)) => out.push(breach("C02", "harness-message-unparsable", "the library does not parse a reference-serialised message of the agent alphabet", "Ok".into(), e.clone())),
            (Act::Send { id, dest, seal, shape }, o) => {
                let w = request_wire(*id, *seal, *shape);
                match o {
                    Obs::Sent { data, from, to, tcp: t } => {
                        if self.live.contains_key(id) {
                            out.push(breach("C05", "duplicate-send-accepted", "sending a request whose id is already outstanding was not refused", "Err".into(), "Ok(Transmit)".into()));
                        }
                        if *data != w {
                            out.push(breach("C18", "initial-bytes", "the initial transmission is not the serialisation of the message handed to send", crate::common::fmt_bytes(&w), crate::common::fmt_bytes(data)));
                        }
                        if *from != local_addr() || *to != peer(*dest) || *t != tcp {
                            out.push(breach("C18", "initial-addressing", "the initial transmission is not addressed local -> destination over the agent's transport", format!("{} -> {} tcp={tcp}", local_addr(), peer(*dest)), format!("{from} -> {to} tcp={t}")));
                        }
                        self.live.insert(*id, Tx { to: *dest, sealed: *seal != Seal::None, wire: std::sync::Arc::new(w), n_tx: 1, last_tx: self.now, rto: 500, retransmits: 6, last: 8000, stop_tx: false, cancelled: false });
                        self.sends += 1;
                        self.pending_wait = None;
                    }
                    Obs::SendRefused(e) => {
                        if !self.live.contains_key(id) {
                            out.push(breach("C05", "send-refused", "sending a request whose id is not outstanding was refused", "Ok(Transmit)".into(), e.clone()));
                        }
                        // refusal must leave the existing transaction untouched: observers below + futures
                    }
                    other => out.push(breach("C05", "send-shape", "send returned something unexpected", "Transmit or error".into(), format!("{other:?}"))),
                }
            }
            (Act::SendOther { kind, dest }, o) => {
                let w = other_wire(*kind);
                match o {
                    Obs::Sent { data, from, to, tcp: t } => {
                        if *data != w {
                            out.push(breach("C18", "other-bytes", "an indication/response was not transmitted unmodified", crate::common::fmt_bytes(&w), crate::common::fmt_bytes(data)));
                        }
                        if *from != local_addr() || *to != peer(*dest) || *t != tcp {
                            out.push(breach("C18", "other-addressing", "an indication/response is not addressed as asked", format!("{} -> {}", local_addr(), peer(*dest)), format!("{from} -> {to}")));
                        }
                    }
                    other => out.push(breach("C18", "other-refused", "sending an indication/response failed", "Ok(Transmit)".into(), format!("{other:?}"))),
                }
                // leaves no transaction behind: observers below (live set unchanged) + futures
            }
            (Act::Poll { .. }, o) => {
                // black-box WaitUntil contract first
                if let Some(t) = self.pending_wait {
                    if self.now < t {
                        match o {
                            Obs::PollWait(ns) if *ns == t as i128 * 1_000_000 => {}
                            other => out.push(breach("C06", "contract-early-poll", "polling before the announced WaitUntil instant did not answer the same instant without an event", format!("WaitUntil(+{t}ms)"), format!("{other:?}"))),
                        }
                    } else if self.now == t {
                        if let Obs::PollWait(ns) = o {
                            out.push(breach("C06", "contract-no-event-at-t", "polling exactly at the announced WaitUntil instant produced no event", "an event".into(), format!("WaitUntil(+{}ns)", ns)));
                        }
                    }
                }
                match o {
                    Obs::PollSend { data, from, to, tcp: t } => {
                        let who = self.live.iter().find(|(_, x)| *x.wire == *data).map(|(i, _)| *i);
                        match who {
                            None => {
                                let completed_match = (0..3u8).any(|i| self.completed.contains_key(&i) && !self.live.contains_key(&i));
                                if completed_match {
                                    out.push(breach("C05", "transmission-after-completion", "poll produced a transmission that belongs to no outstanding transaction", "no transmission for completed transactions".into(), crate::common::fmt_bytes(data)));
                                } else {
                                    out.push(breach("C18", "retransmission-bytes", "a retransmission does not carry the bytes of any outstanding request", "bytes of an outstanding request".into(), crate::common::fmt_bytes(data)));
                                }
                            }
                            Some(id) => {
                                let x = self.live.get(&id).unwrap().clone();
                                if *from != local_addr() || *to != peer(x.to) || *t != tcp {
                                    out.push(breach("C18", "retransmission-addressing", "a retransmission is not addressed local -> destination over the agent's transport", format!("{} -> {} tcp={tcp}", local_addr(), peer(x.to)), format!("{from} -> {to} tcp={t}")));
                                }
                                if x.stop_tx {
                                    out.push(breach("C06", "transmit-after-cancel", "a transmission was produced after cancel_retransmissions()/cancel()", "no further transmission".into(), format!("retransmission #{} of id {id}", x.n_tx)));
                                } else {
                                    match x.next(tcp) {
                                        Due::Retransmit(at) if at <= self.now => {}
                                        Due::Retransmit(at) => out.push(breach("C06", "retransmit-early", "a retransmission was handed out before it was due", format!("due at +{at}ms"), format!("handed out at +{}ms", self.now))),
                                        Due::Timeout(at) => out.push(breach("C06", "retransmit-extra", "more retransmissions than configured (or a retransmission over TCP)", format!("{} retransmissions, then timeout at +{at}ms", x.retransmits), format!("transmission #{}", x.n_tx + 1))),
                                    }
                                }
                                let e = self.live.get_mut(&id).unwrap();
                                e.n_tx += 1;
                                e.last_tx = self.now;
                            }
                        }
                        self.pending_wait = None;
                    }
                    Obs::PollTimedOut(t) => {
                        match id_of_tid(*t).filter(|i| self.live.contains_key(i)) {
                            None => out.push(breach("C05", "timeout-not-outstanding", "a timeout was reported for a transaction that is not outstanding", "outstanding id".into(), format!("{t:#x}"))),
                            Some(id) => {
                                let x = self.live.get(&id).unwrap().clone();
                                if x.strict() {
                                    match x.next(tcp) {
                                        Due::Timeout(at) if at <= self.now => {}
                                        Due::Timeout(at) => out.push(breach("C06", "timeout-early", "the transaction timed out before last_retransmit_timeout after the final transmission", format!("timeout at +{at}ms"), format!("at +{}ms", self.now))),
                                        Due::Retransmit(at) => out.push(breach("C06", "timeout-skips-retransmissions", "the transaction timed out although retransmissions remain", format!("retransmission #{} at +{at}ms", x.n_tx), format!("timeout at +{}ms", self.now))),
                                    }
                                }
                                self.complete(id, 2);
                            }
                        }
                        self.pending_wait = None;
                    }
                    Obs::PollCancelled(t) => {
                        match id_of_tid(*t).filter(|i| self.live.contains_key(i)) {
                            None => out.push(breach("C05", "cancel-not-outstanding", "a cancellation was reported for a transaction that is not outstanding", "outstanding id".into(), format!("{t:#x}"))),
                            Some(id) => {
                                let x = self.live.get(&id).unwrap().clone();
                                if !x.stop_tx && !x.cancelled {
                                    out.push(breach("C05", "cancelled-without-cancel", "a transaction was reported cancelled although neither cancel() nor cancel_retransmissions() was called", "no cancellation".into(), format!("TransactionCancelled(id {id})")));
                                }
                                self.complete(id, 3);
                            }
                        }
                        self.pending_wait = None;
                    }
                    Obs::PollWait(ns) => {
                        if !self.live.is_empty() {
                            // nothing whose timing is pinned may be due
                            for (id, x) in &self.live {
                                if x.strict() && x.next_time(tcp) <= self.now {
                                    out.push(breach("C06", "wait-while-due", "poll answered WaitUntil although a transaction needed service", format!("event for id {id} due at +{}ms", x.next_time(tcp)), format!("WaitUntil(+{ns}ns) at +{}ms", self.now)));
                                    break;
                                }
                            }
                            let all_strict = self.live.values().all(|x| x.strict());
                            let want = self.min_next_strict();
                            if ns % 1_000_000 != 0 {
                                out.push(breach("C06", "wait-not-ms", "WaitUntil is not on the millisecond lattice of the configured schedule", "whole milliseconds".into(), format!("+{ns}ns")));
                            }
                            let t_ms = (*ns / 1_000_000) as i64;
                            if all_strict {
                                if Some(t_ms) != want {
                                    out.push(breach("C06", "wait-not-earliest", "WaitUntil(t) is not the earliest instant at which an outstanding transaction needs service", format!("+{}ms", want.unwrap()), format!("+{t_ms}ms")));
                                }
                            } else {
                                if let Some(w) = want {
                                    if t_ms > w {
                                        out.push(breach("C06", "wait-later-than-strict", "WaitUntil(t) is later than the next service instant of a transaction without cancel flag", format!("<= +{w}ms"), format!("+{t_ms}ms")));
                                    }
                                }
                                if t_ms <= self.now {
                                    out.push(breach("C06", "wait-not-in-future", "WaitUntil(t) with t not after now (polling at t must yield an event)", format!("> +{}ms", self.now), format!("+{t_ms}ms")));
                                }
                            }
                            self.pending_wait = Some(t_ms);
                        } else {
                            self.pending_wait = None; // idle: unconstrained
                        }
                    }
                    other => out.push(breach("C05", "poll-shape", "poll returned something unexpected", "poll result".into(), format!("{other:?}"))),
                }
            }
            (Act::Tick { .. }, _) => {}
            (Act::Resp { id, auth, from, .. }, o) => {
                let delivered = matches!(o, Obs::Response);
                if !matches!(o, Obs::Response | Obs::Drop) {
                    out.push(breach("C05", "response-shape", "a response was neither delivered nor dropped", "StunResponse or Drop".into(), format!("{o:?}")));
                }
                match self.live.get(id).cloned() {
                    None => {
                        if delivered {
                            let clause = if self.completed.contains_key(id) { "response-after-completion-delivered" } else { "response-unknown-id-delivered" };
                            out.push(breach("C05", clause, "a response was delivered for a transaction that is not outstanding", "Drop".into(), "StunResponse".into()));
                        }
                    }
                    Some(x) => {
                        // reference verdict on the response's integrity under the remote key
                        let must: Option<bool> = if x.cancelled {
                            None // statement silent once cancel() was called and the request not yet reaped
                        } else if x.sealed {
                            match (self.remote_key, auth) {
                                (None, _) => Some(false),
                                (Some(_), Auth::None) => Some(false),
                                (Some(rk), Auth::Sha1(k)) | (Some(rk), Auth::Sha256(k)) | (Some(rk), Auth::Both(k)) | (Some(rk), Auth::Sha256Trunc(k)) => Some(rk == *k),
                                (Some(rk), Auth::Sha256Len(k, n)) => Some(rk == *k && matches!(n, 16 | 20 | 24 | 28 | 32)),
                                (Some(_), Auth::Sha1Flipped(_)) | (Some(_), Auth::Sha256Flipped(_)) | (Some(_), Auth::Sha1WireLenFp(_)) | (Some(_), Auth::Sha256WireLenFp(_)) => Some(false),
                                // SHA-256 has precedence when both are present (RFC 8489 9.1.3 / 9.2.4)
                                (Some(_), Auth::MixedSha1Good(_)) => Some(false),
                                (Some(rk), Auth::MixedSha256Good(k)) => if rk == *k { None } else { Some(false) },
                            }
                        } else {
                            match auth {
                                Auth::None => Some(true),
                                _ => None, // integrity on a response to an unauthenticated request: statement silent
                            }
                        };
                        match (must, delivered) {
                            (Some(true), false) => {
                                let p = if x.sealed { "C07" } else { "C07" };
                                let clause = if x.sealed { "genuine-response-dropped" } else { "unauthenticated-response-dropped" };
                                out.push(breach(p, clause, "a response that must be delivered was dropped", "StunResponse".into(), "Drop".into()));
                            }
                            (Some(false), true) => out.push(breach("C07", "forged-response-delivered", "a response without valid integrity under the remote credentials was delivered for an authenticated request", "Drop".into(), format!("StunResponse (auth {auth:?}, remote key {:?})", self.remote_key))),
                            _ => {}
                        }
                        if delivered {
                            self.complete(*id, 1);
                            self.validated.insert(*from);
                            self.pending_wait = None;
                        }
                        // dropped: transaction stays outstanding with its timing unchanged —
                        // pending_wait stays armed, observers below, all futures explored
                    }
                }
            }
            (Act::Incoming { from, .. }, o) => {
                if !matches!(o, Obs::IncomingStun) {
                    out.push(breach("C05", "incoming-not-returned", "a request/indication was not handed back as incoming", "IncomingStun".into(), format!("{o:?}")));
                }
                self.validated.insert(*from);
            }
            (Act::Cancel { id }, o) => match (self.live.get_mut(id), o) {
                (Some(x), Obs::Done) => {
                    x.cancelled = true;
                    x.stop_tx = true;
                    self.pending_wait = None;
                }
                (None, Obs::NoSuchRequest) => {}
                (_, o) => out.push(breach("C05", "handle-liveness", "mut_request_transaction disagrees with the set of outstanding transactions", "handle iff outstanding".into(), format!("{o:?}"))),
            },
            (Act::CancelRtx { id }, o) => match (self.live.get_mut(id), o) {
                (Some(x), Obs::Done) => {
                    x.stop_tx = true;
                    self.pending_wait = None;
                }
                (None, Obs::NoSuchRequest) => {}
                (_, o) => out.push(breach("C05", "handle-liveness", "mut_request_transaction disagrees with the set of outstanding transactions", "handle iff outstanding".into(), format!("{o:?}"))),
            },
            (Act::Configure { id, cfg }, o) => match (self.live.get_mut(id), o) {
                (Some(x), Obs::Done) => {
                    let (rto, n, last) = cfg_of(*cfg);
                    x.rto = rto;
                    x.retransmits = n;
                    x.last = last;
                    self.pending_wait = None;
                }
                (None, Obs::NoSuchRequest) => {}
                (_, o) => out.push(breach("C05", "handle-liveness", "mut_request_transaction disagrees with the set of outstanding transactions", "handle iff outstanding".into(), format!("{o:?}"))),
            },
            (Act::SetRemote { key }, _) => self.remote_key = Some(*key),
            (Act::SetLocal { key }, _) => self.local_key = Some(*key),
            (Act::Rebuild { remote }, _) => self.remote_addr = Some(*remote),
        }
        // observers after every step
        for i in 0..N_IDS as u8 {
            let want = self.live.contains_key(&i);
            if post.live[i as usize] != want {
                out.push(breach("C05", "outstanding-set", "request_transaction(id).is_some() disagrees with the set of outstanding transactions", format!("id {i}: {want}"), format!("id {i}: {}", post.live[i as usize])));
            }
            if let (Some(x), Some(p)) = (self.live.get(&i), post.peer[i as usize]) {
                if p != peer(x.to) {
                    out.push(breach("C18", "peer-address", "peer_address() of an outstanding request is not the destination given at send", format!("{}", peer(x.to)), format!("{p}")));
                }
            }
        }
        for a in 0..N_ADDRS as u8 {
            let want = self.validated.contains(&a);
            if post.validated[a as usize] != want {
                let clause = if post.validated[a as usize] { "validated-without-accepted-message" } else { "validation-lost-or-missing" };
                out.push(breach("C15", clause, "is_validated_peer disagrees with the set of peers a STUN message was accepted from", format!("{}: {want}", peer(a)), format!("{}: {}", peer(a), post.validated[a as usize])));
            }
        }
        if post.remote_creds_set != self.remote_key.is_some() {
            out.push(breach("C07", "remote-credentials-getter", "remote_credentials() disagrees with what was set", format!("{}", self.remote_key.is_some()), format!("{}", post.remote_creds_set)));
        }
        if post.local_creds_set != self.local_key.is_some() {
            out.push(breach("C18", "local-credentials-getter", "local_credentials() disagrees with what was set", format!("{}", self.local_key.is_some()), format!("{}", post.local_creds_set)));
        }
        if post.remote_addr != self.remote_addr.map(peer) || post.local_addr != local_addr() || post.tcp != self.tcp {
            out.push(breach("C18", "agent-identity", "transport() / local_addr() / remote_addr() are not what the agent was built with", format!("tcp={} {} remote {:?}", self.tcp, local_addr(), self.remote_addr.map(peer)), format!("tcp={} {} remote {:?}", post.tcp, post.local_addr, post.remote_addr)));
        }
        // a poll dated before the previous call does not turn the model's clock back
        self.now = self.now.max(clock_before);
        if !out.is_empty() {
            self.diverged = true;
        }
        out
    }
}

/// sanity traces: the schedules the repository's own unit tests describe
pub fn selftest() -> Vec<String> {
    let mut f = Vec::new();
    let mk = |rto, n, last| Tx { to: 0, sealed: false, wire: std::sync::Arc::new(vec![0; 20]), n_tx: 1, last_tx: 0, rto, retransmits: n, last, stop_tx: false, cancelled: false };
    // default UDP: transmissions at 0, .5, 1.5, 3.5, 7.5, 15.5, 31.5 s, timeout at 39.5 s
    let mut x = mk(500, 6, 8000);
    let mut times = vec![0i64];
    loop {
        match x.next(false) {
            Due::Retransmit(t) => {
                times.push(t);
                x.n_tx += 1;
                x.last_tx = t;
            }
            Due::Timeout(t) => {
                times.push(t);
                break;
            }
        }
    }
    if times != vec![0, 500, 1500, 3500, 7500, 15500, 31500, 39500] {
        f.push(format!("spec default schedule {times:?}"));
    }
    if mk(500, 6, 8000).next(true) != Due::Timeout(39500) {
        f.push("spec default TCP timeout".into());
    }
    // request_custom_timeout of the repository: (1 s, 2, 10 s): 0, 1, 3 s, timeout 13 s
    let mut x = mk(1000, 2, 10_000);
    let mut times = vec![0i64];
    loop {
        match x.next(false) {
            Due::Retransmit(t) => {
                times.push(t);
                x.n_tx += 1;
                x.last_tx = t;
            }
            Due::Timeout(t) => {
                times.push(t);
                break;
            }
        }
    }
    if times != vec![0, 1000, 3000, 13000] {
        f.push(format!("spec custom schedule {times:?}"));
    }
    if mk(1000, 2, 10_000).next(true) != Due::Timeout(13_000) {
        f.push("spec custom TCP timeout".into());
    }
    f.extend(crate::engine_sm::snapshot::selftest());
    f
}
