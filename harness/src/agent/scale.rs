//! Scale families: long deterministic histories with many peers and many concurrent transactions.
//!
//! The state-space slices keep the universe tiny (3 ids, 8 addresses) so that every interleaving can
//! be enumerated; a bound, a cap, an eviction or a table that only fills after a hundred entries is
//! out of their reach.  These families enumerate, for every size n up to a bound, one history per
//! (transport, address family, way of validating / configuration mix, answer pattern) and judge
//! every reply against a reference written from the statements:
//!
//!  * peers (C15): n distinct source addresses validate themselves (incoming request, indication,
//!    or a delivered response); after every step, every address seen so far is validated and no
//!    other is; addresses that were only sent to are not;
//!  * transactions (C05 C06 C18): m requests outstanding at once, under a mix of configurations;
//!    the agent is polled at every announced instant; every transmission carries the request's
//!    bytes and addressing, every event happens at its scheduled instant, WaitUntil is the earliest
//!    scheduled instant, every transaction completes exactly once, answered ones by delivery;
//!  * addressing matrix (C18): 21 local x 21 destination addresses of every kind (IPv4, IPv6 global,
//!    mapped, NAT64, multicast, link-local with and without scope ids, flow info, port 0) x request
//!    served to its time-out / indication / response / application data x transports;
//!  * message contents (C18): requests carrying one raw attribute of each of the 65 536 types (value
//!    lengths 0 / 4 / 8 / 20, plain and fingerprinted), and requests of each of the 4096 methods, served through the default schedule;
//!  * phase experiment (C20 C06): a request sent 0 / 1 ms / 300 ms / 499.999999 ms plus a phase of
//!    0, 1, 137, 500, 999, 1001, 333 333, 999 999 ns after the agent's first instant, with and without an
//!    earlier request or idle poll: its events relative to its own send instant are always the same;
//!  * fractional configurations (C06): configure_timeout with 8 initial RTOs and 4 last time-outs that
//!    are not whole milliseconds x retransmits 0..=8 x transports; every interval is the exact value
//!    or its truncation to milliseconds;
//!  * message sizes (C18 C06): requests of every serialised size from 24 to 2 200 bytes (one attribute
//!    of every value length, and the same size made of value-less attributes) and at the top of the
//!    size range, served through the default schedule: every transmission carries all the bytes;
//!  * responses (C15 C07 C05): to an authenticated request (short- and long-term credentials), a
//!    success response and an error response of every code 300..=699 x {NONCE, REALM, ALTERNATE-SERVER,
//!    FINGERPRINT present or not} x {no integrity, valid SHA-1, valid SHA-256, SHA-1 under another key,
//!    corrupted SHA-1}: delivered and its source validated exactly when the integrity is valid;
//!  * lifetime totals (C18 C15 C05): 1 / 255..257 / 65 535..65 537 / 70 001 peers heard from, answered
//!    requests to distinct destinations, or answered requests to one peer in a single agent, then requests
//!    to three new addresses and two of the first: destinations, peer_address(), retransmissions, validated set;
//!  * purity (C20): each history is run three times on fresh threads, the third alongside unrelated
//!    agents; the complete reply transcripts must be identical.
use super::*;
use crate::common::{guarded, Acc, Violation};
use rayon::prelude::*;
use serde_json::{json, Value};
use std::collections::BTreeMap;
use std::net::{IpAddr, Ipv4Addr, Ipv6Addr, SocketAddr, SocketAddrV6};

pub fn saddr(kind: u8, i: usize) -> SocketAddr {
    match kind {
        0 => SocketAddr::new(IpAddr::V4(Ipv4Addr::new(10, 1 + (i / 62_500) as u8, (i / 250 % 250) as u8, (i % 250 + 1) as u8)), 5000),
        1 => SocketAddr::new(IpAddr::V4(Ipv4Addr::new(10, 0, 0, 2)), 1024 + i as u16),
        2 => SocketAddr::new(IpAddr::V6(Ipv6Addr::new(0x2001, 0xdb8, 0, 0, 0, 0, (i >> 16) as u16, i as u16)), 5000),
        3 => SocketAddr::V6(SocketAddrV6::new("fe80::1".parse().unwrap(), 5000, 0, i as u32 + 1)),
        _ => saddr((i % 4) as u8, i / 4),
    }
}

pub fn stid(i: usize) -> u128 {
    let x = (i as u128 + 1).wrapping_mul(0x9E37_79B9_7F4A_7C15_F39C_C060_5CED_C835);
    ((x >> 20) ^ (i as u128 + 1)) & ((1u128 << 96) - 1)
}

fn req_wire(i: usize) -> Vec<u8> {
    let mut b = wire::encode_header(0, 1, stid(i), 0);
    wire::append_raw(&mut b, 0x8022, format!("scale-{i}").as_bytes());
    b
}

fn build_req<'a>(i: usize, sw: &'a Software) -> MessageBuilder<'a> {
    let mut b = Message::builder(MessageType::from_class_method(MessageClass::Request, BINDING), stid(i).into());
    b.add_attribute(sw).unwrap();
    b
}

fn plain_wire(class: u8, t: u128) -> Vec<u8> {
    let mut b = wire::encode_header(class, 1, t, 0);
    wire::append_raw(&mut b, 0x8022, b"peer");
    b
}

#[derive(Clone, Debug, serde::Serialize, serde::Deserialize, PartialEq, Eq)]
pub struct Scenario {
    pub family: String, // "peers" | "tx"
    pub tcp: bool,
    pub kind: u8,
    pub n: usize,
    /// peers: 0 incoming request, 1 indication, 2 delivered response; tx: answer pattern
    pub via: u8,
    /// tx: configuration mix (0 = defaults, 1 = named configurations by index)
    pub mix: u8,
    /// run alongside unrelated agents (C20 variant)
    pub noise: bool,
    /// tx: only this request of the history is sent, at the instant and under the configuration it has
    /// in the full history (projection onto one transaction, C20's leak clause)
    #[serde(default, skip_serializing_if = "Option::is_none")]
    pub only: Option<usize>,
}

pub struct Outcome {
    pub breaches: Vec<(&'static str, String, String, String, String)>,
    /// every reply in order (for the purity comparison)
    pub transcript: Vec<u64>,
}

fn h(x: &impl std::hash::Hash) -> u64 {
    use std::hash::Hasher;
    let mut s = std::collections::hash_map::DefaultHasher::new();
    x.hash(&mut s);
    s.finish()
}

struct Noise {
    a: Option<StunAgent>,
    k: usize,
}
impl Noise {
    fn new(on: bool, tcp: bool) -> Noise {
        Noise { a: on.then(|| StunAgent::builder(if tcp { TransportType::Udp } else { TransportType::Tcp }, "10.9.9.9:9".parse().unwrap()).build()), k: 0 }
    }
    fn tick(&mut self, base: Instant) {
        if let Some(a) = self.a.as_mut() {
            self.k += 1;
            let k = self.k;
            let _ = guarded(|| {
                // the same addresses and ids as the history under judgement, in another agent's hands
                let sw = Software::new("noise").unwrap();
                let b = build_req(k % 1500, &sw);
                let _ = a.send(b, saddr(4, k), base + Duration::from_secs(7200));
                let bytes = plain_wire(1, stid(k + 5000));
                if let Ok(m) = Message::from_bytes(&bytes) {
                    let _ = a.handle_stun(m, saddr(4, k + 3));
                }
                let _ = a.poll(base + Duration::from_secs(7200 + k as u64));
                let _: std::collections::HashSet<usize> = [k].into_iter().collect();
            });
        }
    }
}

/// Local / destination addresses of the addressing matrix: every kind of address a socket can have.
pub const N_SPECIAL: usize = 21;
pub fn special(i: usize) -> SocketAddr {
    let v6 = |ip: &str, port: u16, flow: u32, scope: u32| SocketAddr::V6(SocketAddrV6::new(ip.parse().unwrap(), port, flow, scope));
    match i {
        0 => "10.0.0.1:1000".parse().unwrap(),
        1 => "0.0.0.0:0".parse().unwrap(),
        2 => "127.0.0.1:65535".parse().unwrap(),
        3 => "255.255.255.255:3478".parse().unwrap(),
        4 => "224.0.0.1:3478".parse().unwrap(),
        5 => "169.254.1.1:3478".parse().unwrap(),
        6 => "192.0.2.1:0".parse().unwrap(),
        7 => v6("::", 0, 0, 0),
        8 => v6("::1", 3478, 0, 0),
        9 => v6("2001:db8::1", 3478, 0, 0),
        10 => v6("::ffff:10.0.0.1", 1000, 0, 0),
        11 => v6("64:ff9b::a00:1", 3478, 0, 0),
        12 => v6("ff02::1", 3478, 0, 2),
        13 => v6("fe80::1", 5000, 0, 0),
        14 => v6("fe80::1", 5000, 0, 3),
        15 => v6("fe80::2", 3478, 0, 0),
        16 => v6("fe80::2", 3478, 0, 3),
        17 => v6("fe80::2", 3478, 0, 7),
        18 => v6("2001:db8::1", 3478, 5, 0),
        19 => v6("fec0::1", 3478, 0, 0),
        _ => v6("2001:db8::1", 3478, 0, 9),
    }
}

/// Addressing matrix (C18): local address `kind`, destination `n`, message `via` (0 request served to
/// its time-out, 1 indication, 2 success response, 3 application data).
fn addressing(sc: &Scenario) -> Outcome {
    let base = base_instant();
    let t = if sc.tcp { TransportType::Tcp } else { TransportType::Udp };
    let (local, dest) = (special(sc.kind as usize), special(sc.n));
    let mut a = if sc.mix == 1 { StunAgent::builder(t, local).remote_addr(dest).build() } else { StunAgent::builder(t, local).build() };
    let mut out = Outcome { breaches: vec![], transcript: vec![] };
    let check = |out: &mut Outcome, what: &str, data: &[u8], want: &[u8], from: SocketAddr, to: SocketAddr, tr: TransportType| {
        if data != want {
            out.breaches.push(("C18", "matrix/bytes".into(), format!("{what}: not the bytes handed over"), crate::common::fmt_bytes(want), crate::common::fmt_bytes(data)));
        }
        if from != local || to != dest || tr != t {
            out.breaches.push(("C18", "matrix/addressing".into(), format!("{what}: not addressed local -> destination over the agent's transport"), format!("{local:?} -> {dest:?}"), format!("{from:?} -> {to:?}")));
        }
    };
    if a.local_addr() != local || a.transport() != t || a.remote_addr() != (sc.mix == 1).then_some(dest) {
        out.breaches.push(("C18", "matrix/agent-identity".into(), "the agent does not report the addresses it was built with".into(), format!("{local:?} / {:?}", (sc.mix == 1).then_some(dest)), format!("{:?} / {:?}", a.local_addr(), a.remote_addr())));
    }
    match sc.via {
        0 => {
            let sw = Software::new("scale-0").unwrap();
            let w = req_wire(0);
            match a.send(build_req(0, &sw), dest, base) {
                Ok(tr) => check(&mut out, "initial transmission", tr.data(), &w, tr.from, tr.to, tr.transport),
                Err(e) => {
                    out.breaches.push(("C05", "matrix/send-refused".into(), "sending a request was refused".into(), "Ok".into(), format!("{e:?}")));
                    return out;
                }
            }
            match a.request_transaction(stid(0).into()) {
                Some(r) if r.peer_address() == dest => {}
                Some(r) => out.breaches.push(("C18", "matrix/peer-address".into(), "the outstanding request reports the wrong peer".into(), format!("{dest:?}"), format!("{:?}", r.peer_address()))),
                None => out.breaches.push(("C05", "matrix/outstanding-set".into(), "a request just sent is not outstanding".into(), "Some".into(), "None".into())),
            }
            // for every other scenario the agent is handed to another thread after the send (a task
            // moved between the workers of a runtime); that thread has an agent of its own with a
            // request outstanding, and the remaining transmissions are polled there
            let hand_over = (sc.kind as usize + sc.n) % 2 == 1;
            let poll_all = move |mut a: StunAgent| -> Vec<(Vec<u8>, SocketAddr, SocketAddr, TransportType)> {
                let mut got = Vec::new();
                let mut now = base;
                for _ in 0..40 {
                    match a.poll(now) {
                        StunAgentPollRet::WaitUntil(i) => {
                            if i <= now {
                                break;
                            }
                            now = i;
                        }
                        StunAgentPollRet::SendData(tr) => got.push((tr.data().to_vec(), tr.from, tr.to, tr.transport)),
                        _ => break,
                    }
                }
                got
            };
            let got = if hand_over {
                std::thread::Builder::new()
                    .stack_size(512 << 10)
                    .spawn(move || {
                        let mut other = StunAgent::builder(TransportType::Udp, "10.7.7.7:7".parse().unwrap()).build();
                        let sw = Software::new("other-agent").unwrap();
                        let _ = other.send(build_req(77, &sw), "10.7.7.8:8".parse().unwrap(), base);
                        let got = poll_all(a);
                        let _ = other.poll(base);
                        got
                    })
                    .expect("spawn")
                    .join()
                    .unwrap_or_default()
            } else {
                poll_all(a)
            };
            let mut n_tx = 1;
            for (data, from, to, tr) in got {
                n_tx += 1;
                check(&mut out, &format!("transmission #{n_tx}{}", if hand_over { " (polled on another thread)" } else { "" }), &data, &w, from, to, tr);
            }
            let want_tx = if sc.tcp { 1 } else { 7 };
            if n_tx != want_tx {
                out.breaches.push(("C06", "matrix/transmissions".into(), "the default schedule did not produce the stated number of transmissions".into(), want_tx.to_string(), n_tx.to_string()));
            }
            out.transcript.push(n_tx as u64);
            return out;
            let want_tx = if sc.tcp { 1 } else { 7 };
            if n_tx != want_tx {
                out.breaches.push(("C06", "matrix/transmissions".into(), "the default schedule did not produce the stated number of transmissions".into(), want_tx.to_string(), n_tx.to_string()));
            }
            out.transcript.push(n_tx as u64);
        }
        1 | 2 => {
            let class = if sc.via == 1 { MessageClass::Indication } else { MessageClass::Success };
            let sw = Software::new("peer").unwrap();
            let mut b = Message::builder(MessageType::from_class_method(class, BINDING), stid(1).into());
            b.add_attribute(&sw).unwrap();
            let w = plain_wire(if sc.via == 1 { 1 } else { 2 }, stid(1));
            match a.send(b, dest, base) {
                Ok(tr) => check(&mut out, "indication / response", tr.data(), &w, tr.from, tr.to, tr.transport),
                Err(e) => out.breaches.push(("C18", "matrix/other-refused".into(), "sending an indication / response failed".into(), "Ok".into(), format!("{e:?}"))),
            }
            if a.request_transaction(stid(1).into()).is_some() || !matches!(a.poll(base), StunAgentPollRet::WaitUntil(_)) {
                out.breaches.push(("C18", "matrix/other-left-transaction".into(), "an indication / response left a transaction or an event behind".into(), "nothing".into(), "something".into()));
            }
        }
        _ => {
            let tr = a.send_data(DATA_PAYLOAD, dest);
            check(&mut out, "application data", tr.data(), DATA_PAYLOAD, tr.from, tr.to, tr.transport);
        }
    }
    // merely sending never validates
    if a.is_validated_peer(dest) {
        out.breaches.push(("C15", "matrix/validated-by-sending".into(), "an address that was only sent to is validated".into(), "false".into(), "true".into()));
    }
    out
}

/// Message contents (C18): requests carrying one raw attribute of every 16-bit type (256 types per
/// scenario: block `n`), value length `kind` in {0, 4, 8, 20}, after a SOFTWARE attribute, without
/// integrity (via 0) or fingerprinted (via 1); every transmission of the default schedule is the
/// request's serialisation.  What the message says never changes how it is transmitted.
fn contents(sc: &Scenario) -> Outcome {
    let base = base_instant();
    let t = if sc.tcp { TransportType::Tcp } else { TransportType::Udp };
    let mut out = Outcome { breaches: vec![], transcript: vec![] };
    let dest = saddr(0, 1);
    let value: Vec<u8> = (0..sc.kind as usize).map(|i| if i == 2 { 1 } else { 0 }).collect();
    for lo in 0..256usize {
        // kind 255: the sweep is over the 4096 methods instead (the attribute is SOFTWARE only)
        let methods = sc.kind == 255;
        let typ = if methods { 0xC0DE } else { (sc.n * 256 + lo) as u16 };
        let method: u16 = if methods { (sc.n * 256 + lo) as u16 & 0xFFF } else { BINDING };
        if matches!(typ, 0x0008 | 0x001C | 0x8028) {
            continue; // the sealing attributes have rules of their own in the builder
        }
        let value: Vec<u8> = if methods { vec![7, 7, 7, 7] } else { value.clone() };
        let mut a = StunAgent::builder(t, local_addr()).build();
        let sw = Software::new("c").unwrap();
        let mut b = Message::builder(MessageType::from_class_method(MessageClass::Request, method), stid(typ as usize + method as usize).into());
        b.add_attribute(&sw).unwrap();
        if b.add_raw_attribute(RawAttribute::new(AttributeType::new(typ), &value)).is_err() {
            continue; // 0x8022 twice
        }
        if sc.via == 1 {
            b.add_fingerprint().unwrap();
        }
        let mut w = wire::encode_header(0, method, stid(typ as usize + method as usize), 0);
        wire::append_raw(&mut w, 0x8022, b"c");
        wire::append_raw(&mut w, typ, &value);
        if sc.via == 1 {
            wire::append_fp(&mut w);
        }
        if methods {
            // the same method through the receiving side: an indication and a request of that method
            // are handed over and validate their source; a response of that method completes the request
            let mut a2 = StunAgent::builder(t, local_addr()).build();
            let sw2 = Software::new("c").unwrap();
            let idv = stid(900_000 + method as usize);
            let mut rq = Message::builder(MessageType::from_class_method(MessageClass::Request, method), idv.into());
            rq.add_attribute(&sw2).unwrap();
            let sent = a2.send(rq, dest, base).is_ok();
            let mut verdicts = Vec::new();
            for (class, from) in [(1u8, saddr(0, 7)), (0, saddr(0, 8)), (if method % 2 == 0 { 2 } else { 3 }, dest)] {
                let bytes = {
                    let mut m = wire::encode_header(class, method, if class >= 2 { idv } else { stid(910_000 + method as usize + class as usize) }, 0);
                    wire::append_raw(&mut m, 0x8022, b"peer");
                    m
                };
                let msg = Message::from_bytes(&bytes).unwrap();
                let kind = match a2.handle_stun(msg, from) {
                    HandleStunReply::IncomingStun(_) => 1u8,
                    HandleStunReply::StunResponse(_) => 2,
                    HandleStunReply::Drop => 0,
                };
                verdicts.push((kind, a2.is_validated_peer(from)));
            }
            let want = vec![(1u8, true), (1, true), (2, true)];
            if !sent || verdicts != want || a2.request_transaction(idv.into()).is_some() {
                out.breaches.push(("C05", "contents/method-handling".into(), format!("messages of method {method:#05x} are not handled like those of any other method (indication, request, response to an outstanding request of that method)"), format!("sent, {want:?}, request completed"), format!("sent={sent}, {verdicts:?}, still outstanding: {}", a2.request_transaction(idv.into()).is_some())));
                return out;
            }
        }
        if !methods && sc.mix == 1 {
            // receiving side: a response carrying an attribute of this type completes its request, a
            // request / indication carrying it is handed over, whatever the type is
            let mut a2 = StunAgent::builder(t, local_addr()).build();
            let sw2 = Software::new("c").unwrap();
            let idv = stid(700_000 + typ as usize);
            let mut rq = Message::builder(MessageType::from_class_method(MessageClass::Request, BINDING), idv.into());
            rq.add_attribute(&sw2).unwrap();
            let sent = a2.send(rq, dest, base).is_ok();
            let mut verdicts = Vec::new();
            for (class, from) in [(1u8, saddr(0, 7)), (if typ % 2 == 0 { 2 } else { 3 }, dest)] {
                let mut m = wire::encode_header(class, 1, if class >= 2 { idv } else { stid(710_000 + typ as usize) }, 0);
                wire::append_raw(&mut m, 0x8022, b"peer");
                wire::append_raw(&mut m, typ, &value);
                let msg = Message::from_bytes(&m).unwrap();
                let kind = match a2.handle_stun(msg, from) {
                    HandleStunReply::IncomingStun(_) => 1u8,
                    HandleStunReply::StunResponse(_) => 2,
                    HandleStunReply::Drop => 0,
                };
                verdicts.push((kind, a2.is_validated_peer(from)));
            }
            let want = vec![(1u8, true), (2, true)];
            let still = a2.request_transaction(idv.into()).is_some();
            if !sent || verdicts != want || still {
                out.breaches.push(("C05", "contents/response-with-attribute".into(), format!("an indication / a response carrying an attribute of type {typ:#06x} (length {}) is not handled like any other (handed over; delivered and the request completed)", sc.kind), format!("{want:?}, request completed"), format!("{verdicts:?}, still outstanding: {still}")));
                return out;
            }
            continue;
        }
        let mut n_tx = 0;
        match a.send(b, dest, base) {
            Ok(tr) => {
                n_tx += 1;
                if tr.data() != &w[..] {
                    out.breaches.push(("C18", "contents/initial-bytes".into(), format!("the initial transmission of a request carrying attribute type {typ:#06x} is not its serialisation"), crate::common::fmt_bytes(&w), crate::common::fmt_bytes(tr.data())));
                    return out;
                }
            }
            Err(e) => {
                out.breaches.push(("C05", "contents/send-refused".into(), format!("a request carrying attribute type {typ:#06x} was refused"), "Ok".into(), format!("{e:?}")));
                return out;
            }
        }
        let mut now = base;
        for _ in 0..24 {
            match a.poll(now) {
                StunAgentPollRet::WaitUntil(i) => {
                    if i <= now {
                        break;
                    }
                    now = i;
                }
                StunAgentPollRet::SendData(tr) => {
                    n_tx += 1;
                    if tr.data() != &w[..] || tr.to != dest || tr.from != local_addr() {
                        out.breaches.push(("C18", "contents/retransmission-bytes".into(), format!("transmission #{n_tx} of a request carrying attribute type {typ:#06x} (length {}) is not the request as handed over", sc.kind), crate::common::fmt_bytes(&w), crate::common::fmt_bytes(tr.data())));
                        return out;
                    }
                }
                StunAgentPollRet::TransactionTimedOut(_) => break,
                StunAgentPollRet::TransactionCancelled(_) => break,
            }
        }
        let want_tx = if sc.tcp { 1 } else { 7 };
        if n_tx != want_tx {
            out.breaches.push(("C06", "contents/transmissions".into(), format!("a request carrying attribute type {typ:#06x} was transmitted {n_tx} times under the default schedule"), want_tx.to_string(), n_tx.to_string()));
            return out;
        }
    }
    out
}

/// Lifetime totals beyond 2^16 in one agent: `kind` 0 = `n` distinct peers heard from (indications), 1 =
/// `n` distinct destinations of requests that were each answered at once, 2 = `n` transactions with one
/// peer in sequence; then requests to three new addresses and one of the first ones, served through
/// their schedule.  Every transmission goes where it was sent, peer_address() says so, exactly the peers
/// that validated themselves are validated.
fn lifetime(sc: &Scenario) -> Outcome {
    let base = base_instant();
    let t = if sc.tcp { TransportType::Tcp } else { TransportType::Udp };
    let mut out = Outcome { breaches: vec![], transcript: vec![] };
    let mut a = StunAgent::builder(t, local_addr()).build();
    let sw = Software::new("life").unwrap();
    for k in 0..sc.n {
        let peer = saddr(2, k);
        match sc.kind {
            0 => {
                let bytes = plain_wire(1, stid(2_000_000 + k));
                let m = Message::from_bytes(&bytes).unwrap();
                if !matches!(a.handle_stun(m, peer), HandleStunReply::IncomingStun(_)) {
                    out.breaches.push(("C05", "lifetime/indication-not-handed-over".into(), format!("indication #{k} of one agent's life was not handed over"), "IncomingStun".into(), "other".into()));
                    return out;
                }
            }
            _ => {
                let dest = if sc.kind == 1 { peer } else { saddr(2, 0) };
                let idv = stid(2_000_000 + k);
                let mut rq = Message::builder(MessageType::from_class_method(MessageClass::Request, BINDING), idv.into());
                rq.add_attribute(&sw).unwrap();
                match a.send(rq, dest, base) {
                    Ok(tr) if tr.to == dest => {}
                    other => {
                        out.breaches.push(("C18", "lifetime/destination".into(), format!("request #{k} of one agent's life (to {dest})"), format!("sent to {dest}"), format!("{:?}", other.map(|t| t.to))));
                        return out;
                    }
                }
                let bytes = plain_wire(2, idv);
                let m = Message::from_bytes(&bytes).unwrap();
                if !matches!(a.handle_stun(m, dest), HandleStunReply::StunResponse(_)) {
                    out.breaches.push(("C05", "lifetime/response-not-delivered".into(), format!("the response to request #{k} of one agent's life was not delivered"), "StunResponse".into(), "other".into()));
                    return out;
                }
            }
        }
    }
    // afterwards: requests to new addresses and to the very first one
    let targets = [saddr(0, 1), saddr(2, sc.n + 5), saddr(1, 7), saddr(2, 0), saddr(2, 1)];
    let mut ids = Vec::new();
    for (j, dest) in targets.iter().enumerate() {
        let idv = stid(3_000_000 + j);
        let mut rq = Message::builder(MessageType::from_class_method(MessageClass::Request, BINDING), idv.into());
        rq.add_attribute(&sw).unwrap();
        match a.send(rq, *dest, base) {
            Ok(tr) if tr.to == *dest && tr.from == local_addr() => out.transcript.push(h(&tr.data())),
            other => {
                out.breaches.push(("C18", "lifetime/destination".into(), format!("a request to {dest} after {} {} in this agent's life", sc.n, ["peers heard from", "answered requests to distinct destinations", "answered requests to one peer"][sc.kind as usize % 3]), format!("sent to {dest}"), format!("{:?}", other.map(|t| (t.from, t.to)))));
                return out;
            }
        }
        let pa = a.request_transaction(idv.into()).map(|r| r.peer_address());
        if pa != Some(*dest) {
            out.breaches.push(("C18", "lifetime/peer-address".into(), format!("peer_address() of a request to {dest} after {} earlier peers / requests", sc.n), format!("{dest}"), format!("{pa:?}")));
            return out;
        }
        ids.push((idv, *dest));
    }
    let mut now = base;
    for _ in 0..60 {
        match a.poll(now) {
            StunAgentPollRet::WaitUntil(i) => {
                if i <= now {
                    break;
                }
                out.transcript.push(h(&(i - base)));
                now = i;
            }
            StunAgentPollRet::SendData(tr) => {
                let want = ids.iter().find(|(idv, _)| Message::from_bytes(tr.data()).map(|m| u128::from(m.transaction_id()) == *idv).unwrap_or(false)).map(|(_, d)| *d);
                if want != Some(tr.to) {
                    out.breaches.push(("C18", "lifetime/retransmission-destination".into(), format!("a retransmission after {} earlier peers / requests", sc.n), format!("{want:?}"), format!("{}", tr.to)));
                    return out;
                }
            }
            StunAgentPollRet::TransactionTimedOut(_) | StunAgentPollRet::TransactionCancelled(_) => {}
        }
    }
    // validated: kind 0 every peer heard from, kind 1 / 2 every destination that answered; nobody else
    for (addr, want) in [(saddr(2, 0), true), (saddr(2, sc.n - 1), sc.kind != 2 || sc.n == 1), (saddr(2, sc.n / 2), sc.kind != 2 || sc.n / 2 == 0), (saddr(2, sc.n + 5), false), (saddr(0, 1), false), (saddr(1, 7), false)] {
        if a.is_validated_peer(addr) != want {
            out.breaches.push(("C15", "lifetime/validated".into(), format!("is_validated_peer({addr}) after {} peers / requests in this agent's life", sc.n), want.to_string(), (!want).to_string()));
            return out;
        }
    }
    out
}

/// Sources that resemble the agent's own address: local address `kind` (wildcard IPv4 / IPv6, concrete IPv4 /
/// IPv6, all on port 5000) x sources {the same IP and port, another IP on the same port, the same IP on
/// another port, loopback on the same port, exactly the local address} x {request, indication, delivered
/// response}: whoever an accepted message came from is validated, nobody else is.
fn ownaddr(sc: &Scenario) -> Outcome {
    let base = base_instant();
    let t = if sc.tcp { TransportType::Tcp } else { TransportType::Udp };
    let mut out = Outcome { breaches: vec![], transcript: vec![] };
    let locals: [SocketAddr; 4] = ["0.0.0.0:5000".parse().unwrap(), "[::]:5000".parse().unwrap(), "10.1.0.1:5000".parse().unwrap(), "[2001:db8::1]:5000".parse().unwrap()];
    let local = locals[sc.kind as usize % 4];
    let v6 = local.is_ipv6();
    let sources: Vec<SocketAddr> = vec![
        local,
        if v6 { "[2001:db8::1]:5000" } else { "10.1.0.1:5000" }.parse().unwrap(),
        if v6 { "[2001:db8::77]:5000" } else { "192.0.2.77:5000" }.parse().unwrap(),
        if v6 { "[2001:db8::1]:5001" } else { "10.1.0.1:5001" }.parse().unwrap(),
        if v6 { "[::1]:5000" } else { "127.0.0.1:5000" }.parse().unwrap(),
        if v6 { "[2001:db8::77]:3478" } else { "192.0.2.77:3478" }.parse().unwrap(),
    ];
    for (si, from) in sources.iter().enumerate() {
        let mut a = StunAgent::builder(t, local).build();
        let idv = stid(4_000_000 + si);
        let delivered = match sc.via {
            0 | 1 => {
                let bytes = plain_wire(sc.via, idv);
                let m = Message::from_bytes(&bytes).unwrap();
                matches!(a.handle_stun(m, *from), HandleStunReply::IncomingStun(_))
            }
            _ => {
                let sw = Software::new("own").unwrap();
                let mut rq = Message::builder(MessageType::from_class_method(MessageClass::Request, BINDING), idv.into());
                rq.add_attribute(&sw).unwrap();
                if a.send(rq, *from, base).is_err() {
                    false
                } else {
                    let bytes = plain_wire(2, idv);
                    let m = Message::from_bytes(&bytes).unwrap();
                    matches!(a.handle_stun(m, *from), HandleStunReply::StunResponse(_))
                }
            }
        };
        let validated = a.is_validated_peer(*from);
        out.transcript.push(h(&(delivered, validated)));
        if !delivered || !validated {
            out.breaches.push(("C15", "own-address/validated".into(), format!("an agent on {local} is handed a {} from {from}", ["request", "indication", "response to its request"][sc.via as usize % 3]), "handed over / delivered, and the source validated".into(), format!("delivered {delivered}, validated {validated}")));
            return out;
        }
        for other in &sources {
            if other != from && a.is_validated_peer(*other) {
                out.breaches.push(("C15", "own-address/validates-another".into(), format!("an agent on {local} accepted a message from {from}"), format!("{other} not validated"), "validated".into()));
                return out;
            }
        }
    }
    out
}

/// Requests of every serialised size (block `n` covers 64 value lengths; `via` 0 = one attribute holding
/// the whole value, 1 = the same number of bytes as value-less attributes + one short one; `kind` 1 =
/// the top of the size range).
fn sizes(sc: &Scenario) -> Outcome {
    let base = base_instant();
    let t = if sc.tcp { TransportType::Tcp } else { TransportType::Udp };
    let mut out = Outcome { breaches: vec![], transcript: vec![] };
    let dest = saddr(0, 1);
    for lo in 0..64usize {
        let v = if sc.kind == 1 { 65_465 + lo } else { sc.n * 64 + lo };
        if v > 65_528 {
            continue;
        }
        let idv = stid(1_300_000 + v);
        let mut w = wire::encode_header(0, BINDING, idv, 0);
        let mut b = Message::builder(MessageType::from_class_method(MessageClass::Request, BINDING), idv.into());
        let value: Vec<u8> = (0..v).map(|i| (i * 13 + 5) as u8).collect();
        if sc.via == 0 {
            b.add_raw_attribute(RawAttribute::new(AttributeType::new(0xC051), &value)).unwrap();
            wire::append_raw(&mut w, 0xC051, &value);
        } else {
            // v / 4 value-less attributes of distinct types, then one with v % 4 bytes
            for i in 0..v / 4 {
                let typ = 0x4000 + i as u16;
                b.add_raw_attribute(RawAttribute::new(AttributeType::new(typ), &[])).unwrap();
                wire::append_raw(&mut w, typ, &[]);
            }
            b.add_raw_attribute(RawAttribute::new(AttributeType::new(0xC052), &value[..v % 4])).unwrap();
            wire::append_raw(&mut w, 0xC052, &value[..v % 4]);
        }
        let mut a = StunAgent::builder(t, local_addr()).build();
        let mut n_tx = 0;
        match a.send(b, dest, base) {
            Ok(tr) => {
                n_tx += 1;
                out.transcript.push(h(&tr.data()));
                if tr.data() != &w[..] || tr.to != dest || tr.from != local_addr() {
                    out.breaches.push(("C18", "sizes/initial-bytes".into(), format!("the initial transmission of a request of {} bytes is not its serialisation", w.len()), crate::common::fmt_bytes(&w), crate::common::fmt_bytes(tr.data())));
                    return out;
                }
            }
            Err(e) => {
                out.breaches.push(("C05", "sizes/send-refused".into(), format!("a request of {} bytes was refused", w.len()), "Ok".into(), format!("{e:?}")));
                return out;
            }
        }
        let mut now = base;
        for _ in 0..24 {
            match a.poll(now) {
                StunAgentPollRet::WaitUntil(i) => {
                    if i <= now {
                        break;
                    }
                    out.transcript.push(h(&(i - base)));
                    now = i;
                }
                StunAgentPollRet::SendData(tr) => {
                    n_tx += 1;
                    if tr.data() != &w[..] || tr.to != dest || tr.from != local_addr() {
                        out.breaches.push(("C18", "sizes/retransmission-bytes".into(), format!("transmission #{n_tx} of a request of {} bytes is not the request as handed over", w.len()), crate::common::fmt_bytes(&w), crate::common::fmt_bytes(tr.data())));
                        return out;
                    }
                }
                StunAgentPollRet::TransactionTimedOut(_) => break,
                StunAgentPollRet::TransactionCancelled(_) => break,
            }
        }
        let want_tx = if sc.tcp { 1 } else { 7 };
        if n_tx != want_tx {
            out.breaches.push(("C06", "sizes/transmissions".into(), format!("a request of {} bytes was transmitted {n_tx} times under the default schedule", w.len()), want_tx.to_string(), n_tx.to_string()));
            return out;
        }
    }
    out
}

/// Responses to an authenticated request.  `kind` 0 short-term / 1 long-term credentials, `n` block of 50
/// error codes (0..8; block 8 = success responses), `via` integrity of the response (0 none, 1 valid
/// SHA-1, 2 valid SHA-256, 3 SHA-1 under another key, 4 valid SHA-1 with one bit flipped), `mix` bit 0
/// the request was signed with SHA-256 instead of SHA-1.  Each is tried with every subset of {NONCE,
/// REALM, ALTERNATE-SERVER, FINGERPRINT}.
fn responses(sc: &Scenario) -> Outcome {
    use crate::engine_in::prog::creds_alphabet;
    let base = base_instant();
    let t = if sc.tcp { TransportType::Tcp } else { TransportType::Udp };
    let mut out = Outcome { breaches: vec![], transcript: vec![] };
    let dest = saddr(0, 1);
    let calpha = creds_alphabet();
    let (mine, theirs, other) = if sc.kind == 0 { (&calpha[0], &calpha[7], &calpha[2]) } else { (&calpha[1], &calpha[6], &calpha[4]) };
    let codes: Vec<u16> = if sc.n >= 8 { vec![0] } else { (300 + 50 * sc.n as u16..350 + 50 * sc.n as u16).collect() };
    for code in codes {
        for mask in 0..16u8 {
            let idv = stid(1_500_000 + code as usize * 16 + mask as usize);
            let mut a = StunAgent::builder(t, local_addr()).build();
            a.set_local_credentials(crate::real::creds(mine));
            a.set_remote_credentials(crate::real::creds(theirs));
            let mut rq = Message::builder(MessageType::from_class_method(MessageClass::Request, BINDING), idv.into());
            rq.add_message_integrity(&crate::real::creds(mine), if sc.mix & 1 == 1 { IntegrityAlgorithm::Sha256 } else { IntegrityAlgorithm::Sha1 }).unwrap();
            if a.send(rq, dest, base).is_err() {
                out.breaches.push(("C05", "responses/send-refused".into(), "an authenticated request was refused".into(), "Ok".into(), "Err".into()));
                return out;
            }
            let mut m = wire::encode_header(if code == 0 { 2 } else { 3 }, BINDING, idv, 0);
            if code != 0 {
                let mut v = vec![0, 0, (code / 100) as u8, (code % 100) as u8];
                v.extend_from_slice(b"reason");
                wire::append_raw(&mut m, 0x0009, &v);
            }
            if mask & 1 != 0 {
                wire::append_raw(&mut m, 0x0015, b"obMatJos2AAACf//499k954d6OL34oL9FSTvy64sA");
            }
            if mask & 2 != 0 {
                wire::append_raw(&mut m, 0x0014, b"realm.example");
            }
            if mask & 4 != 0 {
                wire::append_raw(&mut m, 0x8023, &[0, 1, 0x0D, 0x96, 192, 0, 2, 9]);
            }
            match sc.via {
                1 => wire::append_mi(&mut m, &theirs.key()),
                2 => wire::append_mi256(&mut m, &theirs.key(), 32),
                3 => wire::append_mi(&mut m, &other.key()),
                4 => {
                    wire::append_mi(&mut m, &theirs.key());
                    let l = m.len();
                    m[l - 7] ^= 0x04;
                }
                // 10 + n: MESSAGE-INTEGRITY-SHA256 under the right key declared with n bytes (0..=32)
                v if v >= 10 => wire::append_mi256(&mut m, &theirs.key(), (v - 10) as usize),
                _ => {}
            }
            if mask & 8 != 0 {
                wire::append_fp(&mut m);
            }
            let msg = match Message::from_bytes(&m) {
                Ok(x) => x,
                Err(e) => panic!("harness: response of the responses family does not parse: {e:?}"),
            };
            let delivered = matches!(a.handle_stun(msg, dest), HandleStunReply::StunResponse(_));
            let validated = a.is_validated_peer(dest);
            let outstanding = a.request_transaction(idv.into()).is_some();
            out.transcript.push(h(&(delivered, validated, outstanding)));
            let want = matches!(sc.via, 1 | 2 | 26 | 30 | 34 | 38 | 42);
            let integ = if sc.via >= 10 { format!("a MESSAGE-INTEGRITY-SHA256 of {} bytes under the right key", sc.via - 10) } else { ["no integrity", "a valid MESSAGE-INTEGRITY", "a valid MESSAGE-INTEGRITY-SHA256", "a MESSAGE-INTEGRITY computed with another key", "a corrupted MESSAGE-INTEGRITY"][sc.via as usize % 5].to_string() };
            let what = format!("{} response{} with {}{}{}{}{} to a request authenticated under {} credentials", if code == 0 { "a success".to_string() } else { format!("a {code} error") }, "", integ, if mask & 1 != 0 { " + NONCE" } else { "" }, if mask & 2 != 0 { " + REALM" } else { "" }, if mask & 4 != 0 { " + ALTERNATE-SERVER" } else { "" }, if mask & 8 != 0 { " + FINGERPRINT" } else { "" }, if sc.kind == 0 { "short-term" } else { "long-term" });
            // C15: the source is validated exactly when the response was delivered (whether or not it
            // should have been delivered is C07's / C05's question, asked next)
            if validated != delivered {
                out.breaches.push(("C15", "responses/validated-vs-delivered".into(), format!("{what}: the source is validated exactly when the response is delivered"), format!("delivered {delivered}, validated {delivered}"), format!("delivered {delivered}, validated {validated}")));
                return out;
            }
            if delivered != want {
                out.breaches.push((if want { "C05" } else { "C07" }, if want { "responses/authentic-response-dropped".into() } else { "responses/unauthenticated-response-delivered".into() }, what, format!("delivered: {want}"), format!("delivered: {delivered}")));
                return out;
            }
            if !want {
                // a dropped response neither cancels nor delays: the first retransmission (the time-out
                // over TCP) is still due where it was
                let due = base + Duration::from_millis(if sc.tcp { 39_500 } else { 500 });
                let got = a.poll(base);
                let ok = matches!(&got, StunAgentPollRet::WaitUntil(i) if *i == due);
                if !ok {
                    out.breaches.push(("C07", "responses/dropped-response-changes-schedule".into(), format!("{what}: after the response was dropped, the next poll"), format!("WaitUntil(send + {} ms)", if sc.tcp { 39_500 } else { 500 }), format!("{got:?}").chars().take(160).collect()));
                    return out;
                }
            }
            if outstanding == want {
                out.breaches.push(("C05", "responses/outstanding".into(), format!("{what}: the request stays outstanding exactly when the response is dropped"), format!("outstanding: {}", !want), format!("outstanding: {outstanding}")));
                return out;
            }
        }
    }
    out
}

/// Phase experiment (C20, "instants passed to one call do not leak into another transaction's
/// schedule"): request B is sent `delta + phi` after the first instant the agent ever saw, for sub-
/// microsecond and sub-millisecond phases phi, with and without an earlier request A (and an earlier idle
/// poll); B's events, taken relative to B's own send instant, must be the same list every time.
fn phase(sc: &Scenario) -> Outcome {
    let base = base_instant();
    let t = if sc.tcp { TransportType::Tcp } else { TransportType::Udp };
    let mut out = Outcome { breaches: vec![], transcript: vec![] };
    let deltas_ns: [u64; 4] = [0, 1_000_000, 300_000_000, 499_999_999];
    let phis_ns: [u64; 8] = [0, 1, 137, 500, 999, 1_001, 333_333, 999_999];
    let delta = deltas_ns[sc.n % 4];
    let b_events = |phi: u64, earlier: u8| -> Vec<(u8, i128)> {
        let mut a = StunAgent::builder(t, local_addr()).build();
        let t0 = base;
        match earlier {
            1 => {
                let sw = Software::new("scale-0").unwrap();
                let _ = a.send(build_req(0, &sw), saddr(0, 1), t0);
            }
            2 => {
                let _ = a.poll(t0);
            }
            _ => {}
        }
        let tb = t0 + Duration::from_nanos(delta + phi);
        let sw = Software::new("scale-1").unwrap();
        let wb = req_wire(1);
        let mut ev: Vec<(u8, i128)> = Vec::new();
        if a.send(build_req(1, &sw), saddr(0, 2), tb).is_err() {
            return vec![(9, 0)];
        }
        if sc.mix == 1 {
            if let Some(mut r) = a.mut_request_transaction(stid(1).into()) {
                r.configure_timeout(Duration::from_millis(7), 3, Duration::from_millis(0));
            }
        }
        let rel = |i: Instant| -> i128 { if i >= tb { (i - tb).as_nanos() as i128 } else { -((tb - i).as_nanos() as i128) } };
        let mut now = tb;
        for _ in 0..64 {
            match a.poll(now) {
                StunAgentPollRet::WaitUntil(i) => {
                    if i <= now {
                        break;
                    }
                    if a.request_transaction(stid(1).into()).is_none() {
                        break;
                    }
                    now = i;
                }
                StunAgentPollRet::SendData(tr) => {
                    if tr.data() == &wb[..] {
                        ev.push((1, rel(now)));
                    }
                }
                StunAgentPollRet::TransactionTimedOut(id) => {
                    let k: u128 = id.into();
                    if k == stid(1) {
                        ev.push((2, rel(now)));
                    }
                }
                StunAgentPollRet::TransactionCancelled(_) => {}
            }
        }
        ev
    };
    let reference = b_events(0, 0);
    out.transcript.push(h(&reference));
    for earlier in 0..3u8 {
        for phi in phis_ns {
            let got = b_events(phi, earlier);
            if got != reference {
                out.breaches.push(("C20", "scale/phase-leak".into(), format!("the schedule of a request, taken relative to its own send instant, depends on the instant of an earlier call on the same agent (earlier call: {}, the request sent {} ns after it)", ["none", "another request", "an idle poll"][earlier as usize], delta + phi), format!("{reference:?}"), format!("{got:?}")));
                return out;
            }
        }
    }
    out
}

/// Fractional configurations (C06): `configure_timeout` with durations that are not whole
/// milliseconds (an RTO derived from a measured round-trip time).  The statement pins the intervals
/// to initial_rto * 2^(k-1); the library keeps its schedule in whole milliseconds, so either that
/// exact value or its truncation to milliseconds is admissible for each interval - but not the
/// doubling of an already truncated value, nor a sum of truncated parts.
fn fractional(sc: &Scenario) -> Outcome {
    let base = base_instant();
    let t = if sc.tcp { TransportType::Tcp } else { TransportType::Udp };
    let mut out = Outcome { breaches: vec![], transcript: vec![] };
    let rtos_us: [u64; 8] = [62_500, 1_500, 999, 500_400, 7_900, 333_333, 1_000_001, 250];
    let lasts_us: [u64; 4] = [937_500, 0, 1_999, 10_000_500];
    let rto = rtos_us[sc.n % 8];
    let last = lasts_us[(sc.n / 8) % 4];
    let n = sc.kind as u32;
    let mut a = StunAgent::builder(t, local_addr()).build();
    let sw = Software::new("scale-0").unwrap();
    if a.send(build_req(0, &sw), saddr(0, 1), base).is_err() {
        return out;
    }
    if let Some(mut r) = a.mut_request_transaction(stid(0).into()) {
        r.configure_timeout(Duration::from_micros(rto), n, Duration::from_micros(last));
    }
    let floor_ms = |us: u64| us / 1000 * 1000;
    // expected intervals in microseconds: (exact, truncated)
    let mut want: Vec<(u64, u64, bool)> = Vec::new(); // (exact, truncated, is_timeout)
    if sc.tcp {
        let total: u64 = (0..n).map(|i| rto << i).sum::<u64>() + last;
        want.push((total, floor_ms(total), true));
    } else {
        for i in 0..n {
            want.push((rto << i, floor_ms(rto << i), false));
        }
        want.push((last, floor_ms(last), true));
    }
    let mut now = base;
    let mut prev = base;
    let mut k = 0usize;
    for _ in 0..40 {
        match a.poll(now) {
            StunAgentPollRet::WaitUntil(i) => {
                if a.request_transaction(stid(0).into()).is_none() || i <= now {
                    break;
                }
                now = i;
            }
            ev => {
                let is_timeout = matches!(ev, StunAgentPollRet::TransactionTimedOut(_));
                let got = (now - prev).as_nanos() as u64;
                match want.get(k) {
                    Some((exact, trunc, to)) if *to == is_timeout && (got == exact * 1000 || got == trunc * 1000) => {}
                    w => {
                        out.breaches.push(("C06", "scale/fractional-interval".into(), format!("with configure_timeout({rto} us, {n}, {last} us) event #{k} ({}) came {got} ns after the previous transmission", if is_timeout { "time-out" } else { "retransmission" }), format!("{:?} (exact us, truncated to ms, time-out?)", w), format!("{got} ns")));
                        return out;
                    }
                }
                out.transcript.push(got);
                prev = now;
                k += 1;
                if is_timeout {
                    break;
                }
            }
        }
    }
    if k != want.len() {
        out.breaches.push(("C06", "scale/fractional-count".into(), format!("with configure_timeout({rto} us, {n}, {last} us) the schedule produced {k} events"), want.len().to_string(), k.to_string()));
    }
    out
}

/// The scenarios of the thread-teardown probe (small ones of every family that has a transcript).
pub fn teardown_scenarios() -> Vec<Scenario> {
    let mut v = Vec::new();
    for tcp in [false, true] {
        v.push(Scenario { family: "tx".into(), tcp, kind: 4, n: 3, via: 1, mix: 1, noise: false, only: None });
        v.push(Scenario { family: "tx".into(), tcp, kind: 5, n: 17, via: 0, mix: 0, noise: false, only: None });
        v.push(Scenario { family: "peers".into(), tcp, kind: 4, n: 17, via: 2, mix: 0, noise: false, only: None });
        v.push(Scenario { family: "peers".into(), tcp, kind: 0, n: 3, via: 0, mix: 0, noise: false, only: None });
        v.push(Scenario { family: "sizes".into(), tcp, kind: 0, n: 3, via: 0, mix: 0, noise: false, only: None });
        v.push(Scenario { family: "responses".into(), tcp, kind: 1, n: 2, via: 1, mix: 0, noise: false, only: None });
    }
    v
}

pub fn run_scenario_unguarded(sc: &Scenario) -> Outcome {
    match sc.family.as_str() {
        "peers" => peers(sc),
        "sizes" => sizes(sc),
        "responses" => responses(sc),
        _ => transactions(sc),
    }
}

pub fn run_scenario(sc: &Scenario) -> Outcome {
    match guarded(|| match sc.family.as_str() {
        "peers" => peers(sc),
        "addr" => addressing(sc),
        "contents" => contents(sc),
        "phase" => phase(sc),
        "fractional" => fractional(sc),
        "sizes" => sizes(sc),
        "responses" => responses(sc),
        "lifetime" => lifetime(sc),
        "ownaddr" => ownaddr(sc),
        _ => transactions(sc),
    }) {
        Ok(o) => o,
        Err(p) => Outcome { breaches: vec![("C01", format!("panic/scale/{}", sc.family), format!("the agent panicked in a long history: {}", p.message), "a reply".into(), format!("panic at {}", p.location))], transcript: vec![0xDEAD] },
    }
}

fn peers(sc: &Scenario) -> Outcome {
    let base = base_instant();
    let t = if sc.tcp { TransportType::Tcp } else { TransportType::Udp };
    let mut a = StunAgent::builder(t, local_addr()).build();
    let mut noise = Noise::new(sc.noise, sc.tcp);
    let mut out = Outcome { breaches: vec![], transcript: vec![] };
    let unseen = 6usize;
    let mut first_forgotten = true;
    for i in 0..sc.n {
        let from = saddr(sc.kind, i);
        noise.tick(base);
        // merely sending to an address never validates it: the next address gets an indication first
        if i % 5 == 0 {
            let sw = Software::new("to").unwrap();
            let mut b = Message::builder(MessageType::from_class_method(MessageClass::Indication, BINDING), stid(100_000 + i).into());
            b.add_attribute(&sw).unwrap();
            let _ = a.send(b, saddr(sc.kind, i + 1), base);
        }
        let reply = match sc.via {
            2 => {
                let sw = Software::new(&format!("scale-{i}")).unwrap();
                let b = build_req(i, &sw);
                let sent = a.send(b, from, base + Duration::from_millis(i as u64)).is_ok();
                let bytes = plain_wire(2, stid(i));
                let m = Message::from_bytes(&bytes).unwrap();
                let r = a.handle_stun(m, from);
                (sent, matches!(r, HandleStunReply::StunResponse(_)) as u8)
            }
            v => {
                let bytes = plain_wire(if v == 0 { 0 } else { 1 }, stid(200_000 + i));
                let m = Message::from_bytes(&bytes).unwrap();
                let r = a.handle_stun(m, from);
                (true, if matches!(r, HandleStunReply::IncomingStun(_)) { 2 } else { 0 })
            }
        };
        out.transcript.push(h(&reply));
        let want = if sc.via == 2 { (true, 1) } else { (true, 2) };
        if reply != want {
            out.breaches.push(("C15", "scale/message-not-accepted".into(), "a well-formed message from a new peer was not handed over / delivered".into(), format!("{want:?}"), format!("{reply:?} at peer #{i}")));
            return out;
        }
        // all addresses so far are validated, the next ones are not
        let full = i < 320 || i % 64 == 63 || i + 1 == sc.n;
        let lo = if full { 0 } else { i.saturating_sub(3) };
        let mut bits: u64 = 0;
        for j in (lo..=i + unseen).chain(0..3.min(i)) {
            let v = a.is_validated_peer(saddr(sc.kind, j));
            bits = bits.wrapping_mul(0x100_0000_01B3) ^ (v as u64 + 2 * j as u64);
            if v != (j <= i) && first_forgotten {
                first_forgotten = false;
                if j <= i {
                    out.breaches.push(("C15", "scale/forgotten-peer".into(), "a validated peer is no longer validated after more peers were validated".into(), format!("peer #{j} ({}) validated", saddr(sc.kind, j)), format!("not validated after peer #{i} was accepted")));
                } else {
                    out.breaches.push(("C15", "scale/validated-unseen".into(), "an address that never sent anything is validated".into(), format!("peer #{j} ({}) not validated", saddr(sc.kind, j)), format!("validated after peer #{i} was accepted")));
                }
            }
        }
        out.transcript.push(bits);
    }
    out
}

#[derive(Clone, Debug)]
struct STx {
    to: SocketAddr,
    wire: Vec<u8>,
    n_tx: u32,
    last_tx: i64,
    rto: i64,
    retransmits: u32,
    last: i64,
    answer_at: Option<i64>,
}
impl STx {
    fn next(&self, tcp: bool) -> (i64, bool) {
        if tcp {
            let mut sum = self.last;
            for i in 0..self.retransmits {
                sum += self.rto << i;
            }
            return (self.last_tx + sum, true);
        }
        let done = self.n_tx - 1;
        if done < self.retransmits {
            (self.last_tx + (self.rto << done), false)
        } else {
            (self.last_tx + self.last, true)
        }
    }
}

fn transactions(sc: &Scenario) -> Outcome {
    let base = base_instant();
    // all times of this family are in MICROSECONDS after the base: request i is sent `step_us` after
    // request i-1 (sc.noise-independent; 0, 137 or 1000 us by scenario), so that deadlines of different
    // requests may lie less than a millisecond apart
    let at = |us: i64| base + Duration::from_micros(us as u64);
    let step_us: i64 = match sc.kind { 5 => 137, 6 => 1000, 7 => 333, _ => 0 };
    let t = if sc.tcp { TransportType::Tcp } else { TransportType::Udp };
    let mut a = StunAgent::builder(t, local_addr()).build();
    let mut noise = Noise::new(sc.noise, sc.tcp);
    let mut out = Outcome { breaches: vec![], transcript: vec![] };
    let mut live: BTreeMap<u128, STx> = BTreeMap::new();
    let mut done: BTreeMap<u128, u32> = BTreeMap::new();
    macro_rules! breach {
        ($p:expr, $c:expr, $w:expr, $e:expr, $o:expr) => {{
            out.breaches.push(($p, $c.to_string(), $w.to_string(), $e, $o));
            return out;
        }};
    }
    for i in 0..sc.n {
        if sc.only.is_some_and(|o| o != i) {
            continue;
        }
        noise.tick(base);
        let to = saddr(4, i % 7);
        let sw = Software::new(&format!("scale-{i}")).unwrap();
        let b = build_req(i, &sw);
        let w = req_wire(i);
        let sent_at = i as i64 * step_us;
        match a.send(b, to, at(sent_at)) {
            Ok(tr) => {
                out.transcript.push(h(&(tr.data(), tr.from, tr.to)));
                if tr.data() != &w[..] {
                    breach!("C18", "scale/initial-bytes", "the initial transmission is not the request", crate::common::fmt_bytes(&w), format!("{} (request #{i} of {})", crate::common::fmt_bytes(tr.data()), sc.n));
                }
                if tr.from != local_addr() || tr.to != to || tr.transport != t {
                    breach!("C18", "scale/initial-addressing", "the initial transmission is not addressed as asked", format!("{} -> {to}", local_addr()), format!("{} -> {}", tr.from, tr.to));
                }
            }
            Err(e) => breach!("C05", "scale/send-refused", "sending a request with a fresh id was refused", "Ok(Transmit)".to_string(), format!("{e:?} (request #{i} of {})", sc.n)),
        }
        let (rto, n, last) = if sc.mix == 0 { (500, 6, 8000) } else { cfg((i % N_NAMED_CFGS) as u8) };
        if sc.mix != 0 {
            match a.mut_request_transaction(stid(i).into()) {
                Some(mut r) => r.configure_timeout(Duration::from_millis(rto), n, Duration::from_millis(last)),
                None => breach!("C05", "scale/not-outstanding-after-send", "a request just sent is not outstanding", "Some".to_string(), format!("None (request #{i} of {})", sc.n)),
            }
        }
        // answer pattern: 0 none, 1 every third request at 3 ms, 2 all of them at 1 ms, 3 every other at 600+i ms
        let last_send = (sc.n as i64 - 1) * step_us;
        let answer_at = match sc.via {
            1 if i % 3 == 0 => Some(last_send + 3_000),
            2 => Some(last_send + 1_000),
            3 if i % 2 == 0 => Some(last_send + (600 + i as i64) * 1_000),
            _ => None,
        };
        live.insert(stid(i), STx { to, wire: w, n_tx: 1, last_tx: sent_at, rto: rto as i64 * 1_000, retransmits: n, last: last as i64 * 1_000, answer_at });
    }
    // every request is outstanding and reports its peer
    for (k, x) in &live {
        match a.request_transaction((*k).into()) {
            Some(r) if r.peer_address() == x.to => {}
            Some(r) => breach!("C18", "scale/peer-address", "an outstanding request reports the wrong peer", x.to.to_string(), r.peer_address().to_string()),
            None => breach!("C05", "scale/outstanding-set", "a request that was sent and not completed is not outstanding", "Some".to_string(), format!("None with {} requests outstanding", sc.n)),
        }
    }
    let mut now: i64 = (sc.n as i64 - 1).max(0) * step_us;
    // events that fell due while later requests were still being sent are served at the first poll
    let start = now;
    let mut guard = 0usize;
    while !live.is_empty() {
        guard += 1;
        if guard > 40 * (sc.n + 2) {
            breach!("C05", "scale/never-completes", "requests are still outstanding after the whole schedule was served", "completion".to_string(), format!("{} outstanding", live.len()));
        }
        // answers due now
        let due: Vec<u128> = live.iter().filter(|(_, x)| x.answer_at.is_some_and(|t| t <= now)).map(|(k, _)| *k).collect();
        for k in due {
            noise.tick(base);
            let x = live.remove(&k).unwrap();
            let bytes = plain_wire(2, k);
            let m = Message::from_bytes(&bytes).unwrap();
            let r = a.handle_stun(m, x.to);
            let ok = matches!(r, HandleStunReply::StunResponse(_));
            out.transcript.push(h(&(k, ok)));
            if !ok {
                breach!("C05", "scale/response-not-delivered", "the response of an outstanding unauthenticated request was not delivered", "StunResponse".to_string(), format!("dropped with {} outstanding", live.len() + 1));
            }
            *done.entry(k).or_insert(0) += 1;
            if a.request_transaction(k.into()).is_some() {
                breach!("C05", "scale/outstanding-after-delivery", "a request is still outstanding after its response was delivered", "None".to_string(), "Some".to_string());
            }
            // a duplicate is dropped
            let m = Message::from_bytes(&bytes).unwrap();
            if !matches!(a.handle_stun(m, x.to), HandleStunReply::Drop) {
                breach!("C05", "scale/duplicate-response", "a second response for a completed request was not dropped", "Drop".to_string(), "delivered".to_string());
            }
        }
        // serve everything due at `now`
        loop {
            noise.tick(base);
            let r = a.poll(at(now));
            match r {
                StunAgentPollRet::SendData(tr) => {
                    out.transcript.push(h(&(1u8, tr.data(), tr.to)));
                    let hit = live.iter().find(|(_, x)| x.wire[..] == *tr.data()).map(|(k, _)| *k);
                    let Some(k) = hit else {
                        breach!("C18", "scale/retransmission-bytes", "a transmission from poll is not the serialisation of any outstanding request", "one of the outstanding requests".to_string(), crate::common::fmt_bytes(tr.data()));
                    };
                    let x = live.get_mut(&k).unwrap();
                    let (when, is_timeout) = x.next(sc.tcp);
                    if is_timeout || when > now || (when < now && now != start) {
                        breach!("C06", "scale/retransmission-time", "a retransmission was produced at an instant the schedule does not name", format!("{} at +{when}us", if is_timeout { "time-out" } else { "retransmission" }), format!("retransmission #{} at +{now}us ({} requests)", x.n_tx, sc.n));
                    }
                    if tr.from != local_addr() || tr.to != x.to || tr.transport != t {
                        breach!("C18", "scale/retransmission-addressing", "a retransmission is not addressed as the request was", format!("{} -> {}", local_addr(), x.to), format!("{} -> {}", tr.from, tr.to));
                    }
                    x.n_tx += 1;
                    x.last_tx = now;
                }
                StunAgentPollRet::TransactionTimedOut(id) => {
                    let k: u128 = id.into();
                    out.transcript.push(h(&(2u8, k)));
                    let Some(x) = live.remove(&k) else {
                        breach!("C05", "scale/timeout-of-completed", "a time-out was reported for a request that is not outstanding", "an outstanding id".to_string(), format!("{k:#x}"));
                    };
                    let (when, is_timeout) = x.next(sc.tcp);
                    if !is_timeout || when > now || (when < now && now != start) {
                        breach!("C06", "scale/timeout-time", "a time-out was reported at an instant the schedule does not name", format!("{} at +{when}us", if is_timeout { "time-out" } else { "retransmission" }), format!("time-out at +{now}us after {} transmissions ({} requests)", x.n_tx, sc.n));
                    }
                    *done.entry(k).or_insert(0) += 1;
                }
                StunAgentPollRet::TransactionCancelled(id) => {
                    let k: u128 = id.into();
                    breach!("C05", "scale/cancelled-unasked", "a request was reported cancelled although cancel was never called", "no such event".to_string(), format!("{k:#x}"));
                }
                StunAgentPollRet::WaitUntil(i) => {
                    let w = if i >= base { (i - base).as_nanos() as i128 } else { -1 }; // nanoseconds
                    out.transcript.push(h(&(3u8, w)));
                    // everything scheduled up to now must have happened
                    if let Some((k, x)) = live.iter().find(|(_, x)| x.next(sc.tcp).0 <= now) {
                        let (when, is_timeout) = x.next(sc.tcp);
                        breach!("C06", "scale/event-missed", "poll answered WaitUntil although a scheduled event of an outstanding request was due", format!("{} of {k:#x} at +{when}us", if is_timeout { "time-out" } else { "retransmission" }), format!("WaitUntil(+{w}ns) at +{now}us"));
                    }
                    let next_ev = live.values().map(|x| x.next(sc.tcp).0).min();
                    let next_ans = live.values().filter_map(|x| x.answer_at).min();
                    match next_ev {
                        Some(e) => {
                            if w != e as i128 * 1_000 {
                                breach!("C06", "scale/wait-not-earliest", "WaitUntil(t) is not the earliest instant at which an outstanding request needs service", format!("+{e}us"), format!("+{w}ns with {} outstanding", live.len()));
                            }
                            now = match next_ans {
                                Some(t) if t < e => t.max(now + 1),
                                _ => e,
                            };
                        }
                        None => {}
                    }
                    break;
                }
            }
        }
    }
    for (k, c) in &done {
        if *c != 1 {
            breach!("C05", "scale/completed-more-than-once", "a request completed more than once", "1".to_string(), format!("{c} completions of {k:#x}"));
        }
    }
    let expected_done = if sc.only.is_some() { sc.n.min(1) } else { sc.n };
    if done.len() != expected_done {
        breach!("C05", "scale/lost-request", "not every request completed", expected_done.to_string(), done.len().to_string());
    }
    // idle agent afterwards: no event
    if !matches!(a.poll(at(now + 1_000)), StunAgentPollRet::WaitUntil(_)) {
        breach!("C05", "scale/event-after-completion", "an idle agent produced an event", "WaitUntil".to_string(), "an event".to_string());
    }
    out
}

/// What the thread of a scenario finds around it (agent::ambient).
#[derive(Clone, Debug)]
enum Ambient {
    Plain,
    /// the process clock jumps this many seconds at every read
    ClockStep(u64),
    /// an environment variable reads as this value (`None`: unset)
    Env(String, Option<&'static str>),
    /// a tracing subscriber with this maximum level (index into model::LEVELS) is the thread's dispatcher
    Tracing(usize),
}

fn on_fresh_thread(sc: Scenario) -> Outcome {
    on_fresh_thread_in(sc, Ambient::Plain)
}

fn on_fresh_thread_in(sc: Scenario, amb: Ambient) -> Outcome {
    std::thread::Builder::new()
        .stack_size(1 << 20)
        .spawn(move || {
            let _g = crate::ambient::scope();
            crate::ambient::record(true);
            match &amb {
                Ambient::Plain => {}
                Ambient::ClockStep(secs) => crate::ambient::clock_step(Duration::from_secs(*secs)),
                Ambient::Env(name, value) => crate::ambient::env_override(name, *value),
                Ambient::Tracing(l) => {
                    let d = super::model::sink_dispatch(super::model::LEVELS[*l]);
                    return tracing::dispatcher::with_default(&d, || run_scenario(&sc));
                }
            }
            run_scenario(&sc)
        })
        .expect("spawn")
        .join()
        .unwrap_or(Outcome { breaches: vec![], transcript: vec![0xBAD] })
}

pub fn replay_value(sc: &Scenario) -> Value {
    json!({"engine": "SM", "model": "agent-scale", "scenario": sc})
}

/// Judge one scenario for `prop`: its breaches, and for C20 the comparison of three executions.
pub fn judge(prop: &str, sc: &Scenario, acc: &mut Acc) {
    acc.evaluations += 1;
    acc.validated += 1;
    acc.nontrivial += 1;
    let o = on_fresh_thread(sc.clone());
    for (p, clause, what, exp, obs) in &o.breaches {
        acc.violation(Violation::new(p, clause, what.clone(), exp.clone(), obs.clone(), replay_value(sc)));
    }
    // small histories also under a tracing subscriber of every maximum level: the same breaches (none)
    // and the same replies
    if sc.n <= 300 {
        for l in 0..super::model::LEVELS.len() {
            let ol = on_fresh_thread_in(sc.clone(), Ambient::Tracing(l));
            for (p, clause, what, exp, obs) in &ol.breaches {
                acc.violation(Violation::new(p, &format!("{clause}/under-tracing"), format!("{what} (under a tracing subscriber with maximum level {})", super::model::LEVELS[l]), exp.clone(), obs.clone(), replay_value(sc)));
            }
            if ol.breaches.is_empty() && o.breaches.is_empty() && ol.transcript != o.transcript {
                acc.violation(Violation::new(prop, "scale/replies-depend-on-tracing-level", format!("the same long history gives different replies under a tracing subscriber with maximum level {}", super::model::LEVELS[l]), "identical reply transcripts".to_string(), "different transcripts".to_string(), replay_value(sc)));
            }
        }
    }
    if prop == "C20" && sc.family == "tx" && sc.n >= 2 && sc.only.is_none() && o.breaches.iter().any(|b| b.0 == "C06") {
        // "instants passed to one call do not leak into another transaction's schedule": the joint history
        // breaches a timing clause; each request of it alone (sent at its own instant, under its own
        // configuration, answered as in the joint history) is served on schedule -> the breach needs the
        // other transactions' calls
        let solo_clean = (0..sc.n).all(|i| {
            let mut solo = sc.clone();
            solo.only = Some(i);
            on_fresh_thread(solo).breaches.is_empty()
        });
        if solo_clean {
            let b = o.breaches.iter().find(|b| b.0 == "C06").unwrap();
            acc.violation(Violation::new("C20", "scale/cross-transaction-leak", format!("the schedule of a request depends on calls made for other requests: the history of {} requests breaches `{}` ({}), each of its requests alone follows the schedule", sc.n, b.1, b.2), b.3.clone(), b.4.clone(), replay_value(sc)));
        }
    }
    if prop == "C20" {
        let o2 = on_fresh_thread(sc.clone());
        let mut noisy = sc.clone();
        noisy.noise = true;
        let o3 = on_fresh_thread(noisy);
        let o4 = on_fresh_thread_in(sc.clone(), Ambient::ClockStep(7));
        let o5 = on_fresh_thread_in(sc.clone(), Ambient::ClockStep(4_320_000));
        let mut others: Vec<(String, Outcome)> = vec![("a second execution on another fresh thread".into(), o2), ("an execution alongside an unrelated agent".into(), o3), ("an execution with the process clock jumping 7 s at every read".into(), o4), ("an execution with the process clock jumping 50 days at every read".into(), o5)];
        // every environment variable the library was seen to read so far, under every value of the alphabet
        if sc.n <= 300 {
            for name in crate::ambient::env_names() {
                for value in crate::ambient::ENV_VALUES.iter().map(|v| Some(*v)).chain([None]) {
                    others.push((format!("an execution with the environment variable {name} reading as {value:?}"), on_fresh_thread_in(sc.clone(), Ambient::Env(name.clone(), value))));
                }
            }
        }
        for (name, other) in others.iter().map(|(n, o)| (n.as_str(), o)) {
            if other.transcript != o.transcript {
                let at = o.transcript.iter().zip(other.transcript.iter()).position(|(a, b)| a != b).unwrap_or(o.transcript.len().min(other.transcript.len()));
                acc.violation(Violation::new("C20", "scale/replay-differs", format!("{name} of the same long history gives different replies"), "identical reply transcripts".to_string(), format!("first difference at reply #{at} of {}", o.transcript.len()), replay_value(sc)));
            }
        }
    }
    acc.outcome(match sc.family.as_str() {
        "peers" => "long history: many peers",
        "addr" => "addressing matrix: local x destination x message kind",
        "contents" => "message contents: 256 attribute types served to time-out",
        "phase" => "phase experiment: sub-microsecond offsets between calls",
        "fractional" => "fractional configuration: durations that are not whole milliseconds",
        "sizes" => "message sizes: 64 request sizes served to time-out",
        "lifetime" => "lifetime totals: tens of thousands of peers / requests in one agent, then new requests",
        "ownaddr" => "sources that resemble the agent's own address",
        "responses" => "responses to an authenticated request: 50 error codes x attribute sets",
        _ => "long history: many concurrent requests",
    });
}

pub fn scenarios(prop: &str, thorough: bool) -> Vec<Scenario> {
    let mut v = Vec::new();
    // (the purity check runs every history three times: smaller maxima there)
    let peers_max = if prop == "C20" { if thorough { 10_000 } else { 2_600 } } else if thorough { 70_000 } else { 10_000 };
    let tx_max = if prop == "C20" { if thorough { 1100 } else { 300 } } else if thorough { 4200 } else { 1100 };
    let want_peers = matches!(prop, "C15" | "C20");
    let want_tx = matches!(prop, "C05" | "C06" | "C18" | "C20");
    if want_peers {
        for tcp in [false, true] {
            for kind in 0..=4u8 {
                for via in 0..=2u8 {
                    // every size up to 300 for one combination per family, a ladder of sizes for all
                    let every = (kind == 4 || kind == 0) && !tcp;
                    let sizes: Vec<usize> = if every { (1..=300).chain([511, 512, 513, 1023, 1024, 1025, 2047, 2048, 2049, 4095, 4096, 4097, 8191, 8192, 8193, peers_max]).collect() } else { vec![1, 2, 17, 64, 65, 127, 128, 129, 255, 256, 257, 4097, peers_max] };
                    for n in sizes {
                        if kind == 1 && n > 60_000 {
                            continue;
                        }
                        v.push(Scenario { family: "peers".into(), tcp, kind, n, via, mix: 0, noise: false, only: None });
                    }
                }
            }
        }
    }
    if matches!(prop, "C18" | "C15") {
        for tcp in [false, true] {
            for l in 0..N_SPECIAL {
                for d in 0..N_SPECIAL {
                    for via in 0..=3u8 {
                        v.push(Scenario { family: "addr".into(), tcp, kind: l as u8, n: d, via, mix: ((l + d) % 2) as u8, noise: false, only: None });
                    }
                }
            }
        }
    }
    if matches!(prop, "C05" | "C15") {
        for tcp in [false, true] {
            for block in 0..16usize {
                v.push(Scenario { family: "contents".into(), tcp, kind: 255, n: block, via: 0, mix: 0, noise: false, only: None });
            }
            // every attribute type in a response / indication (mix 1 = receiving side)
            for len in [0u8, 4, 8] {
                for block in 0..256usize {
                    v.push(Scenario { family: "contents".into(), tcp, kind: len, n: block, via: 0, mix: 1, noise: false, only: None });
                }
            }
        }
    }
    if prop == "C18" {
        for tcp in [false, true] {
            for len in [0u8, 4, 8, 20] {
                for via in [0u8, 1] {
                    if tcp && (via == 1 || len == 8) {
                        continue;
                    }
                    for block in 0..256usize {
                        v.push(Scenario { family: "contents".into(), tcp, kind: len, n: block, via, mix: 0, noise: false, only: None });
                    }
                    if len == 4 {
                        // every method (16 blocks of 256)
                        for block in 0..16usize {
                            v.push(Scenario { family: "contents".into(), tcp, kind: 255, n: block, via, mix: 0, noise: false, only: None });
                        }
                    }
                }
            }
        }
    }
    if matches!(prop, "C18" | "C06") {
        for tcp in [false, true] {
            for via in [0u8, 1] {
                for block in 0..35usize {
                    v.push(Scenario { family: "sizes".into(), tcp, kind: 0, n: block, via, mix: 0, noise: false, only: None });
                }
            }
            v.push(Scenario { family: "sizes".into(), tcp, kind: 1, n: 0, via: 0, mix: 0, noise: false, only: None });
        }
    }
    if prop == "C15" {
        for tcp in [false, true] {
            for kind in 0..4u8 {
                for via in 0..3u8 {
                    v.push(Scenario { family: "ownaddr".into(), tcp, kind, n: 1, via, mix: 0, noise: false, only: None });
                }
            }
        }
    }
    if matches!(prop, "C18" | "C15" | "C05") {
        for tcp in [false, true] {
            for kind in 0..3u8 {
                for n in [1usize, 255, 256, 257, 65_535, 65_536, 65_537, 70_001] {
                    v.push(Scenario { family: "lifetime".into(), tcp, kind, n, via: 0, mix: 0, noise: false, only: None });
                }
            }
        }
    }
    if matches!(prop, "C15" | "C07" | "C05") {
        for tcp in [false, true] {
            for kind in [0u8, 1] {
                for block in 0..=8usize {
                    for via in 0..5u8 {
                        for mix in [0u8, 1] {
                            v.push(Scenario { family: "responses".into(), tcp, kind, n: block, via, mix, noise: false, only: None });
                        }
                    }
                    // MESSAGE-INTEGRITY-SHA256 of every declared length 0..=32 (codes 400..=449 and success)
                    if block == 2 || block == 8 {
                        for n in 0..=32u8 {
                            v.push(Scenario { family: "responses".into(), tcp, kind, n: block, via: 10 + n, mix: 0, noise: false, only: None });
                        }
                    }
                }
            }
        }
    }
    if prop == "C06" {
        for tcp in [false, true] {
            for retransmits in 0..=12u8 {
                for n in 0..32usize {
                    v.push(Scenario { family: "fractional".into(), tcp, kind: retransmits, n, via: 0, mix: 0, noise: false, only: None });
                }
            }
        }
    }
    if matches!(prop, "C20" | "C06") {
        for tcp in [false, true] {
            for mix in [0u8, 1] {
                for n in 0..4usize {
                    v.push(Scenario { family: "phase".into(), tcp, kind: 0, n, via: 0, mix, noise: false, only: None });
                }
            }
        }
    }
    if want_tx {
        for tcp in [false, true] {
            for mix in [0u8, 1] {
                for via in 0..=3u8 {
                    let every = !tcp && mix == 1 && via == 1;
                    let sizes: Vec<usize> = if every { (1..=130).chain([255, 256, 257, tx_max]).collect() } else { vec![1, 2, 3, 16, 17, 64, 65, 128, 129, tx_max] };
                    for n in sizes {
                        // kind = spacing of the sends: 4 all at one instant, 5 137 us apart, 6 1 ms apart, 7 333 us apart
                        let kind = 4 + ((n + via as usize + mix as usize) % 4) as u8;
                        v.push(Scenario { family: "tx".into(), tcp, kind, n, via, mix, noise: false, only: None });
                        if n <= 17 {
                            for k in 4..8u8 {
                                if k != kind {
                                    v.push(Scenario { family: "tx".into(), tcp, kind: k, n, via, mix, noise: false, only: None });
                                }
                            }
                        }
                    }
                }
            }
        }
    }
    v
}

pub fn sweep(prop: &'static str, thorough: bool) -> Acc {
    scenarios(prop, thorough)
        .into_par_iter()
        .fold(Acc::default, |mut acc, sc| {
            judge(prop, &sc, &mut acc);
            acc
        })
        .reduce(Acc::default, |a, b| a.merge(b))
}

pub fn replay(prop: &str, rp: &Value) -> Vec<Violation> {
    let sc: Scenario = match serde_json::from_value(rp["scenario"].clone()) {
        Ok(s) => s,
        Err(e) => {
            eprintln!("MACHINERY-FAILURE: bad scale scenario: {e}");
            std::process::exit(2)
        }
    };
    let mut acc = Acc::default();
    judge(prop, &sc, &mut acc);
    acc.violations.into_values().map(|(v, _)| v).collect()
}
