//! Agent universe, action alphabet and the driver that executes actions on the real `StunAgent`.

pub mod model;
pub mod prelude;
pub mod scale;
pub mod schedule;
pub mod spec;

use crate::refimpl::wire;
use serde::{Deserialize, Serialize};
use std::net::SocketAddr;
use std::time::{Duration, Instant};
use stun_proto::agent::*;
use stun_types::attribute::*;
use stun_types::message::*;
use stun_types::TransportType;

pub const N_IDS: usize = 4; // A, B, C sent; U never sent
pub const N_ADDRS: usize = 8; // P1, P2, P3, P1' (other port), P1'' (other ip), P1 as IPv4-mapped IPv6, link-local %1, the same %2

pub fn local_addr() -> SocketAddr {
    "10.0.0.1:1000".parse().unwrap()
}

pub fn peer(i: u8) -> SocketAddr {
    match i {
        0 => "10.0.0.2:2000".parse().unwrap(),
        1 => "10.0.0.3:3000".parse().unwrap(),
        2 => "10.0.0.4:4000".parse().unwrap(),
        3 => "10.0.0.2:2001".parse().unwrap(),
        4 => "10.0.0.9:2000".parse().unwrap(),
        // the IPv4-mapped IPv6 form of P1, and one link-local address under two scope ids: distinct
        // socket addresses that a canonicalising key would conflate
        5 => "[::ffff:10.0.0.2]:2000".parse().unwrap(),
        6 => SocketAddr::V6(std::net::SocketAddrV6::new("fe80::1".parse().unwrap(), 2000, 0, 1)),
        _ => SocketAddr::V6(std::net::SocketAddrV6::new("fe80::1".parse().unwrap(), 2000, 0, 2)),
    }
}

/// don't-care constants: transaction ids of the universe (seeded)
pub fn tid(i: u8) -> u128 {
    let seed = crate::agent::model::seed();
    let mix = |k: u64| -> u128 {
        let mut x = seed.wrapping_mul(0x9E37_79B9_7F4A_7C15).wrapping_add(k.wrapping_mul(0xD6E8_FEB8_6659_FD93));
        x ^= x >> 29;
        x = x.wrapping_mul(0xBF58_476D_1CE4_E5B9);
        x ^= x >> 32;
        x as u128
    };
    // The ids of the universe are *related*, so that an implementation which keys its table on a
    // part of the id conflates two of them: all derive from one seeded 96-bit value B;
    // id 1 = B with the top 32 bits complemented (same low 64 bits), id 2 = B with the low 32 bits
    // complemented (same top 64 bits), id 3 (the "unknown" id) = B with bit 64 flipped, others mixed.
    let b = ((mix(1) << 40) | (mix(77) & 0xFF_FFFF_FF00) | 1) & ((1u128 << 96) - 1);
    match i {
        0 => b,
        1 => b ^ (0xFFFF_FFFFu128 << 64),
        2 => b ^ 0xFFFF_FFFFu128,
        3 => b ^ (1u128 << 64),
        _ => ((mix(i as u64 + 1) << 40) | (mix(i as u64 + 77) & 0xFF_FFFF_FF00) | (i as u128 + 1)) & ((1u128 << 96) - 1),
    }
}

/// 0 local, 1 and 2 remote; 4.. are pairs that a "helpful" normalisation would conflate: 4 / 5 differ
/// in NO-BREAK SPACE vs SPACE, 6 is key 1 in upper case, 7 is key 1 with a trailing space, 8 / 9 are
/// the composed and decomposed spelling of the same text, 10 / 11 are 73-byte keys with a common 64-byte prefix
pub fn key_text(k: u8) -> &'static str {
    match k {
        0 => "local-pw",
        1 => "remote-one",
        4 => "remote\u{a0}one\u{3000}pass",
        5 => "remote one pass",
        6 => "REMOTE-ONE",
        7 => "remote-one ",
        8 => "caf\u{e9}-pass",
        9 => "cafe\u{301}-pass",
        // longer than the 64-byte HMAC block, equal in their first 64 bytes (RFC 2104 hashes such keys)
        10 => "0123456789abcdef0123456789abcdef0123456789abcdef0123456789abcdef/peer-one",
        11 => "0123456789abcdef0123456789abcdef0123456789abcdef0123456789abcdef/peer-two",
        _ => "remote-two",
    }
}

/// key 3 is a long-term credential (user, realm, password); 0..=2 are short-term passwords
pub fn key_bytes(k: u8) -> Vec<u8> {
    if k == 3 {
        wire::Creds::Long { user: "lt-user".into(), realm: "lt.realm".into(), pass: "lt-pass".into() }.key()
    } else {
        key_text(k).as_bytes().to_vec()
    }
}

pub fn creds(k: u8) -> MessageIntegrityCredentials {
    if k == 3 {
        return LongTermCredentials::new("lt-user".to_string(), "lt-pass".to_string(), "lt.realm".to_string()).into();
    }
    ShortTermCredentials::new(key_text(k).to_string()).into()
}

#[derive(Clone, Copy, Debug, Serialize, Deserialize, PartialEq, Eq, Hash, PartialOrd, Ord)]
pub enum Seal {
    None,
    Sha1,
    Sha256,
    Both,
}

#[derive(Clone, Copy, Debug, Serialize, Deserialize, PartialEq, Eq, Hash, PartialOrd, Ord)]
pub enum When {
    Now,
    WakeMinus1,
    Wake,
    WakePlus1,
    WakePlus700,
    Far,
    /// 300 ms *before* the instant of the previous call: the caller's clock sample is older than the
    /// one a request was sent with (one `Instant::now()` per loop iteration, a fresh one per send).
    /// The agent must answer as for any early poll; the model's own clock does not go back.
    Past,
}

#[derive(Clone, Copy, Debug, Serialize, Deserialize, PartialEq, Eq, Hash, PartialOrd, Ord)]
pub enum Auth {
    None,
    Sha1(u8),
    Sha256(u8),
    Both(u8),
    /// SHA-1 under the key, one bit of the HMAC flipped
    Sha1Flipped(u8),
    /// MESSAGE-INTEGRITY-SHA256 truncated to 16 bytes (RFC 8489 14.6 allows 16..=32): valid
    Sha256Trunc(u8),
    /// SHA-256 under the key, one bit of the HMAC flipped
    Sha256Flipped(u8),
    /// both attributes: MESSAGE-INTEGRITY right under the key, MESSAGE-INTEGRITY-SHA256 under another
    /// key (what appending a bogus SHA-256 attribute to a genuine SHA-1 response gives): RFC 8489
    /// gives MESSAGE-INTEGRITY-SHA256 precedence whenever both are present, so this must be dropped
    MixedSha1Good(u8),
    /// both attributes: MESSAGE-INTEGRITY under another key, MESSAGE-INTEGRITY-SHA256 right under the
    /// key (only the key holder can make this): either answer is admissible
    MixedSha256Good(u8),
    /// MESSAGE-INTEGRITY under the key, but computed over the header carrying the final on-the-wire
    /// length (a known signer mistake), followed by a correct FINGERPRINT: not a valid integrity
    Sha1WireLenFp(u8),
    /// the same mistake with MESSAGE-INTEGRITY-SHA256
    Sha256WireLenFp(u8),
    /// MESSAGE-INTEGRITY-SHA256 under the key, truncated to (declared with) this many bytes, 0..=36:
    /// valid for 16, 20, 24, 28, 32 (RFC 8489 14.6: at least 16 bytes, a multiple of 4), not valid otherwise
    Sha256Len(u8, u8),
}

#[derive(Clone, Copy, Debug, Serialize, Deserialize, PartialEq, Eq, Hash, PartialOrd, Ord)]
pub enum Act {
    /// request: id index, destination index, sealing, payload shape (0 empty body, 1 SOFTWARE .. FINGERPRINT)
    Send { id: u8, dest: u8, seal: Seal, shape: u8 },
    /// kind 1 indication, 2 success response, 3 error response
    SendOther { kind: u8, dest: u8 },
    Poll { when: When, order: u8 },
    Tick { ms: u32 },
    /// class 2 success / 3 error
    Resp { id: u8, class: u8, auth: Auth, from: u8 },
    /// class 0 request / 1 indication
    Incoming { class: u8, id: u8, from: u8 },
    Cancel { id: u8 },
    CancelRtx { id: u8 },
    Configure { id: u8, cfg: u8 },
    SetRemote { key: u8 },
    /// set_local_credentials (the statements give it no effect on any reply)
    SetLocal { key: u8 },
    /// only as the very first step: the agent is built with `.remote_addr(peer(remote))`
    Rebuild { remote: u8 },
}

/// (initial rto ms, retransmits, last retransmit timeout ms): 5 named configurations used by the
/// state-space slices, followed by the grid of the schedule sweep (6 x 9 x 4).
pub const N_NAMED_CFGS: usize = 5;
pub const GRID_RTO: [u64; 6] = [1, 37, 499, 500, 3000, 60_000];
pub const GRID_LAST: [u64; 4] = [0, 1, 7777, 60_000];
/// Configurations with more retransmissions than the grid's 0..=8 (the statement puts no bound on them).
pub const EXTRA_CFGS: [(u64, u32, u64); 8] = [(100, 9, 1600), (100, 10, 1600), (1, 12, 0), (37, 16, 7777), (500, 9, 500), (3, 20, 60_000), (1, 31, 1), (250, 11, 0)];
pub fn n_cfgs() -> usize {
    N_NAMED_CFGS + GRID_RTO.len() * 9 * GRID_LAST.len() + EXTRA_CFGS.len()
}
pub fn cfg(i: u8) -> (u64, u32, u64) {
    const NAMED: [(u64, u32, u64); 5] = [(1, 0, 0), (7, 3, 0), (500, 1, 300), (1000, 2, 10_000), (60_000, 8, 60_000)];
    let i = i as usize;
    if i < N_NAMED_CFGS {
        return NAMED[i];
    }
    let j = i - N_NAMED_CFGS;
    if j >= GRID_RTO.len() * 9 * GRID_LAST.len() {
        return EXTRA_CFGS[j - GRID_RTO.len() * 9 * GRID_LAST.len()];
    }
    let last = GRID_LAST[j % GRID_LAST.len()];
    let n = (j / GRID_LAST.len()) % 9;
    let rto = GRID_RTO[j / (GRID_LAST.len() * 9)];
    (rto, n as u32, last)
}
pub const FAR_MS: i64 = 10_000_000;

#[derive(Clone, Copy, Debug, Serialize, Deserialize, PartialEq, Eq, Hash)]
pub struct Step {
    pub act: Act,
    /// model time (ms after BASE) at which the call is made
    pub now: i64,
}

/// Reference serialisation of the request the harness hands to `send` (never the library's).
/// shape 2: more attributes than any inline capacity of the builder before the sealing attributes
pub const MANY_ATTRS: usize = 18;

/// (the high nibble of `shape` says how the builder reaches `send`: 0 as built, 1 through into_owned(),
/// 2 through clone(), 3 through clone_from() into a builder that held other things - the bytes are the same)
pub fn request_wire(id: u8, seal: Seal, shape: u8) -> Vec<u8> {
    let shape = shape & 0x0F;
    let mut b = wire::encode_header(0, 1, tid(id), 0);
    if shape == 1 {
        wire::append_raw(&mut b, 0x8022, b"vcheck");
    }
    if shape == 2 {
        for i in 0..MANY_ATTRS {
            wire::append_raw(&mut b, 0xC001 + i as u16, &[i as u8]);
        }
    }
    let key = key_text(0).as_bytes();
    match seal {
        Seal::None => {}
        Seal::Sha1 => wire::append_mi(&mut b, key),
        Seal::Sha256 => wire::append_mi256(&mut b, key, 32),
        Seal::Both => {
            wire::append_mi(&mut b, key);
            wire::append_mi256(&mut b, key, 32);
        }
    }
    if shape == 1 {
        wire::append_fp(&mut b);
    }
    b
}

/// kind 9: not a STUN message at all but application data handed to `send_data`
pub const DATA_KIND: u8 = 9;
pub const DATA_PAYLOAD: &[u8] = b"\x00\x01\x00\x08vcheck application data\xff";

pub fn other_wire(kind: u8) -> Vec<u8> {
    if kind == DATA_KIND {
        return DATA_PAYLOAD.to_vec();
    }
    // kinds 4 / 5: a success / an error response that answers the request which `Act::Incoming` delivers
    // when no request of our own is outstanding (transaction id tid(3)), with different contents
    if kind == 4 || kind == 5 {
        let mut b = wire::encode_header(kind - 2, 1, tid(3), 0);
        wire::append_raw(&mut b, 0x8022, if kind == 4 { b"answer one" } else { b"the other answer" });
        return b;
    }
    let mut b = wire::encode_header(kind, 1, tid(3) ^ 0x5555, 0);
    wire::append_raw(&mut b, 0x8022, b"oth");
    b
}

/// Reference-built response / incoming message bytes.
/// Response flavours (the `class` of `Act::Resp`): 2 success and 3 error with a SOFTWARE attribute;
/// 4 = 401 Unauthorized with REALM and NONCE (the long-term credential challenge), 5 = 438 Stale
/// Nonce with REALM and NONCE, 6 = 300 Try Alternate with ALTERNATE-SERVER, 7 = success with
/// XOR-MAPPED-ADDRESS, 8 = 420 Unknown Attribute with UNKNOWN-ATTRIBUTES, 9 / 10 = success / 500 with comprehension-required attributes unknown to the library.  What a response says
/// never changes what the agent does with it.
/// 11 / 12 / 13 = a success response of method 0x003, an error response of method 0xFFF, a success response
/// of method 0x002 - under the id of a Binding request (the agent matches responses by transaction id).
pub const RESP_FLAVOURS: [u8; 10] = [4, 5, 6, 7, 8, 9, 10, 11, 12, 13];
pub fn response_wire(id: u8, class: u8, auth: Auth) -> Vec<u8> {
    let wire_class = if matches!(class, 2 | 7 | 9 | 11 | 13) { 2 } else { 3 };
    let method = match class {
        11 => 0x003,
        12 => 0xFFF,
        13 => 0x002,
        _ => 1,
    };
    let mut b = wire::encode_header(wire_class, method, tid(id), 0);
    let err = |b: &mut Vec<u8>, code: u16, reason: &str| {
        let mut v = vec![0, 0, (code / 100) as u8, (code % 100) as u8];
        v.extend_from_slice(reason.as_bytes());
        wire::append_raw(b, 0x0009, &v);
    };
    match class {
        4 | 5 => {
            if class == 4 {
                err(&mut b, 401, "Unauthorized");
            } else {
                err(&mut b, 438, "Stale Nonce");
            }
            wire::append_raw(&mut b, 0x0014, b"lt.realm");
            wire::append_raw(&mut b, 0x0015, b"obMatJos2AAACf//499k954d6OL34oL9FSTvy64sA");
        }
        6 => {
            err(&mut b, 300, "Try Alternate");
            // ALTERNATE-SERVER names peer 4 of the universe (10.0.0.9:2000), so that its validation state is observed
            wire::append_raw(&mut b, 0x8023, &[0, 1, 0x07, 0xD0, 10, 0, 0, 9]);
        }
        // XOR-MAPPED-ADDRESS names peer 3 of the universe (10.0.0.2:2001)
        7 => wire::append_raw(&mut b, 0x0020, &[0, 1, 0x21 ^ 0x07, 0x12 ^ 0xD1, 0x21 ^ 10, 0x12, 0xA4, 0x42 ^ 2]),
        // 9 / 10: a success / an error response carrying comprehension-required attributes the library
        // has no name for (SOURCE-ADDRESS, CHANGED-ADDRESS, LIFETIME, XOR-RELAYED-ADDRESS, 0x7F00)
        9 | 10 => {
            if class == 10 {
                err(&mut b, 500, "Server Error");
            }
            wire::append_raw(&mut b, 0x0004, &[0, 1, 0x0D, 0x96, 192, 0, 2, 1]);
            wire::append_raw(&mut b, 0x0005, &[0, 1, 0x0D, 0x97, 192, 0, 2, 2]);
            wire::append_raw(&mut b, 0x000D, &[0, 0, 2, 88]);
            wire::append_raw(&mut b, 0x0016, &[0, 1, 0x21 ^ 0x12, 0x12 ^ 0x34, 0x21 ^ 10, 0x12, 0xA4, 0x42 ^ 9]);
            wire::append_raw(&mut b, 0x7F00, &[]);
        }
        8 => {
            err(&mut b, 420, "Unknown Attribute");
            wire::append_raw(&mut b, 0x000A, &[0xC0, 0x01, 0x00, 0x30]);
        }
        _ => wire::append_raw(&mut b, 0x8022, b"srv"),
    }
    match auth {
        Auth::None => {}
        Auth::Sha1(k) => wire::append_mi(&mut b, &key_bytes(k)),
        Auth::Sha256(k) => wire::append_mi256(&mut b, &key_bytes(k), 32),
        Auth::Both(k) => {
            wire::append_mi(&mut b, &key_bytes(k));
            wire::append_mi256(&mut b, &key_bytes(k), 32);
        }
        Auth::MixedSha1Good(k) => {
            wire::append_mi(&mut b, &key_bytes(k));
            wire::append_mi256(&mut b, b"somebody else's key", 32);
        }
        Auth::MixedSha256Good(k) => {
            wire::append_mi(&mut b, b"somebody else's key");
            wire::append_mi256(&mut b, &key_bytes(k), 32);
        }
        Auth::Sha1WireLenFp(k) | Auth::Sha256WireLenFp(k) => {
            let sha1 = matches!(auth, Auth::Sha1WireLenFp(_));
            let alen = if sha1 { 24 } else { 36 };
            let mut pre = b.clone();
            wire::set_len(&mut pre, b.len() - 20 + alen + 8);
            let h: Vec<u8> = if sha1 { crate::refimpl::crypto::hmac_sha1(&key_bytes(k), &pre).to_vec() } else { crate::refimpl::crypto::hmac_sha256(&key_bytes(k), &pre).to_vec() };
            wire::append_raw(&mut b, if sha1 { wire::MI } else { wire::MI256 }, &h);
            wire::append_fp(&mut b);
        }
        Auth::Sha256Trunc(k) => wire::append_mi256(&mut b, &key_bytes(k), 16),
        Auth::Sha256Len(k, n) => {
            if n <= 32 {
                wire::append_mi256(&mut b, &key_bytes(k), n as usize)
            } else {
                // longer than the hash: the 32 bytes of the HMAC followed by zeros
                let off = b.len();
                let mut pre = b.clone();
                wire::set_len(&mut pre, off - 20 + 4 + (n as usize + 3) / 4 * 4);
                let mut h = crate::refimpl::crypto::hmac_sha256(&key_bytes(k), &pre).to_vec();
                h.resize(n as usize, 0);
                wire::append_raw(&mut b, wire::MI256, &h);
            }
        }
        Auth::Sha256Flipped(k) => {
            wire::append_mi256(&mut b, &key_bytes(k), 32);
            let l = b.len();
            b[l - 19] ^= 0x40;
        }
        Auth::Sha1Flipped(k) => {
            wire::append_mi(&mut b, &key_bytes(k));
            let l = b.len();
            b[l - 7] ^= 0x04;
        }
    }
    b
}

/// Incoming flavours (the `class` of `Act::Incoming`): 0 request, 1 indication; 4 = request signed
/// (SHA-1) with the agent's local key, 5 = indication signed (SHA-256) with an unrelated key,
/// 6 = request signed (SHA-1) with remote key R1, 7 = request signed with R1 and fingerprinted.  The
/// agent hands every request / indication over and validates its source whatever it is signed with:
/// authenticating requests is the caller's business (C15: "has been handed a request or
/// indication received from a").
pub fn incoming_wire(class: u8, id: u8) -> Vec<u8> {
    let wire_class = if class == 1 || class == 5 { 1 } else { 0 };
    let mut b = wire::encode_header(wire_class, 1, tid(id), 0);
    wire::append_raw(&mut b, 0x0024, &[0, 0, 0, 9]);
    match class {
        4 => wire::append_mi(&mut b, &key_bytes(0)),
        5 => wire::append_mi256(&mut b, b"somebody else's key", 32),
        6 => wire::append_mi(&mut b, &key_bytes(1)),
        7 => {
            wire::append_mi(&mut b, &key_bytes(1));
            wire::append_fp(&mut b);
        }
        _ => {}
    }
    b
}

#[derive(Clone, Debug, PartialEq, Eq)]
pub enum Obs {
    /// `send` returned Ok(Transmit)
    Sent { data: Vec<u8>, from: SocketAddr, to: SocketAddr, tcp: bool },
    SendRefused(String),
    PollSend { data: Vec<u8>, from: SocketAddr, to: SocketAddr, tcp: bool },
    PollTimedOut(u128),
    PollCancelled(u128),
    /// nanoseconds after BASE
    PollWait(i128),
    Response,
    IncomingStun,
    Drop,
    /// handle-less calls (cancel, configure, set credentials, tick)
    Done,
    NoSuchRequest,
    /// harness could not even parse its own message with the library (C02 matter)
    Unparsable(String),
}

#[derive(Clone, Debug, PartialEq, Eq)]
pub struct Post {
    pub live: [bool; N_IDS],
    pub peer: [Option<SocketAddr>; N_IDS],
    pub validated: [bool; N_ADDRS],
    pub remote_creds_set: bool,
    pub local_creds_set: bool,
    pub remote_addr: Option<SocketAddr>,
    pub local_addr: SocketAddr,
    pub tcp: bool,
}

/// What a `Transmit` says, read through `data()` and the public fields, and once more after
/// `into_owned()`; if the owned copy says anything else, its version is what gets compared with the
/// reference (and fails there).
fn sent_obs(t: Transmit<'_>, from_poll: bool) -> Obs {
    let mut data = t.data().to_vec();
    let (mut from, mut to, mut tcp) = (t.from, t.to, t.transport == TransportType::Tcp);
    let o: Transmit<'static> = t.into_owned();
    if o.data() != &data[..] || o.from != from || o.to != to || (o.transport == TransportType::Tcp) != tcp {
        data = o.data().to_vec();
        from = o.from;
        to = o.to;
        tcp = o.transport == TransportType::Tcp;
    }
    let again = Transmit::new_owned(o.data(), o.transport, o.from, o.to);
    if again.data() != &data[..] {
        data = again.data().to_vec();
    }
    if from_poll {
        Obs::PollSend { data, from, to, tcp }
    } else {
        Obs::Sent { data, from, to, tcp }
    }
}

pub struct Real {
    pub agent: StunAgent,
    pub base: Instant,
}

pub fn base_instant() -> Instant {
    use std::sync::OnceLock;
    static BASE: OnceLock<Instant> = OnceLock::new();
    *BASE.get_or_init(|| Instant::now() + Duration::from_secs(100_000))
}

impl Real {
    pub fn new(tcp: bool, base: Instant) -> Real {
        let t = if tcp { TransportType::Tcp } else { TransportType::Udp };
        Real { agent: StunAgent::builder(t, local_addr()).build(), base }
    }

    pub fn at(&self, ms: i64) -> Instant {
        if ms >= 0 {
            self.base + Duration::from_millis(ms as u64)
        } else {
            self.base - Duration::from_millis((-ms) as u64)
        }
    }

    fn rel_ns(&self, i: Instant) -> i128 {
        if i >= self.base {
            (i - self.base).as_nanos() as i128
        } else {
            -((self.base - i).as_nanos() as i128)
        }
    }

    pub fn post(&self) -> Post {
        let mut live = [false; N_IDS];
        let mut peers = [None; N_IDS];
        for i in 0..N_IDS {
            if let Some(r) = self.agent.request_transaction(tid(i as u8).into()) {
                live[i] = true;
                peers[i] = Some(r.peer_address());
            }
        }
        let mut validated = [false; N_ADDRS];
        for (i, v) in validated.iter_mut().enumerate() {
            *v = self.agent.is_validated_peer(peer(i as u8));
        }
        Post {
            live,
            peer: peers,
            validated,
            remote_creds_set: self.agent.remote_credentials().is_some(),
            local_creds_set: self.agent.local_credentials().is_some(),
            remote_addr: self.agent.remote_addr(),
            local_addr: self.agent.local_addr(),
            tcp: self.agent.transport() == TransportType::Tcp,
        }
    }

    pub fn exec(&mut self, step: &Step) -> Obs {
        let now = self.at(step.now);
        match step.act {
            Act::Send { id, dest, seal, shape } => {
                let provenance = shape >> 4;
                let shape = shape & 0x0F;
                let sw = Software::new("vcheck").unwrap();
                let mut b = Message::builder(MessageType::from_class_method(MessageClass::Request, BINDING), tid(id).into());
                if shape == 1 {
                    b.add_attribute(&sw).unwrap();
                }
                let many: Vec<[u8; 1]> = (0..MANY_ATTRS).map(|i| [i as u8]).collect();
                if shape == 2 {
                    for (i, v) in many.iter().enumerate() {
                        b.add_raw_attribute(RawAttribute::new(AttributeType::new(0xC001 + i as u16), v)).unwrap();
                    }
                }
                let c = creds(0);
                match seal {
                    Seal::None => {}
                    Seal::Sha1 => b.add_message_integrity(&c, IntegrityAlgorithm::Sha1).unwrap(),
                    Seal::Sha256 => b.add_message_integrity(&c, IntegrityAlgorithm::Sha256).unwrap(),
                    Seal::Both => {
                        b.add_message_integrity(&c, IntegrityAlgorithm::Sha1).unwrap();
                        b.add_message_integrity(&c, IntegrityAlgorithm::Sha256).unwrap();
                    }
                }
                if shape == 1 {
                    b.add_fingerprint().unwrap();
                }
                let b = match provenance {
                    1 => b.into_owned(),
                    2 => b.clone(),
                    3 => {
                        let mut other = Message::builder(MessageType::from_class_method(MessageClass::Indication, 0x0FF), (tid(id) ^ 0x3333).into());
                        let _ = other.add_raw_attribute(RawAttribute::new(AttributeType::new(0xC0F0), b"other").into_owned());
                        let _ = other.add_fingerprint();
                        other.clone_from(&b);
                        other
                    }
                    _ => b,
                };
                match self.agent.send(b, peer(dest), now) {
                    Ok(t) => sent_obs(t, false),
                    Err(e) => Obs::SendRefused(format!("{e:?}")),
                }
            }
            Act::SendOther { kind, dest } if kind == DATA_KIND => {
                let t = self.agent.send_data(DATA_PAYLOAD, peer(dest));
                sent_obs(t, false)
            }
            Act::SendOther { kind, dest } => {
                let sw = Software::new(match kind {
                    4 => "answer one",
                    5 => "the other answer",
                    _ => "oth",
                })
                .unwrap();
                let class = match kind {
                    1 => MessageClass::Indication,
                    2 | 4 => MessageClass::Success,
                    _ => MessageClass::Error,
                };
                let idv = if kind >= 4 { tid(3) } else { tid(3) ^ 0x5555 };
                let mut b = Message::builder(MessageType::from_class_method(class, BINDING), idv.into());
                b.add_attribute(&sw).unwrap();
                match self.agent.send(b, peer(dest), now) {
                    Ok(t) => sent_obs(t, false),
                    Err(e) => Obs::SendRefused(format!("{e:?}")),
                }
            }
            Act::Poll { order, .. } => {
                stun_proto::verif::set_iteration_choice(order as usize);
                let r = self.agent.poll(now);
                stun_proto::verif::set_iteration_choice(0);
                match r {
                    StunAgentPollRet::SendData(t) => sent_obs(t, true),
                    StunAgentPollRet::TransactionTimedOut(t) => Obs::PollTimedOut(t.into()),
                    StunAgentPollRet::TransactionCancelled(t) => Obs::PollCancelled(t.into()),
                    StunAgentPollRet::WaitUntil(i) => Obs::PollWait(self.rel_ns(i)),
                }
            }
            Act::Tick { .. } => Obs::Done,
            Act::Resp { id, class, auth, from } => {
                let bytes = response_wire(id, class, auth);
                self.handle(&bytes, from)
            }
            Act::Incoming { class, id, from } => {
                let bytes = incoming_wire(class, id);
                self.handle(&bytes, from)
            }
            Act::Cancel { id } => match self.agent.mut_request_transaction(tid(id).into()) {
                Some(mut r) => {
                    r.cancel();
                    Obs::Done
                }
                None => Obs::NoSuchRequest,
            },
            Act::CancelRtx { id } => match self.agent.mut_request_transaction(tid(id).into()) {
                Some(mut r) => {
                    r.cancel_retransmissions();
                    Obs::Done
                }
                None => Obs::NoSuchRequest,
            },
            Act::Configure { id, cfg } => match self.agent.mut_request_transaction(tid(id).into()) {
                Some(mut r) => {
                    let (rto, n, last) = crate::agent::cfg(cfg);
                    r.configure_timeout(Duration::from_millis(rto), n, Duration::from_millis(last));
                    Obs::Done
                }
                None => Obs::NoSuchRequest,
            },
            Act::SetRemote { key } => {
                self.agent.set_remote_credentials(creds(key));
                Obs::Done
            }
            Act::SetLocal { key } => {
                self.agent.set_local_credentials(creds(key));
                Obs::Done
            }
            Act::Rebuild { remote } => {
                let t = self.agent.transport();
                self.agent = StunAgent::builder(t, local_addr()).remote_addr(peer(remote)).build();
                Obs::Done
            }
        }
    }

    fn handle(&mut self, bytes: &[u8], from: u8) -> Obs {
        match Message::from_bytes(bytes) {
            Err(e) => Obs::Unparsable(format!("{e:?}")),
            Ok(msg) => match self.agent.handle_stun(msg, peer(from)) {
                HandleStunReply::StunResponse(m) => {
                    let _ = m;
                    Obs::Response
                }
                HandleStunReply::IncomingStun(m) => {
                    let _ = m;
                    Obs::IncomingStun
                }
                HandleStunReply::Drop => Obs::Drop,
            },
        }
    }
}
