pub mod spec;
