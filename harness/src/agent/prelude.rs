//! C20 prelude: before the C20 exploration starts, *unrelated* agents are driven on the main thread
//! and on every pool thread, so that anything the library keeps outside the agent under test
//! (process-wide or per-thread caches, counters, scratch buffers) is already populated by somebody
//! else's history: the universe's transaction ids towards other peers with other payloads, other
//! credentials under the same names, responses and incoming requests, and every named timing
//! configuration with a sub-millisecond offset (x.4, x.5, x.9 ms) driven to its time-out.  A breach
//! of the reference model in the polluted process that a pristine child process does not show on the
//! same history is then a C20 violation (see main.rs).
use super::*;
use crate::common::guarded;
use std::time::Duration;

fn drive(r: &mut Real, polls: usize) {
    let mut now_ms: i64 = 0;
    for _ in 0..polls {
        let now = r.at(now_ms);
        match guarded(|| r.agent.poll(now)) {
            Ok(StunAgentPollRet::WaitUntil(i)) => {
                if i <= now {
                    break;
                }
                let d = (i - r.base).as_millis() as i64 + 1;
                if d > 4_000_000_000 {
                    break;
                }
                now_ms = d;
            }
            Ok(_) => {}
            Err(_) => break,
        }
    }
}

pub fn pollute_thread() {
    for tcp in [false, true] {
        // sub-millisecond variants of every named configuration, each driven to its time-out
        for c in 0..N_NAMED_CFGS as u8 {
            for frac_us in [400u64, 500, 900] {
                let mut r = Real::new(tcp, base_instant() + Duration::from_millis(7_200_000));
                let _ = guarded(|| r.exec(&Step { act: Act::Send { id: 0, dest: 3, seal: Seal::None, shape: 1 }, now: 0 }));
                let (rto, n, last) = cfg(c);
                let _ = guarded(|| {
                    if let Some(mut q) = r.agent.mut_request_transaction(tid(0).into()) {
                        q.configure_timeout(Duration::from_micros(rto * 1000 + frac_us), n, Duration::from_micros(last * 1000 + frac_us));
                    }
                });
                drive(&mut r, 40);
            }
        }
        // the universe's ids, peers and credentials in somebody else's hands
        let mut r = Real::new(tcp, base_instant() + Duration::from_millis(3_600_000));
        let _ = guarded(|| r.exec(&Step { act: Act::SetLocal { key: 2 }, now: 0 }));
        let _ = guarded(|| r.exec(&Step { act: Act::SetRemote { key: 2 }, now: 0 }));
        for id in 0..N_IDS as u8 {
            let dest = (id + 3) % N_ADDRS as u8;
            let _ = guarded(|| r.exec(&Step { act: Act::Send { id, dest, seal: Seal::Sha256, shape: 2 }, now: id as i64 }));
            let _ = guarded(|| r.exec(&Step { act: Act::Configure { id, cfg: 4 }, now: id as i64 }));
        }
        for id in 0..N_IDS as u8 {
            let from = (id + 3) % N_ADDRS as u8;
            let _ = guarded(|| r.exec(&Step { act: Act::Incoming { class: 0, id, from }, now: 10 }));
            if id % 2 == 0 {
                let _ = guarded(|| r.exec(&Step { act: Act::Resp { id, class: 2, auth: Auth::Sha256(2), from }, now: 11 }));
            } else if id % 3 == 0 {
                let _ = guarded(|| r.exec(&Step { act: Act::Cancel { id }, now: 11 }));
            }
        }
        drive(&mut r, 200);
    }
}

/// Runs `pollute_thread` on the calling thread and on every thread of the global pool.
pub fn pollute_process() {
    pollute_thread();
    rayon::broadcast(|_| pollute_thread());
}
