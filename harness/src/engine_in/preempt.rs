//! Controlled interleaving of two library operations at the library's own tracing call sites.
//!
//! The library is instrumented with `tracing` (spans on its public functions, events inside them).
//! Every such call site is a point at which this scheduler can stop the thread that runs operation A,
//! run operation B to completion on another thread, and let A continue: all single-preemption
//! interleavings of A and B at A's tracing points are enumerated, for real code, without sampling.
//! Both operations are functions of their arguments, so each must give the result it gives alone.
//! What the scheduler cannot see are interleavings between two tracing points (there is no other
//! scheduling hook in the library); those are only met by chance in the parallel sweeps.
use std::cell::{Cell, RefCell};
use std::sync::mpsc;
use std::time::Duration;
use tracing::span::{Attributes, Id, Record};
use tracing::{Event, Metadata};

thread_local! {
    /// (target point, points seen so far); None = this thread is not under the scheduler
    static ACTIVE: Cell<Option<(usize, usize)>> = const { Cell::new(None) };
    static HOOK: RefCell<Option<Box<dyn FnOnce()>>> = const { RefCell::new(None) };
}

fn point() {
    let fire = ACTIVE.with(|a| match a.get() {
        Some((target, seen)) => {
            a.set(Some((target, seen + 1)));
            seen == target
        }
        None => false,
    });
    if fire {
        if let Some(h) = HOOK.with(|h| h.borrow_mut().take()) {
            h();
        }
    }
}

struct Points;
impl tracing::Subscriber for Points {
    fn enabled(&self, _: &Metadata<'_>) -> bool {
        true
    }
    fn new_span(&self, _: &Attributes<'_>) -> Id {
        point();
        Id::from_u64(1)
    }
    fn record(&self, _: &Id, _: &Record<'_>) {}
    fn record_follows_from(&self, _: &Id, _: &Id) {}
    fn event(&self, _: &Event<'_>) {
        point();
    }
    fn enter(&self, _: &Id) {
        point();
    }
    fn exit(&self, _: &Id) {
        point();
    }
}

/// Number of tracing points operation `a` passes through.
pub fn count_points<R>(a: impl FnOnce() -> R) -> (usize, R) {
    let d = tracing::Dispatch::new(Points);
    ACTIVE.with(|x| x.set(Some((usize::MAX, 0))));
    let r = tracing::dispatcher::with_default(&d, a);
    let n = ACTIVE.with(|x| x.take()).map(|(_, seen)| seen).unwrap_or(0);
    (n, r)
}

/// Runs `a` on this thread; when it reaches its `k`-th tracing point, `b` runs to completion on
/// another thread (3 s at most: if `b` blocks on something `a` holds, `a` goes on and `b` finishes
/// afterwards), then `a` continues.  Returns both results (`None` for `b` if it had not finished).
pub fn interleave<RA, RB: Send + 'static>(k: usize, a: impl FnOnce() -> RA, b: impl FnOnce() -> RB + Send + 'static) -> (RA, Option<RB>) {
    let (tx, rx) = mpsc::channel::<RB>();
    let (done_tx, done_rx) = mpsc::channel::<()>();
    HOOK.with(|h| {
        *h.borrow_mut() = Some(Box::new(move || {
            let _ = std::thread::Builder::new().stack_size(1 << 20).spawn(move || {
                let r = b();
                let _ = tx.send(r);
                let _ = done_tx.send(());
            });
            let _ = done_rx.recv_timeout(Duration::from_secs(3));
        }));
    });
    let d = tracing::Dispatch::new(Points);
    ACTIVE.with(|x| x.set(Some((k, 0))));
    let ra = tracing::dispatcher::with_default(&d, a);
    ACTIVE.with(|x| x.set(None));
    let fired = HOOK.with(|h| h.borrow_mut().take()).is_none();
    let rb = if fired { rx.recv_timeout(Duration::from_secs(5)).ok() } else { None };
    (ra, rb)
}
