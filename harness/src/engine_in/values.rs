//! Value alphabets of the 19 built-in attribute types (decode side: raw value byte strings;
//! encode side: constructible values, given as their reference wire encoding).

use crate::common::Tier;
use crate::refimpl::attrs::{Kind, ALL_KINDS};

/// Type codes used for "wrong implementation" probes: the 19 built-ins + MAPPED-ADDRESS + two unknowns
pub fn type_universe() -> Vec<u16> {
    let mut v: Vec<u16> = ALL_KINDS.iter().map(|k| k.code()).collect();
    v.extend([0x0001, 0x7F00, 0xFF00]);
    v
}

fn utf8_patterns(len: usize) -> Vec<Vec<u8>> {
    // content patterns for a value of exactly `len` bytes
    let mut out: Vec<Vec<u8>> = vec![vec![0x00; len], vec![0xFF; len], vec![b'a'; len]];
    for unit in ["\u{e9}", "\u{2603}", "\u{1F600}"] {
        // complete multi-byte sequences, filled up with 'a', and the same cut at each byte
        let u = unit.as_bytes();
        let mut v = Vec::new();
        while v.len() + u.len() <= len {
            v.extend_from_slice(u);
        }
        let complete = v.clone();
        let mut padded = complete.clone();
        while padded.len() < len {
            padded.insert(0, b'a');
        }
        out.push(padded);
        // cut: a sequence that ends in the middle of a character
        if len >= 1 {
            for cut in 1..u.len() {
                if cut <= len {
                    let mut c = vec![b'a'; len - cut];
                    c.extend_from_slice(&u[..cut]);
                    out.push(c);
                }
            }
        }
    }
    if len >= 1 {
        for pos in [0, len / 2, len - 1] {
            let mut v = vec![b'a'; len];
            v[pos] = 0x80; // lone continuation byte
            out.push(v);
        }
    }
    // all-multi-byte texts in every phase: j ASCII bytes, then the unit repeated, so that for one of
    // the phases any fixed byte offset >= j falls inside a character (code that slices a text at a
    // byte offset shows here)
    out.extend(phase_texts(len));
    out.sort();
    out.dedup();
    out
}

/// valid UTF-8 of exactly `len` bytes made of `j` ASCII bytes followed by one multi-byte unit
/// repeated (and ASCII filling at the very end where the unit does not fit), for every phase j
pub fn phase_texts(len: usize) -> Vec<Vec<u8>> {
    let mut out = Vec::new();
    for unit in ["\u{e9}", "\u{2603}", "\u{1F600}"] {
        let u = unit.as_bytes();
        for j in 0..u.len() {
            if j > len {
                continue;
            }
            let mut v = vec![b'a'; j];
            while v.len() + u.len() <= len {
                v.extend_from_slice(u);
            }
            while v.len() < len {
                v.push(b'z');
            }
            out.push(v);
        }
    }
    out
}

/// Decode-side raw values for kind `k` (beyond the all-short-strings family, which is generated
/// separately): every length 0..=800 x content patterns + type-specific exhaustive parts.
/// Byte sequences from the classic UTF-8 decoder stress test (M. Kuhn) and its relatives: what other
/// encoders produce for the same characters and a strict UTF-8 decoder must refuse - UTF-16 surrogates
/// as 3-byte sequences, alone, in pairs (CESU-8, Java "modified UTF-8") and in the wrong order; overlong
/// forms (C0 80 for NUL among them); code points above U+10FFFF; 5- and 6-byte forms; lone continuation
/// and lead bytes; FE / FF - and the boundary characters that it must accept.
pub fn utf8_stress() -> Vec<Vec<u8>> {
    let mut v: Vec<Vec<u8>> = vec![
        vec![0xED, 0xA0, 0x80], vec![0xED, 0xAD, 0xBF], vec![0xED, 0xAE, 0x80], vec![0xED, 0xAF, 0xBF], vec![0xED, 0xB0, 0x80], vec![0xED, 0xBE, 0x80], vec![0xED, 0xBF, 0xBF],
        vec![0xED, 0xA0, 0xBD, 0xED, 0xB8, 0x80], vec![0xED, 0xA0, 0x80, 0xED, 0xB0, 0x80], vec![0xED, 0xAF, 0xBF, 0xED, 0xBF, 0xBF], vec![0xED, 0xAD, 0xBF, 0xED, 0xB0, 0x80], vec![0xED, 0xB8, 0x80, 0xED, 0xA0, 0xBD],
        vec![0xC0, 0x80], vec![0xC0, 0xAF], vec![0xC1, 0xBF], vec![0xE0, 0x80, 0xAF], vec![0xE0, 0x9F, 0xBF], vec![0xF0, 0x80, 0x80, 0xAF], vec![0xF0, 0x8F, 0xBF, 0xBF],
        vec![0xF4, 0x90, 0x80, 0x80], vec![0xF5, 0x80, 0x80, 0x80], vec![0xF7, 0xBF, 0xBF, 0xBF], vec![0xF8, 0x88, 0x80, 0x80, 0x80], vec![0xFC, 0x84, 0x80, 0x80, 0x80, 0x80],
        vec![0x80], vec![0xBF], vec![0x80, 0xBF], vec![0xC2], vec![0xE2, 0x82], vec![0xF0, 0x9F, 0x98], vec![0xFE], vec![0xFF], vec![0xFE, 0xFE, 0xFF, 0xFF], vec![0xEF, 0xBF],
    ];
    // accepted: the first and last character of every encoded length, noncharacters, the replacement character
    for s in ["\u{0}", "\u{7f}", "\u{80}", "\u{7ff}", "\u{800}", "\u{ffff}", "\u{10000}", "\u{10ffff}", "\u{d7ff}", "\u{e000}", "\u{fffd}", "\u{fdd0}", "\u{1f600}"] {
        v.push(s.as_bytes().to_vec());
    }
    v
}

pub fn decode_values(k: Kind, tier: Tier) -> Vec<Vec<u8>> {
    let mut out: Vec<Vec<u8>> = Vec::new();
    let max_len = 800;
    let text_like = matches!(k, Kind::Username | Kind::Realm | Kind::Nonce | Kind::Software | Kind::AlternateDomain);
    for len in 0..=max_len {
        if text_like {
            out.extend(utf8_patterns(len));
        } else {
            out.push(vec![0x00; len]);
            out.push(vec![0xFF; len]);
            out.push((0..len).map(|i| (i * 7 + 1) as u8).collect());
        }
    }
    if text_like {
        // every text of the encode side (decorated, protocol-meaningful, multi-byte) as a wire value
        for (v, _) in encode_values(k, 1) {
            out.push(v);
        }
        for v in utf8_stress() {
            out.push(v.clone());
            let mut w = b"pjnath ".to_vec();
            w.extend_from_slice(&v);
            out.push(w.clone());
            w.extend_from_slice(b" tail");
            out.push(w);
        }
    }
    match k {
        Kind::ErrorCode => {
            for s in utf8_stress() {
                let mut v = vec![0, 0, 4, 1, b'r', b' '];
                v.extend_from_slice(&s);
                out.push(v);
            }
            for reason in [&b""[..], b"x", &[0xC3u8][..], &[b'a'; 763][..], &[b'a'; 764][..], "\u{2603}".as_bytes(), &[b'a'; 127][..], &[b'a'; 128][..]] {
                for class in 0..=255u8 {
                    for number in 0..=255u8 {
                        let mut v = vec![0, 0, class, number];
                        v.extend_from_slice(reason);
                        out.push(v);
                    }
                }
            }
            // reason phrases made of multi-byte characters in every phase, at several lengths
            for len in [5usize, 33, 64, 65, 66, 67, 100, 129, 200, 257, 300, 511, 762, 763] {
                for t in phase_texts(len) {
                    let mut v = vec![0, 0, 4, 20];
                    v.extend_from_slice(&t);
                    out.push(v);
                }
            }
            // the standard reason phrases, in four spellings, under every code that has one and a few
            // that do not (a decoder that normalises or interns "known" phrases shows here)
            for v in standard_reason_values() {
                out.push(v);
            }
            // reserved leading bytes are ignored
            out.push(vec![0xFF, 0xFF, 4, 0]);
            out.push(vec![0x12, 0x34, 0xFC, 99]);
        }
        Kind::XorMappedAddress | Kind::AlternateServer => {
            for fam in 0..=255u8 {
                for len in [4usize, 7, 8, 9, 19, 20, 21] {
                    for first in [0u8, 0xFF] {
                        let mut v: Vec<u8> = (0..len).map(|i| (i * 13 + 5) as u8).collect();
                        v[0] = first;
                        v[1] = fam;
                        out.push(v);
                    }
                }
            }
        }
        Kind::UnknownAttributes => {
            for len in 0..=9usize {
                out.push((0..len).map(|i| (0x10 + i) as u8).collect());
            }
            // every list of up to 5 entries over three types (repeats, palindromes, runs at either end),
            // with and without a trailing odd byte
            let types: [u16; 3] = [0x0021, 0x8022, 0x0000];
            for n in 0..=5u32 {
                for mut code in 0..3u32.pow(n) {
                    let mut v = Vec::new();
                    for _ in 0..n {
                        v.extend_from_slice(&types[(code % 3) as usize].to_be_bytes());
                        code /= 3;
                    }
                    out.push(v.clone());
                    v.push(0x21);
                    out.push(v);
                }
            }
        }
        Kind::PasswordAlgorithm | Kind::PasswordAlgorithms => {
            let algos: [u16; 5] = [0, 1, 2, 3, 0xFFFF];
            let plens: [u16; 3] = [0, 1, 4];
            let word = |a: u16, p: u16| vec![(a >> 8) as u8, a as u8, (p >> 8) as u8, p as u8];
            let mut words = Vec::new();
            for a in algos {
                for p in plens {
                    words.push(word(a, p));
                }
            }
            let max_list = tier.pick(3, 3);
            let mut lists: Vec<Vec<u8>> = vec![vec![]];
            let mut level: Vec<Vec<u8>> = vec![vec![]];
            for _ in 0..max_list {
                let mut next = Vec::new();
                for l in &level {
                    for w in &words {
                        let mut n = l.clone();
                        n.extend_from_slice(w);
                        next.push(n);
                    }
                }
                lists.extend(next.iter().cloned());
                level = next;
            }
            // parameter bytes present after a word that announces them
            for a in [1u16, 2] {
                let mut v = word(a, 4);
                v.extend_from_slice(&[9, 9, 9, 9]);
                lists.push(v);
                let mut v = word(a, 1);
                v.extend_from_slice(&[9, 0, 0, 0]);
                lists.push(v);
            }
            out.extend(lists);
        }
        Kind::MessageIntegritySha256 => {
            for len in 0..=40usize {
                out.push((0..len).map(|i| (0xC0 + i) as u8).collect());
            }
        }
        _ => {}
    }
    out.sort();
    out.dedup();
    out
}

pub fn standard_reason_values() -> Vec<Vec<u8>> {
    let std: [(u16, &str); 15] = [(301, "Try Alternate"), (400, "Bad Request"), (401, "Unauthorized"), (403, "Forbidden"), (420, "Unknown Attribute"), (437, "Allocation Mismatch"), (438, "Stale Nonce"), (440, "Address Family Not Supported"), (441, "Wrong Credentials"), (442, "Unsupported Transport Protocol"), (443, "Peer Address Family Mismatch"), (486, "Allocation Quota Reached"), (487, "Role Conflict"), (500, "Server Error"), (508, "Insufficient Capacity")];
    let mut out = Vec::new();
    let codes: Vec<u16> = std.iter().map(|(c, _)| *c).chain([300, 404, 699]).collect();
    for code in codes {
        for (_, phrase) in std.iter().chain([(0u16, "Unknown"), (0, "OK")].iter()) {
            let first_cap = {
                let l = phrase.to_lowercase();
                let mut c = l.chars();
                c.next().map(|f| f.to_uppercase().collect::<String>() + c.as_str()).unwrap_or_default()
            };
            for text in [phrase.to_string(), phrase.to_lowercase(), phrase.to_uppercase(), first_cap, format!("{phrase} "), format!("{phrase}."), format!("{code} {phrase}"), format!("{code}  {phrase}"), format!("{code}: {phrase}"), format!("{code}{phrase}"), format!("{phrase} ({code})"), format!("{code}"), format!("{code} "), format!("{} {phrase}", code + 1)] {
                let mut v = vec![0, 0, (code / 100) as u8, (code % 100) as u8];
                v.extend_from_slice(text.as_bytes());
                out.push(v);
            }
        }
    }
    out
}

/// Encode-side values: (kind, reference wire encoding of the value, transaction id).
/// Every value a constructor of the type can be asked to build from the value alphabet,
/// including some just outside the limits (the constructor must then refuse or the value must
/// still round-trip).
pub fn encode_values(k: Kind, seed: u64) -> Vec<(Vec<u8>, u128)> {
    let mut out: Vec<(Vec<u8>, u128)> = Vec::new();
    let t0: u128 = 0x0102_0304_0506_0708_090A_0B0C;
    let tids: [u128; 4] = [0, (1u128 << 96) - 1, 0x2112_A442_2112_A442_2112_A442, (seed as u128) << 17 | 1];
    let mut push = |v: Vec<u8>| out.push((v, t0));
    match k {
        Kind::Username | Kind::Realm | Kind::Nonce | Kind::Software | Kind::AlternateDomain => {
            for len in 0..=770usize {
                push(vec![b'a'; len]);
            }
            for unit in ["\u{e9}", "\u{2603}", "\u{1F600}"] {
                for n in [1usize, 2, 3, 63, 64, 127, 128, 170, 171, 190, 191, 254, 255, 256, 381, 382] {
                    push(unit.repeat(n).into_bytes());
                    push(format!("x{}", unit.repeat(n)).into_bytes());
                }
            }
            // multi-byte texts around the byte / character limits (127/128 characters, 509/513 and 763
            // bytes) in every phase: a limit applied in bytes on one path and in characters (or at a
            // character boundary) on another shows here
            for len in (120usize..=132).chain(376..=388).chain(505..=520).chain(755..=775) {
                for t in phase_texts(len) {
                    push(t);
                }
            }
            push(b"example.org".to_vec());
            for edge in [&b"trailing "[..], b" leading", b"tab\t", b"nul\0", b"\0", b" ", b"a\r\n", b"UPPER lower"] {
                push(edge.to_vec());
            }
            push(b"a:b c\t\"quoted\"".to_vec());
            // decorated texts: code that trims, unquotes or otherwise "cleans" a text on one path shows here
            // texts that mean something to the protocol: the RFC 8489 nonce cookie with well-formed,
            // short and ill-formed security-feature bits, the RFC 5769 vectors, user:realm:pass shapes,
            // host names, IP literals, reason phrases, percent / base64 / hex looking values
            for d in [
                "obMatJos2", "obMatJos2A", "obMatJos2AAA", "obMatJos2AAAA", "obMatJos2AAAC", "obMatJos2gAAA", "obMatJos2////", "obMatJos2-_==", "obMatJos2AAA=", "obMatJos2AAA\u{e9}",
                "obMatJos2AAACf//499k954d6OL34oL9FSTvy64sA", "obMatJos2.session.5f3a", "obMatJos", "ObMatJos2AAAA", " obMatJos2AAAA", "f//499k954d6OL34oL9FSTvy64sA",
                "STUN test client", "test vector", "evtj:h6vY", "\u{30DE}\u{30C8}\u{30EA}\u{30C3}\u{30AF}\u{30B9}", "example.org", "user:realm:pass", "user:", ":", "a::b",
                "anonymous", "192.0.2.1", "[2001:db8::1]", "[::1]:3478", "stun.example.org.", "xn--nxasmq6b.example", "EXAMPLE.ORG", "example..org", "-example.org", "localhost",
                "Unauthorized", "Stale Nonce", "Try Alternate", "Unknown Attribute", "Bad Request", "Server Error", "%41%00", "dGVzdA==", "0x8022", "\\", "a\\\"b", "null", "None", "true",
            ] {
                push(d.as_bytes().to_vec());
            }
            for d in ["\"quoted\"", "\"\"", "\"", "'single'", " padded ", "trailing.", "MiXeD Case", "\"a\"b\"", "<angle>", "with\u{a0}nbsp", "\u{feff}bom", "e\u{301}combining"] {
                push(d.as_bytes().to_vec());
            }
        }
        Kind::MessageIntegrity => {
            for p in [0x00u8, 0xFF, 0x5A] {
                push(vec![p; 20]);
            }
            push((0..20).collect());
        }
        Kind::MessageIntegritySha256 => {
            for len in 0..=40usize {
                push((0..len as u8).collect());
            }
        }
        Kind::Userhash => {
            for p in [0x00u8, 0xFF] {
                push(vec![p; 32]);
            }
            push((0..32).collect());
        }
        Kind::Fingerprint => {
            for v in [[0u8; 4], [0xFF; 4], [0x53, 0x54, 0x55, 0x4E], [1, 2, 3, 4]] {
                push(v.to_vec());
            }
            for bit in 0..32 {
                let x: u32 = 1 << bit;
                push(x.to_be_bytes().to_vec());
            }
        }
        Kind::ErrorCode => {
            for code in 0..=1100u16 {
                for reason in ["", "x", "Unknown Attributes"] {
                    let mut v = vec![0, 0, (code / 100) as u8, (code % 100) as u8];
                    v.extend_from_slice(reason.as_bytes());
                    push(v);
                }
            }
            for len in [126usize, 127, 128, 509, 510, 762, 763, 764] {
                let mut v = vec![0, 0, 4, 20];
                v.extend(vec![b'r'; len]);
                push(v);
            }
            let mut v = vec![0, 0, 3, 0];
            v.extend("\u{2603}".repeat(127).as_bytes());
            push(v);
            for v in standard_reason_values() {
                push(v);
            }
            // multi-byte reasons around the 763-byte limit (and the 127/128-character one) in every phase
            for len in (120usize..=132).chain(376..=388).chain(505..=515).chain(755..=775) {
                for t in phase_texts(len) {
                    let mut v = vec![0, 0, 5, 0];
                    v.extend_from_slice(&t);
                    push(v);
                }
            }
        }
        Kind::UnknownAttributes => {
            let types: [u16; 4] = [0x0006, 0x7F00, 0x8022, 0xFFFF];
            let mut lists: Vec<Vec<u16>> = vec![vec![]];
            let mut level: Vec<Vec<u16>> = vec![vec![]];
            for _ in 0..4 {
                let mut next = Vec::new();
                for l in &level {
                    for t in types {
                        let mut n = l.clone();
                        n.push(t);
                        next.push(n);
                    }
                }
                lists.extend(next.iter().cloned());
                level = next;
            }
            for l in lists {
                push(l.iter().flat_map(|t| t.to_be_bytes()).collect());
            }
        }
        Kind::PasswordAlgorithm => {
            push(vec![0, 1, 0, 0]);
            push(vec![0, 2, 0, 0]);
        }
        Kind::PasswordAlgorithms => {
            let mut lists: Vec<Vec<u8>> = vec![vec![]];
            let mut level: Vec<Vec<u8>> = vec![vec![]];
            for _ in 0..4 {
                let mut next = Vec::new();
                for l in &level {
                    for a in [1u8, 2] {
                        let mut n = l.clone();
                        n.extend_from_slice(&[0, a, 0, 0]);
                        next.push(n);
                    }
                }
                lists.extend(next.iter().cloned());
                level = next;
            }
            for l in lists {
                push(l);
            }
        }
        Kind::XorMappedAddress | Kind::AlternateServer => {
            let v4: [[u8; 4]; 5] = [[0, 0, 0, 0], [255, 255, 255, 255], [0x21, 0x12, 0xA4, 0x42], [192, 0, 2, 1], [127, 0, 0, 1]];
            let ports: [u16; 6] = [0, 1, 0x2112, 0xFFFF, 32853, 3478];
            drop(push);
            for a in v4 {
                for p in ports {
                    for t in tids {
                        let mut v = vec![0, 1, (p >> 8) as u8, p as u8];
                        v.extend_from_slice(&a);
                        out.push((v, t));
                    }
                }
            }
            let mut v6s: Vec<[u8; 16]> = vec![[0; 16], [0xFF; 16]];
            let mut c = [0u8; 16];
            for (i, b) in c.iter_mut().enumerate() {
                *b = [0x21, 0x12, 0xA4, 0x42][i % 4];
            }
            v6s.push(c);
            v6s.push([0x20, 0x01, 0x0d, 0xb8, 0x12, 0x34, 0x56, 0x78, 0x00, 0x11, 0x22, 0x33, 0x44, 0x55, 0x66, 0x77]);
            for a in v6s {
                for p in ports {
                    for t in tids {
                        let mut v = vec![0, 2, (p >> 8) as u8, p as u8];
                        v.extend_from_slice(&a);
                        out.push((v, t));
                    }
                }
            }
            // special-purpose addresses (code that classifies or canonicalises addresses shows here)
            for txt in ["::", "::1", "::ffff:1.2.3.4", "::ffff:33.18.164.66", "::ffff:255.255.255.255", "::1.2.3.4", "64:ff9b::c000:201", "fe80::1", "ff02::1", "2002:c000:201::", "fc00::", "100::", "0.0.0.0", "255.255.255.255", "127.0.0.1", "224.0.0.1", "169.254.0.1"] {
                let ip: std::net::IpAddr = txt.parse().unwrap();
                for p in [0u16, 3478, 0xFFFF] {
                    for t in [tids[0], tids[3]] {
                        let mut v = match ip {
                            std::net::IpAddr::V4(a) => {
                                let mut v = vec![0, 1, (p >> 8) as u8, p as u8];
                                v.extend_from_slice(&a.octets());
                                v
                            }
                            std::net::IpAddr::V6(a) => {
                                let mut v = vec![0, 2, (p >> 8) as u8, p as u8];
                                v.extend_from_slice(&a.octets());
                                v
                            }
                        };
                        v.shrink_to_fit();
                        out.push((v, t));
                    }
                }
            }
            return out;
        }
        Kind::Priority => {
            push(0u32.to_be_bytes().to_vec());
            push(u32::MAX.to_be_bytes().to_vec());
            for bit in 0..32 {
                push((1u32 << bit).to_be_bytes().to_vec());
            }
        }
        Kind::UseCandidate => push(vec![]),
        Kind::IceControlled | Kind::IceControlling => {
            push(0u64.to_be_bytes().to_vec());
            push(u64::MAX.to_be_bytes().to_vec());
            for bit in 0..64 {
                push((1u64 << bit).to_be_bytes().to_vec());
            }
        }
    }
    out
}

/// Byte-lane walk: for a handful of valid base encodings of kind `k`, every byte position takes all
/// 256 values (one position at a time).  Used on the decode side and, where the result is a
/// representable value, on the encode side.  (value, transaction id)
pub fn lane_walk(k: Kind, seed: u64) -> Vec<(Vec<u8>, u128)> {
    let t0: u128 = 0x0102_0304_0506_0708_090A_0B0C;
    let t1: u128 = ((seed as u128) << 23 | 0x8000_0000_0000_0000_0000_0001) & ((1u128 << 96) - 1);
    let mut bases: Vec<(Vec<u8>, u128)> = Vec::new();
    let mut b = |v: Vec<u8>| bases.push((v, t0));
    match k {
        Kind::Username | Kind::Realm | Kind::Nonce | Kind::Software | Kind::AlternateDomain => {
            b(b"abcd".to_vec());
            b(b"x".to_vec());
            b("\u{e9}\u{e9}".as_bytes().to_vec());
            b(b"a.b-c".to_vec());
            b("\u{2603}z".as_bytes().to_vec());
        }
        Kind::MessageIntegrity => {
            b(vec![0; 20]);
            b((1..=20).collect());
        }
        Kind::MessageIntegritySha256 => {
            b(vec![0; 32]);
            b((1..=16).collect());
            b(vec![0xFF; 24]);
        }
        Kind::Userhash => {
            b(vec![0; 32]);
            b((100..132).collect());
        }
        Kind::Fingerprint | Kind::Priority => {
            b(vec![0; 4]);
            b(vec![0xFF; 4]);
            b(vec![0x12, 0x34, 0x56, 0x78]);
        }
        Kind::ErrorCode => {
            b(vec![0, 0, 4, 20, b'a', b'b']);
            b(vec![0, 0, 3, 0]);
            b(vec![0, 0, 6, 99, 0xC3, 0xA9]);
        }
        Kind::UnknownAttributes => {
            b(vec![0x00, 0x06, 0x7F, 0x00]);
            b(vec![0x80, 0x22]);
            b(vec![0, 1, 0, 2, 0, 3]);
        }
        Kind::PasswordAlgorithm => {
            b(vec![0, 1, 0, 0]);
            b(vec![0, 2, 0, 0]);
        }
        Kind::PasswordAlgorithms => {
            b(vec![0, 1, 0, 0, 0, 2, 0, 0]);
            b(vec![0, 2, 0, 0]);
            b(vec![0, 2, 0, 0, 0, 1, 0, 0, 0, 2, 0, 0]);
        }
        Kind::XorMappedAddress | Kind::AlternateServer => {
            drop(b);
            for t in [t0, t1] {
                bases.push((vec![0, 1, 0x12, 0x34, 192, 0, 2, 1], t));
                bases.push((vec![0, 1, 0, 0, 0, 0, 0, 0], t));
                let mut v6 = vec![0, 2, 0xAB, 0xCD];
                v6.extend_from_slice(&[0x20, 0x01, 0x0d, 0xb8, 0x12, 0x34, 0x56, 0x78, 0x00, 0x11, 0x22, 0x33, 0x44, 0x55, 0x66, 0x77]);
                bases.push((v6, t));
                let mut z6 = vec![0, 2, 0, 0];
                z6.extend_from_slice(&[0xFF; 16]);
                bases.push((z6, t));
            }
        }
        Kind::UseCandidate => {}
        Kind::IceControlled | Kind::IceControlling => {
            b(vec![0; 8]);
            b(vec![0xFF; 8]);
            b(vec![1, 2, 3, 4, 5, 6, 7, 8]);
        }
    }
    let mut out = Vec::new();
    for (base, t) in bases {
        for pos in 0..base.len() {
            for v in 0..=255u8 {
                let mut x = base.clone();
                x[pos] = v;
                out.push((x, t));
            }
        }
    }
    out.sort();
    out.dedup();
    out
}
