//! Engine IN: grammar automaton for STUN buffers + single-fault operators (DESIGN.md §5).

use crate::refimpl::wire;
pub mod preempt;
pub mod prog;
pub mod values;

/// One attribute skeleton of the ordering-relevant alphabet.
#[derive(Clone, Copy, Debug, PartialEq, Eq, Hash)]
pub enum Tok {
    /// unknown comprehension-optional type 0xFF00 with a value of the given length
    Opt(u8),
    /// SOFTWARE with a value of the given length
    Sw(u8),
    /// unknown comprehension-required type 0x7F00
    Req(u8),
    /// USERNAME / PRIORITY (fixed small values) for policing alphabets
    User,
    Prio,
    /// MESSAGE-INTEGRITY with the correct HMAC-SHA1 under the skeleton key
    Mi,
    /// MESSAGE-INTEGRITY-SHA256 truncated to n bytes, correct under the skeleton key
    Mi256(u8),
    /// FINGERPRINT with the correct / an incorrect CRC
    FpOk,
    FpBad,
}

pub const KEY: &[u8] = b"k";

impl Tok {
    pub fn name(self) -> String {
        match self {
            Tok::Opt(n) => format!("OPT{n}"),
            Tok::Sw(n) => format!("SW{n}"),
            Tok::Req(n) => format!("REQ{n}"),
            Tok::User => "USER".into(),
            Tok::Prio => "PRIO".into(),
            Tok::Mi => "MI".into(),
            Tok::Mi256(n) => format!("MI256/{n}"),
            Tok::FpOk => "FP".into(),
            Tok::FpBad => "FPbad".into(),
        }
    }
}

/// Serialise a skeleton with the reference serialiser (never with the library).
pub fn render(class: u8, method: u16, tid: u128, toks: &[Tok]) -> Vec<u8> {
    let mut b = wire::encode_header(class, method, tid, 0);
    for (i, t) in toks.iter().enumerate() {
        match *t {
            Tok::Opt(n) => {
                let v: Vec<u8> = (0..n).map(|j| 0xA0 + (i as u8) * 8 + j).collect();
                wire::append_raw(&mut b, 0xFF00, &v)
            }
            Tok::Req(n) => {
                let v: Vec<u8> = (0..n).map(|j| 0x10 + j).collect();
                wire::append_raw(&mut b, 0x7F00, &v)
            }
            Tok::Sw(n) => {
                let v: Vec<u8> = (0..n).map(|j| b'a' + ((i as u8 * 5 + j) % 26)).collect();
                wire::append_raw(&mut b, 0x8022, &v)
            }
            Tok::User => wire::append_raw(&mut b, 0x0006, b"usr"),
            Tok::Prio => wire::append_raw(&mut b, 0x0024, &[0, 0, 1, 2]),
            Tok::Mi => wire::append_mi(&mut b, KEY),
            Tok::Mi256(n) => wire::append_mi256(&mut b, KEY, n as usize),
            Tok::FpOk => wire::append_fp(&mut b),
            Tok::FpBad => {
                wire::append_fp(&mut b);
                let l = b.len();
                b[l - 1] ^= 1;
            }
        }
    }
    b
}

/// All sequences over `alphabet` of length 0..=max_n, shortest first.
pub fn sequences(alphabet: &[Tok], max_n: usize) -> Vec<Vec<Tok>> {
    let mut out: Vec<Vec<Tok>> = vec![vec![]];
    let mut level: Vec<Vec<Tok>> = vec![vec![]];
    for _ in 0..max_n {
        let mut next = Vec::with_capacity(level.len() * alphabet.len());
        for s in &level {
            for t in alphabet {
                let mut n = s.clone();
                n.push(*t);
                next.push(n);
            }
        }
        out.extend(next.iter().cloned());
        level = next;
    }
    out
}

pub fn full_alphabet() -> Vec<Tok> {
    vec![
        Tok::Opt(0), Tok::Opt(1), Tok::Opt(3), Tok::Opt(4),
        Tok::Sw(0), Tok::Sw(1), Tok::Sw(3), Tok::Sw(4),
        Tok::Mi, Tok::Mi256(32), Tok::FpOk, Tok::FpBad,
    ]
}

pub fn small_alphabet() -> Vec<Tok> {
    vec![Tok::Opt(1), Tok::Sw(3), Tok::Mi, Tok::Mi256(32), Tok::FpOk, Tok::FpBad]
}

/// The skeleton set of a tier: full alphabet to depth `n_full`, small alphabet at depth `n_small`.
pub fn skeletons(n_full: usize, n_small: usize) -> Vec<Vec<Tok>> {
    let mut v = sequences(&full_alphabet(), n_full);
    if n_small > n_full {
        for s in sequences(&small_alphabet(), n_small) {
            if s.len() > n_full {
                v.push(s);
            }
        }
    }
    v
}

/// Offsets of attribute headers in a rendered skeleton (walk by the reference rules).
pub fn attr_offsets(buf: &[u8]) -> Vec<usize> {
    let mut v = Vec::new();
    let mut off = 20;
    while off + 4 <= buf.len() {
        v.push(off);
        let len = wire::be16(&buf[off + 2..off + 4]);
        off += 4 + (len + 3) / 4 * 4;
    }
    v
}

/// Single structural faults of a rendered buffer: (tag, mutated buffer).
pub fn structural_faults(buf: &[u8], emit: &mut dyn FnMut(&'static str, Vec<u8>)) {
    let body = buf.len() - 20;
    // header length perturbations
    let offs = attr_offsets(buf);
    let mut lens: Vec<usize> = vec![body + 1, body + 4, 0];
    if body >= 1 {
        lens.push(body - 1);
    }
    if body >= 4 {
        lens.push(body - 4);
    }
    if let Some(last) = offs.last() {
        lens.push(last - 20); // body minus the last attribute
    }
    lens.sort();
    lens.dedup();
    for l in lens {
        if l != body && l <= 0xFFFF {
            let mut b = buf.to_vec();
            wire::set_len(&mut b, l);
            emit("hdrlen", b);
        }
    }
    // excess bytes: one byte, four zero bytes, one well-formed attribute
    for extra in [vec![0x55u8], vec![0, 0, 0, 0], wire::encode_attr(0xFF01, &[1, 2, 3, 4], 0)] {
        let mut b = buf.to_vec();
        b.extend(extra);
        emit("excess", b);
    }
    // every cut point
    for k in 0..buf.len() {
        emit("cut", buf[..k].to_vec());
    }
    // every cut point inside the body with the header length made consistent with the cut
    // (a body that is not tiled by attributes although the declared length matches)
    for k in 20..buf.len() {
        let mut b = buf[..k].to_vec();
        wire::set_len(&mut b, k - 20);
        emit("cut-consistent", b);
    }
    // 1..3 stray bytes after the last attribute, declared length consistent
    for n in 1..=3usize {
        for fill in [0x00u8, 0xFF, 0x80] {
            let mut b = buf.to_vec();
            b.extend(std::iter::repeat(fill).take(n));
            let l = b.len() - 20;
            wire::set_len(&mut b, l);
            emit("stray-tail", b);
        }
    }
    // a whole extra attribute header (4 bytes) announcing more than is there, length consistent
    for (t, l) in [(0xFF00u16, 1u16), (0x0008, 20), (0x8028, 4), (0xFF00, 0xFFFF)] {
        let mut b = buf.to_vec();
        b.extend_from_slice(&t.to_be_bytes());
        b.extend_from_slice(&l.to_be_bytes());
        let l = b.len() - 20;
        wire::set_len(&mut b, l);
        emit("dangling-header", b);
    }
    // each attribute's declared length -1 / +1 / +4
    for &o in &offs {
        let len = wire::be16(&buf[o + 2..o + 4]) as i64;
        for d in [-1i64, 1, 4] {
            let nl = len + d;
            if (0..=0xFFFF).contains(&nl) {
                let mut b = buf.to_vec();
                b[o + 2] = (nl >> 8) as u8;
                b[o + 3] = nl as u8;
                emit("attrlen", b);
            }
        }
    }
    // top bits and each cookie bit
    for m in [0x80u8, 0x40, 0xC0] {
        let mut b = buf.to_vec();
        b[0] |= m;
        emit("topbits", b);
    }
    for bit in 0..32 {
        let mut b = buf.to_vec();
        b[4 + bit / 8] ^= 1 << (bit % 8);
        emit("cookie", b);
    }
    // non-zero padding (RFC: padding bits are ignored)
    for &o in &offs {
        let len = wire::be16(&buf[o + 2..o + 4]);
        if len % 4 != 0 && o + 4 + len < buf.len() {
            let mut b = buf.to_vec();
            let end = (o + 4 + (len + 3) / 4 * 4).min(b.len());
            for x in &mut b[o + 4 + len..end] {
                *x = 0xA5;
            }
            emit("padding", b);
        }
    }
}

/// Heavier single faults, applied to shallow skeletons only: every value of every type / length
/// byte of the header and of each attribute header; every single-bit flip of the whole buffer.
pub fn heavy_faults(buf: &[u8], emit: &mut dyn FnMut(&'static str, Vec<u8>)) {
    let offs = attr_offsets(buf);
    // every byte of the header's type/length fields and of every attribute header takes every value
    // (retyping into / out of MI, MI256, FINGERPRINT, length confusions)
    let mut hdr_pos: Vec<usize> = vec![0, 1, 2, 3];
    for &o in &offs {
        hdr_pos.extend([o, o + 1, o + 2, o + 3]);
    }
    for p in hdr_pos {
        if p < buf.len() {
            for v in 0..=255u8 {
                if v != buf[p] {
                    let mut b = buf.to_vec();
                    b[p] = v;
                    emit("hdr-bytesub", b);
                }
            }
        }
    }
    // every single-bit flip of short buffers (the whole buffer)
    if buf.len() <= 64 {
        for bit in 0..buf.len() * 8 {
            let mut b = buf.to_vec();
            b[bit / 8] ^= 0x80 >> (bit % 8);
            emit("bitflip", b);
        }
    }
}
