//! Builder programs: a serialisable description of a sequence of `MessageBuilder` operations,
//! an executor on the real builder, and the reference expectation of what it serialises.

use crate::real::{self, Typed};
use crate::refimpl::attrs::{self, Kind, Val};
use crate::refimpl::wire::{self, Creds};
use stun_types::attribute::*;
use stun_types::message::*;

#[derive(Clone, Debug, PartialEq, Eq, Hash)]
pub enum Op {
    /// typed attribute: kind + reference wire encoding of its value
    Typed(Kind, Vec<u8>),
    /// raw attribute: type code + value
    Raw(u16, Vec<u8>),
    Sha1(u8),
    Sha256(u8),
    Fp,
    IntoOwned,
    Clone,
    /// look at the builder without changing it: byte_len(), build(), write_into() an exact-size and
    /// a larger buffer, has_attribute; whatever the builder remembers from being looked at must not
    /// show later
    Measure,
    /// `scratch.clone_from(&builder)` and carry on with the scratch builder: 0 = the scratch builder
    /// is new (other class / id), 1 = it already holds more attributes than any program (six, sealed
    /// and fingerprinted).  Equivalent to `clone()`.
    CloneFrom(u8),
    /// an attribute type of the application's own (0x9A00 + len, value = len bytes), handed to
    /// add_attribute through its own `AttributeWrite` implementation
    Custom(u16),
    /// keep a copy: `sibling = builder.clone()`; the sibling stays alive beside the builder (a base
    /// kept because sealing cannot be undone).  Every later step looks at both.
    Fork,
    /// carry on with the sibling (the builder becomes the sibling); nothing happens without a sibling
    Swap,
    /// an application attribute (type 0x9C00) whose value the application can still change after it
    /// was handed to add_attribute (`Attribute` is `Sync`: a value behind an atomic or a lock, filled
    /// in just before sending): added with a value of this many bytes
    AppMut(u16),
    /// the application changes the value of the `AppMut` attribute to this many bytes; every builder
    /// that still borrows it serialises the new value from now on
    Mutate(u16),
    /// Somewhere else in the process (on a thread of its own) an application attribute panics while the
    /// library serialises it - inside add_fingerprint (0), add_message_integrity (1), build (2),
    /// write_into (3), into_owned (4) - and the panic is caught.  Nothing of this builder is involved;
    /// whatever the library keeps process-wide (a scratch buffer behind a lock that is now poisoned)
    /// must not change what later operations produce.
    /// (kinds 8..=12: the same five on THIS thread - the panic unwinds through the library's frames on
    /// the thread that goes on using the builder, and is caught)
    Poison(u8),
    /// an application attribute (type 0x9D00, eight bytes) whose serialisation builds, seals (0: SHA-1,
    /// 1: SHA-256) and fingerprints an inner message of its own before it writes its value: the library
    /// is re-entered on the same thread while the outer message is being serialised or sealed
    Nested(u8),
    /// an application attribute (type 0x9E00 + len) that writes its header and value and leaves the
    /// padding bytes of the destination as they are (the destination `build()` hands out is zeroed)
    CustomLazy(u16),
    /// an application attribute of a zero-sized type (type 0x9F00 + k, no value), handed over as `&*Box::new(..)`:
    /// every boxed or promoted zero-sized value lives at the same address, whatever its type
    Zst(u8),
    /// on this thread, before going on: an unrelated message full of 0xFF bytes is built, sealed with
    /// both integrity attributes and fingerprinted (what the library keeps per thread from one message
    /// must not show in the next)
    Elsewhere(u8),
}

/// The application attribute of `Op::Nested`.
#[derive(Debug)]
pub struct NestAttr(pub u8);
impl NestAttr {
    pub const TYPE: u16 = 0x9D00;
    pub const VALUE: &'static [u8; 8] = b"nested!!";
    fn inner(&self) {
        let creds: MessageIntegrityCredentials = ShortTermCredentials::new("inner".to_owned()).into();
        let mut b = real::builder(1, 0x016, 0x1221);
        let _ = b.add_raw_attribute(RawAttribute::new(AttributeType::new(0xC0FE), &[0xFF; 37]));
        let _ = b.add_message_integrity(&creds, if self.0 == 0 { IntegrityAlgorithm::Sha1 } else { IntegrityAlgorithm::Sha256 });
        let _ = b.add_fingerprint();
        let _ = b.build();
    }
}
impl Attribute for NestAttr {
    fn get_type(&self) -> AttributeType {
        AttributeType::new(Self::TYPE)
    }
    fn length(&self) -> u16 {
        8
    }
}
impl AttributeWrite for NestAttr {
    fn to_raw(&self) -> RawAttribute {
        self.inner();
        RawAttribute::new(self.get_type(), Self::VALUE).into_owned()
    }
    fn write_into_unchecked(&self, dest: &mut [u8]) {
        self.inner();
        let offset = self.write_header_unchecked(dest);
        dest[offset..offset + 8].copy_from_slice(Self::VALUE);
    }
}

/// The application attribute of `Op::CustomLazy`.
#[derive(Debug)]
pub struct LazyAttr {
    pub len: u16,
}
impl LazyAttr {
    pub fn typ(len: u16) -> u16 {
        0x9E00 + (len & 0xFF)
    }
}
impl Attribute for LazyAttr {
    fn get_type(&self) -> AttributeType {
        AttributeType::new(Self::typ(self.len))
    }
    fn length(&self) -> u16 {
        self.len
    }
}
impl AttributeWrite for LazyAttr {
    fn to_raw(&self) -> RawAttribute {
        RawAttribute::new(self.get_type(), &AppAttr::value(self.len)).into_owned()
    }
    fn write_into_unchecked(&self, dest: &mut [u8]) {
        let offset = self.write_header_unchecked(dest);
        let v = AppAttr::value(self.len);
        dest[offset..offset + v.len()].copy_from_slice(&v);
    }
}

macro_rules! zst_attr {
    ($name:ident, $code:expr) => {
        #[derive(Debug)]
        pub struct $name;
        impl Attribute for $name {
            fn get_type(&self) -> AttributeType {
                AttributeType::new($code)
            }
            fn length(&self) -> u16 {
                0
            }
        }
        impl AttributeWrite for $name {
            fn to_raw(&self) -> RawAttribute {
                RawAttribute::new(self.get_type(), &[]).into_owned()
            }
            fn write_into_unchecked(&self, dest: &mut [u8]) {
                self.write_header_unchecked(dest);
            }
        }
    };
}
zst_attr!(Zst0, 0x9F00);
zst_attr!(Zst1, 0x9F01);
zst_attr!(Zst2, 0x9F02);

/// `Op::Elsewhere`: an unrelated message built, sealed and fingerprinted on this thread.
pub fn elsewhere(kind: u8) {
    let creds: MessageIntegrityCredentials = ShortTermCredentials::new("elsewhere".to_owned()).into();
    let ff = vec![0xFF; 301 + kind as usize];
    let mut b = real::builder(2, 0x003, 0xFFFF_FFFF_FFFF_FFFF_FFFF_FFFF);
    let _ = b.add_raw_attribute(RawAttribute::new(AttributeType::new(0xFFFE), &ff));
    let _ = b.build();
    let _ = b.add_message_integrity(&creds, IntegrityAlgorithm::Sha1);
    let _ = b.add_message_integrity(&creds, IntegrityAlgorithm::Sha256);
    let _ = b.add_fingerprint();
    let bytes = b.build();
    let _ = Message::from_bytes(&bytes).map(|m| m.validate_integrity(&creds).is_ok());
}

/// An application attribute whose serialisation panics (`Op::Poison`).
#[derive(Debug)]
pub struct PanicAttr;
impl Attribute for PanicAttr {
    fn get_type(&self) -> AttributeType {
        AttributeType::new(0x9B00)
    }
    fn length(&self) -> u16 {
        4
    }
}
impl AttributeWrite for PanicAttr {
    fn to_raw(&self) -> RawAttribute {
        panic!("application attribute: to_raw")
    }
    fn write_into_unchecked(&self, _dest: &mut [u8]) {
        panic!("application attribute: write_into_unchecked")
    }
}

/// Runs the panicking serialisation of `Op::Poison(kind)` on a fresh thread and swallows the panic.
pub fn poison(kind: u8) {
    if kind >= 8 {
        // on this thread: the panic unwinds through the library into the guard right here
        poison_body(kind - 8);
        return;
    }
    let _ = std::thread::Builder::new().stack_size(256 << 10).spawn(move || poison_body(kind)).map(|h| h.join());
}

fn poison_body(kind: u8) {
    {
        let _ = crate::common::guarded(|| {
            let pa = PanicAttr;
            let creds: MessageIntegrityCredentials = ShortTermCredentials::new("poison".to_owned()).into();
            let mut b = real::builder(0, 1, 0x0BAD);
            let _ = b.add_attribute(&pa);
            match kind {
                0 => {
                    let _ = b.add_fingerprint();
                }
                1 => {
                    let _ = b.add_message_integrity(&creds, IntegrityAlgorithm::Sha1);
                    let _ = b.add_message_integrity(&creds, IntegrityAlgorithm::Sha256);
                }
                2 => {
                    let _ = b.build();
                }
                3 => {
                    let mut d = vec![0u8; 64];
                    let _ = b.write_into(&mut d);
                }
                _ => {
                    let _ = b.into_owned().build();
                }
            }
        });
    }
}

/// The application-defined attribute of `Op::Custom`.
#[derive(Debug)]
pub struct AppAttr {
    pub len: u16,
}
impl AppAttr {
    pub fn typ(len: u16) -> u16 {
        if len < 0x100 {
            0x9A00 + len
        } else {
            0xA000 + (len & 0x0FFF)
        }
    }
    pub fn value(len: u16) -> Vec<u8> {
        (0..len).map(|i| 0xA0 ^ (i as u8).wrapping_mul(7) ^ (i >> 8) as u8).collect()
    }
}

/// The application attribute of `Op::AppMut` / `Op::Mutate`: its value length lives in an atomic.
#[derive(Debug, Default)]
pub struct MutAttr {
    pub len: std::sync::atomic::AtomicU16,
}
impl MutAttr {
    pub const TYPE: u16 = 0x9C00;
    pub fn value(len: u16) -> Vec<u8> {
        (0..len).map(|i| 0x5C ^ (i as u8).wrapping_mul(11)).collect()
    }
    fn now(&self) -> u16 {
        self.len.load(std::sync::atomic::Ordering::SeqCst)
    }
}
impl Attribute for MutAttr {
    fn get_type(&self) -> AttributeType {
        AttributeType::new(Self::TYPE)
    }
    fn length(&self) -> u16 {
        self.now()
    }
}
impl AttributeWrite for MutAttr {
    fn to_raw(&self) -> RawAttribute {
        RawAttribute::new(self.get_type(), &Self::value(self.now())).into_owned()
    }
    fn write_into_unchecked(&self, dest: &mut [u8]) {
        let v = Self::value(self.now());
        let len = 4 + (v.len() + 3) / 4 * 4;
        let offset = self.write_header_unchecked(dest);
        dest[offset..offset + v.len()].copy_from_slice(&v);
        let offset = offset + v.len();
        if len > offset {
            dest[offset..len].fill(0);
        }
    }
}
impl Attribute for AppAttr {
    fn get_type(&self) -> AttributeType {
        AttributeType::new(Self::typ(self.len))
    }
    fn length(&self) -> u16 {
        self.len as u16
    }
}
impl AttributeWrite for AppAttr {
    fn to_raw(&self) -> RawAttribute {
        RawAttribute::new(self.get_type(), &Self::value(self.len)).into_owned()
    }
    fn write_into_unchecked(&self, dest: &mut [u8]) {
        let len = self.padded_len();
        let offset = self.write_header_unchecked(dest);
        let v = Self::value(self.len);
        dest[offset..offset + v.len()].copy_from_slice(&v);
        let offset = offset + v.len();
        if len > offset {
            dest[offset..len].fill(0);
        }
    }
}

impl Op {
    pub fn to_text(&self) -> String {
        match self {
            Op::Typed(k, v) => format!("T:{}:{}", k.name(), crate::refimpl::crypto::hex(v)),
            Op::Raw(t, v) => format!("R:{:04x}:{}", t, crate::refimpl::crypto::hex(v)),
            Op::Sha1(c) => format!("MI:{c}"),
            Op::Sha256(c) => format!("MI256:{c}"),
            Op::Fp => "FP".into(),
            Op::IntoOwned => "OWN".into(),
            Op::Clone => "CLONE".into(),
            Op::Measure => "MEASURE".into(),
            Op::CloneFrom(k) => format!("CLONEFROM:{k}"),
            Op::Custom(l) => format!("APP:{l}"),
            Op::Fork => "FORK".into(),
            Op::Swap => "SWAP".into(),
            Op::AppMut(l) => format!("APPMUT:{l}"),
            Op::Mutate(l) => format!("MUTATE:{l}"),
            Op::Poison(k) => format!("POISON:{k}"),
            Op::Nested(k) => format!("NESTED:{k}"),
            Op::CustomLazy(l) => format!("LAZY:{l}"),
            Op::Elsewhere(k) => format!("ELSEWHERE:{k}"),
            Op::Zst(k) => format!("ZST:{k}"),
        }
    }
    pub fn from_text(s: &str) -> Op {
        let p: Vec<&str> = s.split(':').collect();
        match p[0] {
            "T" => Op::Typed(Kind::from_name(p[1]).expect("kind"), crate::refimpl::crypto::unhex(p.get(2).unwrap_or(&""))),
            "R" => Op::Raw(u16::from_str_radix(p[1], 16).unwrap(), crate::refimpl::crypto::unhex(p.get(2).unwrap_or(&""))),
            "MI" => Op::Sha1(p[1].parse().unwrap()),
            "MI256" => Op::Sha256(p[1].parse().unwrap()),
            "FP" => Op::Fp,
            "OWN" => Op::IntoOwned,
            "CLONE" => Op::Clone,
            "MEASURE" => Op::Measure,
            "CLONEFROM" => Op::CloneFrom(p[1].parse().unwrap()),
            "APP" => Op::Custom(p[1].parse().unwrap()),
            "FORK" => Op::Fork,
            "SWAP" => Op::Swap,
            "APPMUT" => Op::AppMut(p[1].parse().unwrap()),
            "MUTATE" => Op::Mutate(p[1].parse().unwrap()),
            "POISON" => Op::Poison(p[1].parse().unwrap()),
            "NESTED" => Op::Nested(p[1].parse().unwrap()),
            "LAZY" => Op::CustomLazy(p[1].parse().unwrap()),
            "ELSEWHERE" => Op::Elsewhere(p[1].parse().unwrap()),
            "ZST" => Op::Zst(p[1].parse().unwrap()),
            _ => panic!("harness: bad op text {s}"),
        }
    }
    pub fn type_code(&self) -> Option<u16> {
        match self {
            Op::Typed(k, _) => Some(k.code()),
            Op::Raw(t, _) => Some(*t),
            Op::Custom(l) => Some(AppAttr::typ(*l)),
            Op::AppMut(_) => Some(MutAttr::TYPE),
            Op::Nested(_) => Some(NestAttr::TYPE),
            Op::Zst(k) => Some(0x9F00 + (*k % 3) as u16),
            Op::CustomLazy(l) => Some(LazyAttr::typ(*l)),
            Op::Sha1(_) => Some(wire::MI),
            Op::Sha256(_) => Some(wire::MI256),
            Op::Fp => Some(wire::FP),
            _ => None,
        }
    }
}

#[derive(Clone, Debug, PartialEq, Eq)]
pub struct Prog {
    pub class: u8,
    pub method: u16,
    pub tid: u128,
    pub ops: Vec<Op>,
}

pub fn creds_alphabet() -> Vec<Creds> {
    vec![
        Creds::Short("pw".into()),
        Creds::Long { user: "user".into(), realm: "realm.example".into(), pass: "secret".into() },
        Creds::Short("".into()),
        Creds::Short("p\u{e4}ssw\u{f6}rd \u{2603}".into()),
        Creds::Long { user: "a:b".into(), realm: "r".into(), pass: "p".into() },
        Creds::Long { user: "".into(), realm: "".into(), pass: "".into() },
        Creds::Long { user: "MixedCase User".into(), realm: "Realm.EXAMPLE".into(), pass: "PassWord".into() },
        Creds::Short("UPPER lower".into()),
        // index 8: longer than the 64-byte HMAC block (RFC 2104: hashed with the HMAC's own hash, never cut)
        Creds::Short("k".repeat(37) + "/session/" + &"Z9".repeat(30)),
    ]
    // (the decorated family of C04 adds credentials with other kinds of spaces, composed characters ...)
}

impl Prog {
    pub fn to_case(&self, op: &str) -> crate::common::Case {
        crate::common::Case {
            op: op.to_string(),
            data: self.tid.to_be_bytes().to_vec(),
            args: vec![self.class as i64, self.method as i64],
            text: self.ops.iter().map(|o| o.to_text()).collect(),
        }
    }
    pub fn from_case(c: &crate::common::Case) -> Prog {
        let mut a = [0u8; 16];
        a.copy_from_slice(&c.data[..16]);
        Prog {
            class: c.args[0] as u8,
            method: c.args[1] as u16,
            tid: u128::from_be_bytes(a),
            ops: c.text.iter().map(|s| Op::from_text(s)).collect(),
        }
    }
}

#[derive(Clone, Debug, PartialEq, Eq)]
pub enum WErr {
    AttributeExists(u16),
    FingerprintExists,
    MessageIntegrityExists,
    Other(String),
}

impl From<StunWriteError> for WErr {
    fn from(e: StunWriteError) -> Self {
        match e {
            StunWriteError::AttributeExists(t) => WErr::AttributeExists(t.value()),
            StunWriteError::FingerprintExists => WErr::FingerprintExists,
            StunWriteError::MessageIntegrityExists => WErr::MessageIntegrityExists,
            other => WErr::Other(format!("{other:?}")),
        }
    }
}

/// Execute `prog` on the real builder.  After every operation `observe(step, result, builder)`
/// is called.  Typed attributes are constructed up front (the builder borrows them); a typed
/// attribute whose constructor refuses makes the whole program unrunnable (`Err`).
pub fn execute(prog: &Prog, mut observe: impl FnMut(usize, &Result<(), WErr>, &MessageBuilder)) -> Result<(), String> {
    execute_tree(prog, |i, r, b, _| observe(i, r, b))
}

/// `execute` for programs with `Fork` / `Swap`: the callback also sees the sibling builder.
pub fn execute_tree(prog: &Prog, mut observe: impl FnMut(usize, &Result<(), WErr>, &MessageBuilder, Option<&MessageBuilder>)) -> Result<(), String> {
    let mut arena: Vec<Option<Typed>> = Vec::with_capacity(prog.ops.len());
    for op in &prog.ops {
        match op {
            Op::Typed(k, wire_val) => {
                let val = attrs::fields_lenient(*k, wire_val).ok_or_else(|| format!("unrepresentable {k:?}"))?;
                let pv = match (k, val) {
                    (Kind::XorMappedAddress, Val::Addr(a)) => Val::Addr(attrs::xor_addr(a, prog.tid)),
                    (_, v) => v,
                };
                arena.push(Some(real::construct(*k, &pv, prog.tid)?));
            }
            _ => arena.push(None),
        }
    }
    let creds: Vec<MessageIntegrityCredentials> = creds_alphabet().iter().map(real::creds).collect();
    let apps: Vec<Option<AppAttr>> = prog.ops.iter().map(|op| if let Op::Custom(len) = op { Some(AppAttr { len: *len }) } else { None }).collect();
    let mutattr = MutAttr::default();
    let nests = [NestAttr(0), NestAttr(1)];
    let zsts: (Box<Zst0>, Box<Zst1>, Box<Zst2>) = (Box::new(Zst0), Box::new(Zst1), Box::new(Zst2));
    let lazies: Vec<Option<LazyAttr>> = prog.ops.iter().map(|op| if let Op::CustomLazy(len) = op { Some(LazyAttr { len: *len }) } else { None }).collect();
    let mut b = real::builder(prog.class, prog.method, prog.tid);
    let mut sib: Option<MessageBuilder> = None;
    for (i, op) in prog.ops.iter().enumerate() {
        let r: Result<(), WErr> = match op {
            Op::Typed(..) => b.add_attribute(arena[i].as_ref().unwrap().as_write()).map_err(WErr::from),
            Op::Custom(_) => b.add_attribute(apps[i].as_ref().unwrap()).map_err(WErr::from),
            Op::Nested(k) => b.add_attribute(&nests[(*k % 2) as usize]).map_err(WErr::from),
            Op::Zst(k) => match *k % 3 {
                0 => b.add_attribute(&*zsts.0),
                1 => b.add_attribute(&*zsts.1),
                _ => b.add_attribute(&*zsts.2),
            }
            .map_err(WErr::from),
            Op::CustomLazy(_) => b.add_attribute(lazies[i].as_ref().unwrap()).map_err(WErr::from),
            Op::Elsewhere(k) => {
                elsewhere(*k);
                Ok(())
            }
            Op::Fork => {
                sib = Some(b.clone());
                Ok(())
            }
            Op::Swap => {
                if let Some(s) = sib.as_mut() {
                    std::mem::swap(&mut b, s);
                }
                Ok(())
            }
            Op::AppMut(l) => {
                // (the value changes whether or not the builder then takes the attribute)
                mutattr.len.store(*l, std::sync::atomic::Ordering::SeqCst);
                b.add_attribute(&mutattr).map_err(WErr::from)
            }
            Op::Mutate(l) => {
                mutattr.len.store(*l, std::sync::atomic::Ordering::SeqCst);
                Ok(())
            }
            Op::Poison(k) => {
                poison(*k);
                Ok(())
            }
            Op::Raw(t, v) => b.add_raw_attribute(RawAttribute::new(AttributeType::new(*t), v)).map_err(WErr::from),
            Op::Sha1(c) => b.add_message_integrity(&creds[*c as usize], IntegrityAlgorithm::Sha1).map_err(WErr::from),
            Op::Sha256(c) => b.add_message_integrity(&creds[*c as usize], IntegrityAlgorithm::Sha256).map_err(WErr::from),
            Op::Fp => b.add_fingerprint().map_err(WErr::from),
            Op::IntoOwned => {
                b = b.into_owned();
                Ok(())
            }
            Op::Clone => {
                b = b.clone();
                Ok(())
            }
            Op::CloneFrom(k) => {
                let mut scratch = real::builder((prog.class + 1) % 4, prog.method ^ 1, prog.tid ^ 0x5555);
                if *k == 1 {
                    for t in [0x8022u16, 0x0006, 0x0014, 0x0015, 0xC001, 0xC002, 0xC003] {
                        let _ = scratch.add_raw_attribute(RawAttribute::new(AttributeType::new(t), b"scratch").into_owned());
                    }
                    let _ = scratch.add_message_integrity(&creds[0], IntegrityAlgorithm::Sha1);
                    let _ = scratch.add_message_integrity(&creds[0], IntegrityAlgorithm::Sha256);
                    let _ = scratch.add_fingerprint();
                }
                scratch.clone_from(&b);
                b = scratch;
                Ok(())
            }
            Op::Measure => {
                let n = b.byte_len();
                let _ = b.build();
                let mut exact = vec![0u8; n];
                let _ = b.write_into(&mut exact);
                let mut larger = vec![0xEEu8; n + 24];
                let _ = b.write_into(&mut larger);
                let _ = b.has_attribute(AttributeType::new(0x8022));
                let _ = b.byte_len();
                Ok(())
            }
        };
        observe(i, &r, &b, sib.as_ref());
    }
    Ok(())
}

/// Reference model of the builder: which operations are refused (C11 statement) and what the
/// accepted ones serialise to.
#[derive(Clone, Debug, Default, PartialEq, Eq, Hash)]
pub struct RefBuilder {
    pub class: u8,
    pub method: u16,
    pub tid: u128,
    /// accepted attributes in order: (type, value, creds index for integrity)
    pub attrs: Vec<(u16, Vec<u8>)>,
    /// for sealing attributes: (position in attrs, creds index)
    pub seals: Vec<(usize, u8)>,
    /// position of the `AppMut` attribute while the builder still borrows it (until into_owned)
    pub mut_live: Option<usize>,
}

/// Reference for programs with `Fork` / `Swap` / `Mutate`: the builder and its sibling.
#[derive(Clone, Debug, Default, PartialEq, Eq, Hash)]
pub struct RefTree {
    pub cur: RefBuilder,
    pub sib: Option<RefBuilder>,
}

impl RefTree {
    pub fn new(class: u8, method: u16, tid: u128) -> Self {
        RefTree { cur: RefBuilder::new(class, method, tid), sib: None }
    }
    pub fn apply(&mut self, op: &Op) -> bool {
        match op {
            Op::Fork => {
                self.sib = Some(self.cur.clone());
                true
            }
            Op::Swap => {
                if let Some(s) = self.sib.as_mut() {
                    std::mem::swap(&mut self.cur, s);
                }
                true
            }
            Op::Mutate(l) | Op::AppMut(l) => {
                self.cur.mutate(*l);
                if let Some(s) = self.sib.as_mut() {
                    s.mutate(*l);
                }
                self.cur.apply(op)
            }
            _ => self.cur.apply(op),
        }
    }
}

impl RefBuilder {
    pub fn new(class: u8, method: u16, tid: u128) -> Self {
        RefBuilder { class, method, tid: tid & ((1u128 << 96) - 1), attrs: vec![], seals: vec![], mut_live: None }
    }
    /// the application changed the value of the `AppMut` attribute
    pub fn mutate(&mut self, len: u16) {
        if let Some(i) = self.mut_live {
            self.attrs[i].1 = MutAttr::value(len);
        }
    }
    pub fn has(&self, t: u16) -> bool {
        self.attrs.iter().any(|(x, _)| *x == t)
    }
    pub fn sealed(&self) -> bool {
        self.has(wire::MI) || self.has(wire::MI256) || self.has(wire::FP)
    }
    /// Apply one operation; `true` = accepted.  Refusal rules are those of the C11 statement.
    pub fn apply(&mut self, op: &Op) -> bool {
        match op {
            Op::Typed(k, v) => {
                if self.has(k.code()) || self.sealed() {
                    return false;
                }
                // typed values serialise to their canonical reference encoding
                let val = attrs::fields_lenient(*k, v).expect("representable");
                self.attrs.push((k.code(), attrs::encode(*k, &val)));
                true
            }
            Op::Raw(t, v) => {
                if self.has(*t) || self.sealed() {
                    return false;
                }
                self.attrs.push((*t, v.clone()));
                true
            }
            Op::Custom(l) => {
                if self.has(AppAttr::typ(*l)) || self.sealed() {
                    return false;
                }
                self.attrs.push((AppAttr::typ(*l), AppAttr::value(*l)));
                true
            }
            Op::Nested(_) => {
                if self.has(NestAttr::TYPE) || self.sealed() {
                    return false;
                }
                self.attrs.push((NestAttr::TYPE, NestAttr::VALUE.to_vec()));
                true
            }
            Op::Zst(k) => {
                let t = 0x9F00 + (*k % 3) as u16;
                if self.has(t) || self.sealed() {
                    return false;
                }
                self.attrs.push((t, vec![]));
                true
            }
            Op::CustomLazy(l) => {
                if self.has(LazyAttr::typ(*l)) || self.sealed() {
                    return false;
                }
                self.attrs.push((LazyAttr::typ(*l), AppAttr::value(*l)));
                true
            }
            Op::AppMut(l) => {
                self.mutate(*l);
                if self.has(MutAttr::TYPE) || self.sealed() {
                    return false;
                }
                self.mut_live = Some(self.attrs.len());
                self.attrs.push((MutAttr::TYPE, MutAttr::value(*l)));
                true
            }
            Op::Mutate(l) => {
                self.mutate(*l);
                true
            }
            Op::IntoOwned => {
                self.mut_live = None;
                true
            }
            Op::Sha1(c) => {
                if self.sealed() {
                    return false;
                }
                let key = creds_alphabet()[*c as usize].key();
                let mut buf = self.bytes();
                wire::append_mi(&mut buf, &key);
                let m = wire::decode(&buf).expect("reference serialisation decodes");
                let a = m.attrs.last().unwrap();
                self.seals.push((self.attrs.len(), *c));
                self.attrs.push((wire::MI, a.value.clone()));
                true
            }
            Op::Sha256(c) => {
                if self.has(wire::MI256) || self.has(wire::FP) {
                    return false;
                }
                let key = creds_alphabet()[*c as usize].key();
                let mut buf = self.bytes();
                wire::append_mi256(&mut buf, &key, 32);
                let m = wire::decode(&buf).expect("reference serialisation decodes");
                let a = m.attrs.last().unwrap();
                self.seals.push((self.attrs.len(), *c));
                self.attrs.push((wire::MI256, a.value.clone()));
                true
            }
            Op::Fp => {
                if self.has(wire::FP) {
                    return false;
                }
                let mut buf = self.bytes();
                wire::append_fp(&mut buf);
                let l = buf.len();
                self.attrs.push((wire::FP, buf[l - 4..].to_vec()));
                true
            }
            Op::Clone | Op::Measure | Op::CloneFrom(_) | Op::Poison(_) | Op::Fork | Op::Swap | Op::Elsewhere(_) => true,
        }
    }
    pub fn bytes(&self) -> Vec<u8> {
        wire::encode_msg(self.class, self.method, self.tid, &self.attrs)
    }
}
