//! Thin adapters around the library under test: everything the oracles observe goes through here
//! so that return values are turned into plain data before being compared with the references.

use crate::refimpl::attrs::{Kind, Val};
use crate::refimpl::wire::Creds;
use std::net::SocketAddr;
use stun_types::attribute::*;
use stun_types::message::*;

#[derive(Clone, Debug, PartialEq, Eq)]
pub enum PErr {
    NotStun,
    Truncated(usize, usize),
    TooLarge(usize, usize),
    IntegrityCheckFailed,
    MissingAttribute(u16),
    AfterIntegrity(u16),
    AfterFingerprint(u16),
    FingerprintMismatch,
    DataMismatch,
    InvalidAttributeData,
    WrongAttributeImplementation,
}

impl From<StunParseError> for PErr {
    fn from(e: StunParseError) -> Self {
        match e {
            StunParseError::NotStun => PErr::NotStun,
            StunParseError::Truncated { expected, actual } => PErr::Truncated(expected, actual),
            StunParseError::TooLarge { expected, actual } => PErr::TooLarge(expected, actual),
            StunParseError::IntegrityCheckFailed => PErr::IntegrityCheckFailed,
            StunParseError::MissingAttribute(t) => PErr::MissingAttribute(t.value()),
            StunParseError::AttributeAfterIntegrity(t) => PErr::AfterIntegrity(t.value()),
            StunParseError::AttributeAfterFingerprint(t) => PErr::AfterFingerprint(t.value()),
            StunParseError::FingerprintMismatch => PErr::FingerprintMismatch,
            StunParseError::DataMismatch => PErr::DataMismatch,
            StunParseError::InvalidAttributeData => PErr::InvalidAttributeData,
            StunParseError::WrongAttributeImplementation => PErr::WrongAttributeImplementation,
        }
    }
}

pub fn class_num(c: MessageClass) -> u8 {
    match c {
        MessageClass::Request => 0,
        MessageClass::Indication => 1,
        MessageClass::Success => 2,
        MessageClass::Error => 3,
    }
}

pub fn class_of(n: u8) -> MessageClass {
    match n & 3 {
        0 => MessageClass::Request,
        1 => MessageClass::Indication,
        2 => MessageClass::Success,
        _ => MessageClass::Error,
    }
}

pub fn creds(c: &Creds) -> MessageIntegrityCredentials {
    match c {
        Creds::Short(p) => ShortTermCredentials::new(p.clone()).into(),
        Creds::Long { user, realm, pass } => LongTermCredentials::new(user.clone(), pass.clone(), realm.clone()).into(),
    }
}

/// Run the attribute iterator to its first `None`, then `extra` more calls.  Returns the
/// attributes yielded before the first `None` and those yielded afterwards (must be empty for a
/// well-behaved, fused iterator).
pub fn iterate(msg: &Message, extra: usize) -> (Vec<(u16, Vec<u8>)>, Vec<(u16, Vec<u8>)>) {
    let mut it = msg.iter_attributes();
    let mut first = Vec::new();
    let mut guard = 0usize;
    loop {
        guard += 1;
        if guard > 70_000 {
            panic!("attribute iterator yielded more than 70000 items");
        }
        match it.next() {
            Some(a) => first.push((a.get_type().value(), a.value.to_vec())),
            None => break,
        }
    }
    let mut after = Vec::new();
    for _ in 0..extra {
        if let Some(a) = it.next() {
            after.push((a.get_type().value(), a.value.to_vec()));
        }
    }
    (first, after)
}

/// The same sequence obtained through the other methods of the iterator (anything `Iterator`
/// offers can be overridden by the library): `nth(k)` on a fresh iterator for every k, `skip(k)`,
/// `step_by(2)` and `step_by(3)` re-interleaved, `count()`, `last()`, `fold`, a `next()` / `nth(0)`
/// mix, and `size_hint` bounds.  Returns (name, sequence) pairs that must all equal `iterate().0`.
pub fn iterate_variants(msg: &Message) -> Vec<(String, Vec<(u16, Vec<u8>)>)> {
    let item = |a: RawAttribute| (a.get_type().value(), a.value.to_vec());
    let n = msg.iter_attributes().take(70_000).count();
    let mut out = Vec::new();
    let mut by_nth = Vec::new();
    for k in 0..n + 2 {
        if let Some(a) = msg.iter_attributes().nth(k) {
            by_nth.push(item(a));
        }
    }
    out.push(("nth(k) on a fresh iterator, every k".to_string(), by_nth));
    for k in 0..=n.min(8) {
        let mut v: Vec<(u16, Vec<u8>)> = msg.iter_attributes().take(k).map(item).collect();
        v.extend(msg.iter_attributes().skip(k).take(70_000).map(item));
        out.push((format!("take({k}) ++ skip({k})"), v));
        // resume with nth after k plain next() calls
        let mut it = msg.iter_attributes();
        let mut w = Vec::new();
        for _ in 0..k {
            if let Some(a) = it.next() {
                w.push(item(a));
            }
        }
        let mut guard = 0;
        while let Some(a) = it.nth(0) {
            w.push(item(a));
            guard += 1;
            if guard > 70_000 {
                break;
            }
        }
        out.push((format!("{k} x next() then nth(0) repeatedly"), w));
        // nth(1) from position k: skips exactly one
        let mut it = msg.iter_attributes();
        let mut w: Vec<(u16, Vec<u8>)> = Vec::new();
        let base: Vec<(u16, Vec<u8>)> = msg.iter_attributes().take(70_000).map(item).collect();
        for _ in 0..k {
            let _ = it.next();
        }
        if let Some(a) = it.nth(1) {
            w.push(item(a));
        }
        let want: Vec<(u16, Vec<u8>)> = base.get(k + 1).cloned().into_iter().collect();
        if w != want {
            out.push((format!("{k} x next() then nth(1) (sequence shown is what nth(1) gave; expected the element at {})", k + 1), {
                // force a mismatch report: return a sequence that cannot equal the base one
                let mut bad = base.clone();
                bad.push((0xFFFF, w.first().map(|x| x.1.clone()).unwrap_or_default()));
                bad
            }));
        }
    }
    for step in [2usize, 3] {
        let mut slots: Vec<Option<(u16, Vec<u8>)>> = vec![None; n];
        for off in 0..step {
            for (j, a) in msg.iter_attributes().skip(off).step_by(step).take(70_000).enumerate() {
                let idx = off + j * step;
                if idx < n {
                    slots[idx] = Some(item(a));
                } else {
                    slots.push(Some(item(a)));
                }
            }
        }
        out.push((format!("skip(o).step_by({step}) re-interleaved"), slots.into_iter().flatten().collect()));
    }
    let folded: Vec<(u16, Vec<u8>)> = msg.iter_attributes().fold(Vec::new(), |mut v, a| {
        if v.len() < 70_000 {
            v.push(item(a));
        }
        v
    });
    out.push(("fold".to_string(), folded));
    let last = msg.iter_attributes().last().map(item);
    let mut with_last: Vec<(u16, Vec<u8>)> = msg.iter_attributes().take(n.saturating_sub(1)).map(item).collect();
    with_last.extend(last);
    out.push(("take(n-1) ++ last()".to_string(), with_last));
    let (lo, hi) = msg.iter_attributes().size_hint();
    if lo > n || hi.is_some_and(|h| h < n) {
        out.push((format!("size_hint() = ({lo}, {hi:?}) does not bound the {n} items"), vec![(0xFFFF, vec![])]));
    }
    out
}

/// Evaluates `f` on `data` placed at each of the other three residues of its memory address modulo
/// 4 (a message parsed in place behind a 2-byte TCP length prefix, a demultiplexing byte, in a ring
/// buffer ...) and returns the first residue whose result differs from `first`.  Decoding is a
/// function of the bytes, not of where they lie.
pub fn differs_at_residue<T: PartialEq>(data: &[u8], first: &T, f: impl Fn(&[u8]) -> T) -> Option<(usize, T)> {
    let len = data.len();
    let mut buf = vec![0xEEu8; len + 8];
    let a0 = buf.as_ptr() as usize;
    let r0 = data.as_ptr() as usize % 4;
    for r in 0..4usize {
        if r == r0 {
            continue;
        }
        let s0 = (0..8usize).find(|s| (a0 + s) % 4 == r).unwrap();
        buf[s0..s0 + len].copy_from_slice(data);
        let got = f(&buf[s0..s0 + len]);
        if got != *first {
            return Some((r, got));
        }
    }
    None
}

/// What a parse says, in comparable form: header fields and the iterated attributes, or the error.
pub fn parse_summary(buf: &[u8]) -> Result<(u8, u16, u128, Vec<(u16, Vec<u8>)>), String> {
    match Message::from_bytes(buf) {
        Ok(m) => Ok((class_num(m.class()), m.method(), m.transaction_id().into(), iterate(&m, 0).0)),
        Err(e) => Err(format!("{e:?}")),
    }
}

pub fn alg_num(a: IntegrityAlgorithm) -> u16 {
    match a {
        IntegrityAlgorithm::Sha1 => crate::refimpl::wire::MI,
        IntegrityAlgorithm::Sha256 => crate::refimpl::wire::MI256,
    }
}

fn pa_num(v: PasswordAlgorithmValue) -> u16 {
    match v {
        PasswordAlgorithmValue::MD5 => 1,
        PasswordAlgorithmValue::SHA256 => 2,
    }
}

fn pa_val(n: u16) -> Option<PasswordAlgorithmValue> {
    match n {
        1 => Some(PasswordAlgorithmValue::MD5),
        2 => Some(PasswordAlgorithmValue::SHA256),
        _ => None,
    }
}

/// Typed decode through `X::from_raw`, reduced to plain fields via the public getters.
/// For XOR-MAPPED-ADDRESS the address is the one recovered under `tid`.
pub fn decode_kind(k: Kind, raw: &RawAttribute, tid: u128) -> Result<Val, PErr> {
    Ok(match k {
        Kind::Username => Val::Text(Username::from_raw(raw)?.username().to_string()),
        Kind::MessageIntegrity => Val::Bytes(MessageIntegrity::from_raw(raw)?.hmac().to_vec()),
        Kind::ErrorCode => {
            let e = ErrorCode::from_raw(raw)?;
            Val::Error(e.code(), e.reason().to_string())
        }
        Kind::UnknownAttributes => {
            let u = UnknownAttributes::from_raw(raw)?;
            // no list getter: reconstruct through to_raw (checked separately against the wire)
            let r = u.to_raw();
            Val::List(r.value.chunks(2).filter(|c| c.len() == 2).map(|c| u16::from_be_bytes([c[0], c[1]])).collect())
        }
        Kind::Realm => Val::Text(Realm::from_raw(raw)?.realm().to_string()),
        Kind::Nonce => Val::Text(Nonce::from_raw(raw)?.nonce().to_string()),
        Kind::MessageIntegritySha256 => Val::Bytes(MessageIntegritySha256::from_raw(raw)?.hmac().to_vec()),
        Kind::PasswordAlgorithm => Val::List(vec![pa_num(PasswordAlgorithm::from_raw(raw)?.algorithm())]),
        Kind::Userhash => Val::Bytes(Userhash::from_raw(raw)?.hash().to_vec()),
        Kind::XorMappedAddress => Val::Addr(XorMappedAddress::from_raw(raw)?.addr(tid.into())),
        Kind::PasswordAlgorithms => {
            Val::List(PasswordAlgorithms::from_raw(raw)?.algorithms().iter().map(|a| pa_num(*a)).collect())
        }
        Kind::AlternateDomain => Val::Text(AlternateDomain::from_raw(raw)?.domain().to_string()),
        Kind::Software => Val::Text(Software::from_raw(raw)?.software().to_string()),
        Kind::AlternateServer => Val::Addr(AlternateServer::from_raw(raw)?.server()),
        Kind::Fingerprint => Val::Bytes(Fingerprint::from_raw(raw)?.fingerprint().to_vec()),
        Kind::Priority => Val::U32(Priority::from_raw(raw)?.priority()),
        Kind::UseCandidate => {
            UseCandidate::from_raw(raw)?;
            Val::Unit
        }
        Kind::IceControlled => Val::U64(IceControlled::from_raw(raw)?.tie_breaker()),
        Kind::IceControlling => Val::U64(IceControlling::from_raw(raw)?.tie_breaker()),
    })
}

/// Has UNKNOWN-ATTRIBUTES `has_attribute` agree with the list?  (the only list observer it has)
pub fn unknown_has(raw: &RawAttribute, t: u16) -> Result<bool, PErr> {
    Ok(UnknownAttributes::from_raw(raw)?.has_attribute(t.into()))
}

/// A typed attribute constructed through the public constructor of its type.
pub enum Typed {
    Username(Username),
    MessageIntegrity(MessageIntegrity),
    ErrorCode(ErrorCode),
    UnknownAttributes(UnknownAttributes),
    Realm(Realm),
    Nonce(Nonce),
    MessageIntegritySha256(MessageIntegritySha256),
    PasswordAlgorithm(PasswordAlgorithm),
    Userhash(Userhash),
    XorMappedAddress(XorMappedAddress),
    PasswordAlgorithms(PasswordAlgorithms),
    AlternateDomain(AlternateDomain),
    Software(Software),
    AlternateServer(AlternateServer),
    Fingerprint(Fingerprint),
    Priority(Priority),
    UseCandidate(UseCandidate),
    IceControlled(IceControlled),
    IceControlling(IceControlling),
}

impl Typed {
    pub fn as_write(&self) -> &dyn AttributeWrite {
        match self {
            Typed::Username(a) => a,
            Typed::MessageIntegrity(a) => a,
            Typed::ErrorCode(a) => a,
            Typed::UnknownAttributes(a) => a,
            Typed::Realm(a) => a,
            Typed::Nonce(a) => a,
            Typed::MessageIntegritySha256(a) => a,
            Typed::PasswordAlgorithm(a) => a,
            Typed::Userhash(a) => a,
            Typed::XorMappedAddress(a) => a,
            Typed::PasswordAlgorithms(a) => a,
            Typed::AlternateDomain(a) => a,
            Typed::Software(a) => a,
            Typed::AlternateServer(a) => a,
            Typed::Fingerprint(a) => a,
            Typed::Priority(a) => a,
            Typed::UseCandidate(a) => a,
            Typed::IceControlled(a) => a,
            Typed::IceControlling(a) => a,
        }
    }
    /// Display / Debug of the typed attribute under format specifications (precision, width, flags)
    pub fn display_spec(&self) -> String {
        macro_rules! spec {
            ($a:expr) => {
                format!("{0:.0} {0:.1} {0:.3} {0:.16} {0:.800} {0:>60} {0:^9.4} {0:#} {0:#?} {0:+} {0:07}", $a)
            };
        }
        match self {
            Typed::Username(a) => spec!(a),
            Typed::MessageIntegrity(a) => spec!(a),
            Typed::ErrorCode(a) => spec!(a),
            Typed::UnknownAttributes(a) => spec!(a),
            Typed::Realm(a) => spec!(a),
            Typed::Nonce(a) => spec!(a),
            _ => self.display(),
        }
    }
    pub fn display(&self) -> String {
        match self {
            Typed::Username(a) => format!("{a} {a:?}"),
            Typed::MessageIntegrity(a) => format!("{a} {a:?}"),
            Typed::ErrorCode(a) => format!("{a} {a:?}"),
            Typed::UnknownAttributes(a) => format!("{a} {a:?}"),
            Typed::Realm(a) => format!("{a} {a:?}"),
            Typed::Nonce(a) => format!("{a} {a:?}"),
            Typed::MessageIntegritySha256(a) => format!("{a} {a:?}"),
            Typed::PasswordAlgorithm(a) => format!("{a} {a:?}"),
            Typed::Userhash(a) => format!("{a} {a:?}"),
            Typed::XorMappedAddress(a) => format!("{a} {a:?}"),
            Typed::PasswordAlgorithms(a) => format!("{a} {a:?}"),
            Typed::AlternateDomain(a) => format!("{a} {a:?}"),
            Typed::Software(a) => format!("{a} {a:?}"),
            Typed::AlternateServer(a) => format!("{a} {a:?}"),
            Typed::Fingerprint(a) => format!("{a} {a:?}"),
            Typed::Priority(a) => format!("{a} {a:?}"),
            Typed::UseCandidate(a) => format!("{a} {a:?}"),
            Typed::IceControlled(a) => format!("{a} {a:?}"),
            Typed::IceControlling(a) => format!("{a} {a:?}"),
        }
    }
}

/// Construct the typed attribute for reference fields `v`; `Err` = the constructor refused.
/// XOR-MAPPED-ADDRESS: `v` is the plain address, `tid` the transaction id.
pub fn construct(k: Kind, v: &Val, tid: u128) -> Result<Typed, String> {
    let e = |x: StunWriteError| format!("{x:?}");
    Ok(match (k, v) {
        (Kind::Username, Val::Text(s)) => Typed::Username(Username::new(s).map_err(e)?),
        (Kind::Realm, Val::Text(s)) => Typed::Realm(Realm::new(s).map_err(e)?),
        (Kind::Nonce, Val::Text(s)) => Typed::Nonce(Nonce::new(s).map_err(e)?),
        (Kind::Software, Val::Text(s)) => Typed::Software(Software::new(s).map_err(e)?),
        (Kind::AlternateDomain, Val::Text(s)) => Typed::AlternateDomain(AlternateDomain::new(s)),
        (Kind::MessageIntegrity, Val::Bytes(b)) => {
            let a: [u8; 20] = b.as_slice().try_into().map_err(|_| "MI needs 20 bytes".to_string())?;
            Typed::MessageIntegrity(MessageIntegrity::new(a))
        }
        (Kind::MessageIntegritySha256, Val::Bytes(b)) => Typed::MessageIntegritySha256(MessageIntegritySha256::new(b).map_err(e)?),
        (Kind::Userhash, Val::Bytes(b)) => {
            let a: [u8; 32] = b.as_slice().try_into().map_err(|_| "USERHASH needs 32 bytes".to_string())?;
            Typed::Userhash(Userhash::new(a))
        }
        (Kind::Fingerprint, Val::Bytes(b)) => {
            let a: [u8; 4] = b.as_slice().try_into().map_err(|_| "FINGERPRINT needs 4 bytes".to_string())?;
            Typed::Fingerprint(Fingerprint::new(a))
        }
        (Kind::ErrorCode, Val::Error(c, r)) => Typed::ErrorCode(ErrorCode::new(*c, r).map_err(e)?),
        (Kind::UnknownAttributes, Val::List(l)) => {
            let t: Vec<AttributeType> = l.iter().map(|x| AttributeType::new(*x)).collect();
            Typed::UnknownAttributes(UnknownAttributes::new(&t))
        }
        (Kind::PasswordAlgorithm, Val::List(l)) => {
            if l.len() != 1 {
                return Err("one algorithm".into());
            }
            Typed::PasswordAlgorithm(PasswordAlgorithm::new(pa_val(l[0]).ok_or("unknown algorithm")?))
        }
        (Kind::PasswordAlgorithms, Val::List(l)) => {
            let mut v = Vec::new();
            for x in l {
                v.push(pa_val(*x).ok_or("unknown algorithm")?);
            }
            Typed::PasswordAlgorithms(PasswordAlgorithms::new(&v))
        }
        (Kind::XorMappedAddress, Val::Addr(a)) => Typed::XorMappedAddress(XorMappedAddress::new(*a, tid.into())),
        (Kind::AlternateServer, Val::Addr(a)) => Typed::AlternateServer(AlternateServer::new(*a)),
        (Kind::Priority, Val::U32(x)) => Typed::Priority(Priority::new(*x)),
        (Kind::UseCandidate, Val::Unit) => Typed::UseCandidate(UseCandidate::new()),
        (Kind::IceControlled, Val::U64(x)) => Typed::IceControlled(IceControlled::new(*x)),
        (Kind::IceControlling, Val::U64(x)) => Typed::IceControlling(IceControlling::new(*x)),
        (k, v) => return Err(format!("harness: {k:?} cannot be constructed from {v:?}")),
    })
}

/// `msg.attribute::<X>()` for kind `k`, reduced to (ok?, fields-or-error)
pub fn msg_attribute(msg: &Message, k: Kind, tid: u128) -> Result<Val, PErr> {
    let raw = |e: StunParseError| -> PErr { e.into() };
    Ok(match k {
        Kind::Username => Val::Text(msg.attribute::<Username>().map_err(raw)?.username().to_string()),
        Kind::MessageIntegrity => Val::Bytes(msg.attribute::<MessageIntegrity>().map_err(raw)?.hmac().to_vec()),
        Kind::ErrorCode => {
            let e = msg.attribute::<ErrorCode>().map_err(raw)?;
            Val::Error(e.code(), e.reason().to_string())
        }
        Kind::UnknownAttributes => {
            let u = msg.attribute::<UnknownAttributes>().map_err(raw)?;
            let r = u.to_raw();
            Val::List(r.value.chunks(2).filter(|c| c.len() == 2).map(|c| u16::from_be_bytes([c[0], c[1]])).collect())
        }
        Kind::Realm => Val::Text(msg.attribute::<Realm>().map_err(raw)?.realm().to_string()),
        Kind::Nonce => Val::Text(msg.attribute::<Nonce>().map_err(raw)?.nonce().to_string()),
        Kind::MessageIntegritySha256 => Val::Bytes(msg.attribute::<MessageIntegritySha256>().map_err(raw)?.hmac().to_vec()),
        Kind::PasswordAlgorithm => Val::List(vec![pa_num(msg.attribute::<PasswordAlgorithm>().map_err(raw)?.algorithm())]),
        Kind::Userhash => Val::Bytes(msg.attribute::<Userhash>().map_err(raw)?.hash().to_vec()),
        Kind::XorMappedAddress => Val::Addr(msg.attribute::<XorMappedAddress>().map_err(raw)?.addr(tid.into())),
        Kind::PasswordAlgorithms => Val::List(
            msg.attribute::<PasswordAlgorithms>().map_err(raw)?.algorithms().iter().map(|a| pa_num(*a)).collect(),
        ),
        Kind::AlternateDomain => Val::Text(msg.attribute::<AlternateDomain>().map_err(raw)?.domain().to_string()),
        Kind::Software => Val::Text(msg.attribute::<Software>().map_err(raw)?.software().to_string()),
        Kind::AlternateServer => Val::Addr(msg.attribute::<AlternateServer>().map_err(raw)?.server()),
        Kind::Fingerprint => Val::Bytes(msg.attribute::<Fingerprint>().map_err(raw)?.fingerprint().to_vec()),
        Kind::Priority => Val::U32(msg.attribute::<Priority>().map_err(raw)?.priority()),
        Kind::UseCandidate => {
            msg.attribute::<UseCandidate>().map_err(raw)?;
            Val::Unit
        }
        Kind::IceControlled => Val::U64(msg.attribute::<IceControlled>().map_err(raw)?.tie_breaker()),
        Kind::IceControlling => Val::U64(msg.attribute::<IceControlling>().map_err(raw)?.tie_breaker()),
    })
}

/// Builder for (class, method, tid)
pub fn builder<'a>(class: u8, method: u16, tid: u128) -> MessageBuilder<'a> {
    Message::builder(MessageType::from_class_method(class_of(class), method), tid.into())
}

pub fn sa(s: &str) -> SocketAddr {
    s.parse().unwrap()
}

/// `X::from_raw` keeping the typed object (for re-encoding checks).
pub fn from_raw_typed(k: Kind, raw: &RawAttribute) -> Result<Typed, PErr> {
    Ok(match k {
        Kind::Username => Typed::Username(Username::from_raw(raw)?),
        Kind::MessageIntegrity => Typed::MessageIntegrity(MessageIntegrity::from_raw(raw)?),
        Kind::ErrorCode => Typed::ErrorCode(ErrorCode::from_raw(raw)?),
        Kind::UnknownAttributes => Typed::UnknownAttributes(UnknownAttributes::from_raw(raw)?),
        Kind::Realm => Typed::Realm(Realm::from_raw(raw)?),
        Kind::Nonce => Typed::Nonce(Nonce::from_raw(raw)?),
        Kind::MessageIntegritySha256 => Typed::MessageIntegritySha256(MessageIntegritySha256::from_raw(raw)?),
        Kind::PasswordAlgorithm => Typed::PasswordAlgorithm(PasswordAlgorithm::from_raw(raw)?),
        Kind::Userhash => Typed::Userhash(Userhash::from_raw(raw)?),
        Kind::XorMappedAddress => Typed::XorMappedAddress(XorMappedAddress::from_raw(raw)?),
        Kind::PasswordAlgorithms => Typed::PasswordAlgorithms(PasswordAlgorithms::from_raw(raw)?),
        Kind::AlternateDomain => Typed::AlternateDomain(AlternateDomain::from_raw(raw)?),
        Kind::Software => Typed::Software(Software::from_raw(raw)?),
        Kind::AlternateServer => Typed::AlternateServer(AlternateServer::from_raw(raw)?),
        Kind::Fingerprint => Typed::Fingerprint(Fingerprint::from_raw(raw)?),
        Kind::Priority => Typed::Priority(Priority::from_raw(raw)?),
        Kind::UseCandidate => Typed::UseCandidate(UseCandidate::from_raw(raw)?),
        Kind::IceControlled => Typed::IceControlled(IceControlled::from_raw(raw)?),
        Kind::IceControlling => Typed::IceControlling(IceControlling::from_raw(raw)?),
    })
}

/// The same through `TryFrom<&RawAttribute>` (must agree with `from_raw`).
pub fn try_from_ok(k: Kind, raw: &RawAttribute) -> bool {
    match k {
        Kind::Username => Username::try_from(raw).is_ok(),
        Kind::MessageIntegrity => MessageIntegrity::try_from(raw).is_ok(),
        Kind::ErrorCode => ErrorCode::try_from(raw).is_ok(),
        Kind::UnknownAttributes => UnknownAttributes::try_from(raw).is_ok(),
        Kind::Realm => Realm::try_from(raw).is_ok(),
        Kind::Nonce => Nonce::try_from(raw).is_ok(),
        Kind::MessageIntegritySha256 => MessageIntegritySha256::try_from(raw).is_ok(),
        Kind::PasswordAlgorithm => PasswordAlgorithm::try_from(raw).is_ok(),
        Kind::Userhash => Userhash::try_from(raw).is_ok(),
        Kind::XorMappedAddress => XorMappedAddress::try_from(raw).is_ok(),
        Kind::PasswordAlgorithms => PasswordAlgorithms::try_from(raw).is_ok(),
        Kind::AlternateDomain => AlternateDomain::try_from(raw).is_ok(),
        Kind::Software => Software::try_from(raw).is_ok(),
        Kind::AlternateServer => AlternateServer::try_from(raw).is_ok(),
        Kind::Fingerprint => Fingerprint::try_from(raw).is_ok(),
        Kind::Priority => Priority::try_from(raw).is_ok(),
        Kind::UseCandidate => UseCandidate::try_from(raw).is_ok(),
        Kind::IceControlled => IceControlled::try_from(raw).is_ok(),
        Kind::IceControlling => IceControlling::try_from(raw).is_ok(),
    }
}

/// Fields of a typed attribute through its getters (XOR-MAPPED-ADDRESS under `tid`).
pub fn typed_fields(t: &Typed, tid: u128) -> Val {
    match t {
        Typed::Username(a) => Val::Text(a.username().to_string()),
        Typed::MessageIntegrity(a) => Val::Bytes(a.hmac().to_vec()),
        Typed::ErrorCode(a) => Val::Error(a.code(), a.reason().to_string()),
        Typed::UnknownAttributes(a) => {
            let r = a.to_raw();
            Val::List(r.value.chunks(2).filter(|c| c.len() == 2).map(|c| u16::from_be_bytes([c[0], c[1]])).collect())
        }
        Typed::Realm(a) => Val::Text(a.realm().to_string()),
        Typed::Nonce(a) => Val::Text(a.nonce().to_string()),
        Typed::MessageIntegritySha256(a) => Val::Bytes(a.hmac().to_vec()),
        Typed::PasswordAlgorithm(a) => Val::List(vec![pa_num(a.algorithm())]),
        Typed::Userhash(a) => Val::Bytes(a.hash().to_vec()),
        Typed::XorMappedAddress(a) => Val::Addr(a.addr(tid.into())),
        Typed::PasswordAlgorithms(a) => Val::List(a.algorithms().iter().map(|x| pa_num(*x)).collect()),
        Typed::AlternateDomain(a) => Val::Text(a.domain().to_string()),
        Typed::Software(a) => Val::Text(a.software().to_string()),
        Typed::AlternateServer(a) => Val::Addr(a.server()),
        Typed::Fingerprint(a) => Val::Bytes(a.fingerprint().to_vec()),
        Typed::Priority(a) => Val::U32(a.priority()),
        Typed::UseCandidate(_) => Val::Unit,
        Typed::IceControlled(a) => Val::U64(a.tie_breaker()),
        Typed::IceControlling(a) => Val::U64(a.tie_breaker()),
    }
}
