//! Thread teardown probe: library calls made from inside the destructor of a thread-local.
//!
//! A thread's life has a phase no ordinary history runs in: while its thread-local values are being
//! destroyed.  Rust destroys them last-registered-first, so a value the application registered before
//! the library was first used on the thread is destroyed *after* anything the library keeps per thread.
//! An application that holds its connection state in such a value and flushes it in `Drop` (sending a
//! last request, pulling the remaining frames) calls the library in exactly that phase.  The library
//! has no per-thread state today; a change that adds some (a buffer pool, a scratch buffer) and
//! reaches it through `LocalKey::with` panics there - inside `Drop` that aborts the process.
//!
//! The probe therefore runs in a child process (`vcheck teardown <family>`): for every case of the
//! family a fresh thread first registers the probe's own thread-local, then runs the case in its body
//! (so that whatever the library keeps per thread is registered after it), and runs the same case
//! again from the probe's destructor at thread exit.  Both results go to the parent over a channel and
//! must be equal.  The child prints one line per case; the parent (`check`) compares and turns a
//! difference, a panic or a dead child into a violation.
use crate::common::{Acc, Case, Violation};
use std::cell::RefCell;
use std::panic::{catch_unwind, AssertUnwindSafe};
use std::sync::mpsc;

struct RunAtExit(Option<Box<dyn FnOnce()>>);
impl Drop for RunAtExit {
    fn drop(&mut self) {
        if let Some(f) = self.0.take() {
            f()
        }
    }
}
thread_local! {
    static AT_EXIT: RefCell<RunAtExit> = RefCell::new(RunAtExit(None));
}

pub const FAMILIES: [&str; 5] = ["tcp", "agent", "builder", "parser", "inspect"];

fn n_cases(family: &str) -> usize {
    match family {
        "tcp" => 8,
        "agent" => crate::agent::scale::teardown_scenarios().len(),
        "parser" => parser_buffers().len(),
        "inspect" => inspect_cases().len(),
        _ => builder_progs().len(),
    }
}

fn builder_progs() -> Vec<crate::engine_in::prog::Prog> {
    use crate::engine_in::prog::{Op, Prog};
    use crate::refimpl::attrs::Kind;
    let tid = 0x7EA2_D0F0_0102_0304_0506_0708u128 & ((1u128 << 96) - 1);
    let sw = Op::Typed(Kind::Software, b"teardown".to_vec());
    let mut v = Vec::new();
    for tail in [vec![], vec![Op::Fp], vec![Op::Sha1(0), Op::Fp], vec![Op::Sha256(1), Op::Fp], vec![Op::Sha1(1), Op::Sha256(1), Op::Fp]] {
        for body in [vec![sw.clone()], vec![sw.clone(), Op::Custom(5), Op::Raw(0xC001, vec![1, 2, 3])], vec![Op::Custom(1), Op::IntoOwned, Op::Clone]] {
            let mut ops = body;
            ops.extend(tail.clone());
            v.push(Prog { class: 0, method: 1, tid, ops });
        }
    }
    v
}

/// The C01 family: every 11th case of the stack probe's list (every entry point and read-only operation).
fn inspect_cases() -> Vec<Case> {
    crate::props::c01::stack_cases().into_iter().step_by(11).collect()
}

/// Received buffers of the parser family: sealed in every way, plain, corrupted, truncated, not STUN.
fn parser_buffers() -> Vec<Vec<u8>> {
    use crate::refimpl::wire;
    let mut v = Vec::new();
    for tail in 0..6u8 {
        let mut b = wire::encode_header((tail % 4) as u8, 1, 0x0908_0706_0504_0302_0100_0F0E, 0);
        wire::append_raw(&mut b, 0x0006, b"user");
        wire::append_raw(&mut b, 0x8022, b"software name");
        wire::append_raw(&mut b, 0x0020, &[0, 1, 0x21 ^ 0x0D, 0x12 ^ 0x96, 0x21 ^ 192, 0x12, 0xA4 ^ 2, 0x42 ^ 1]);
        match tail {
            1 => wire::append_fp(&mut b),
            2 => wire::append_mi(&mut b, crate::engine_in::KEY),
            3 => {
                wire::append_mi(&mut b, crate::engine_in::KEY);
                wire::append_fp(&mut b);
            }
            4 => {
                wire::append_mi256(&mut b, crate::engine_in::KEY, 32);
                wire::append_fp(&mut b);
            }
            5 => {
                wire::append_mi(&mut b, crate::engine_in::KEY);
                wire::append_mi256(&mut b, crate::engine_in::KEY, 16);
                wire::append_fp(&mut b);
            }
            _ => {}
        }
        let mut bad = b.clone();
        let l = bad.len();
        bad[l - 1] ^= 1;
        v.push(b.clone());
        v.push(bad);
        v.push(b[..b.len() - 3].to_vec());
    }
    v.push(vec![0x16, 0x03, 0x01, 0x00, 0x20, 1, 2, 3, 4, 5, 6, 7, 8, 9, 10, 11, 12, 13, 14, 15, 16, 17, 18, 19, 20]);
    v
}

/// One case of a family, as a string that is the same whenever the library behaves the same.
fn run_case(family: &str, i: usize) -> String {
    match family {
        "tcp" => {
            // four frames (one empty), pushed in chunks of i+1.. bytes, pulled as they complete
            use stun_proto::agent::TcpBuffer;
            let frames: Vec<Vec<u8>> = vec![vec![1, 2, 3, 4, 5], vec![], (0..300u32).map(|x| x as u8).collect(), vec![9, 9]];
            let mut stream = Vec::new();
            for f in &frames {
                stream.extend_from_slice(&(f.len() as u16).to_be_bytes());
                stream.extend_from_slice(f);
            }
            let mut b = TcpBuffer::new();
            let mut out = Vec::new();
            let chunk = [1usize, 2, 3, 7, 64, 301, 400, 1000][i % 8];
            for c in stream.chunks(chunk) {
                b.push_data(c);
                while let Some(f) = b.pull_data() {
                    out.push(f);
                }
            }
            format!("{}", crate::refimpl::crypto::hex(&out.concat())) + &format!("/{}", out.len())
        }
        "inspect" => {
            let mut acc = Acc::default();
            crate::props::c01::judge(&inspect_cases()[i], &mut acc);
            format!("{:?}", acc.violations.keys().collect::<Vec<_>>())
        }
        "parser" => {
            use stun_types::message::Message;
            let buf = &parser_buffers()[i];
            let key = String::from_utf8(crate::engine_in::KEY.to_vec()).unwrap();
            match Message::from_bytes(buf) {
                Err(e) => format!("refused {:?}", crate::real::PErr::from(e)),
                Ok(m) => {
                    let (seq, _) = crate::real::iterate(&m, 0);
                    let v = m.validate_integrity(&crate::real::creds(&crate::refimpl::wire::Creds::Short(key))).map(crate::real::alg_num).map_err(crate::real::PErr::from);
                    let lt = m.validate_integrity(&crate::real::creds(&crate::refimpl::wire::Creds::Long { user: "u".into(), realm: "r".into(), pass: "p".into() })).map(crate::real::alg_num).map_err(crate::real::PErr::from);
                    let typed: Vec<String> = crate::refimpl::attrs::ALL_KINDS.iter().map(|k| format!("{:?}", crate::real::msg_attribute(&m, *k, 0x0908_0706_0504_0302_0100_0F0E))).collect();
                    let police = Message::check_attribute_types(&m, &[0x0006.into()], &[0x0014.into()]).map(|b| b.build());
                    format!("{seq:?} {v:?} {lt:?} {typed:?} {m} {m:?} {police:?}")
                }
            }
        }
        "agent" => {
            let sc = &crate::agent::scale::teardown_scenarios()[i];
            let o = crate::agent::scale::run_scenario_unguarded(sc);
            format!("{} breaches {:?}", o.breaches.len(), o.transcript)
        }
        _ => {
            let p = &builder_progs()[i];
            match crate::props::c03::build_prog(p) {
                Ok(b) => {
                    let parsed = stun_types::message::Message::from_bytes(&b.bytes).map(|m| m.iter_attributes().count()).map_err(|e| format!("{e:?}"));
                    format!("{} {:?} {:?}", crate::refimpl::crypto::hex(&b.bytes), b.results, parsed)
                }
                Err(e) => format!("unbuildable {e}"),
            }
        }
    }
}

fn guarded_case(family: &'static str, i: usize) -> String {
    match catch_unwind(AssertUnwindSafe(|| run_case(family, i))) {
        Ok(s) => s,
        Err(p) => {
            let m = p.downcast_ref::<&str>().map(|s| s.to_string()).or_else(|| p.downcast_ref::<String>().cloned()).unwrap_or_else(|| "<panic>".into());
            format!("PANIC {m}")
        }
    }
}

/// Child side: run the family, print `case <i>\t<body>\t<exit>` lines.
pub fn child(family: &str) {
    let family: &'static str = FAMILIES.iter().find(|f| **f == family).copied().unwrap_or("tcp");
    std::panic::set_hook(Box::new(|_| {}));
    for i in 0..n_cases(family) {
        let (tx, rx) = mpsc::channel::<String>();
        let h = std::thread::Builder::new().name(format!("teardown-{i}")).spawn(move || {
            let tx2 = tx.clone();
            // the probe's thread-local first ...
            AT_EXIT.with(|a| {
                a.borrow_mut().0 = Some(Box::new(move || {
                    let _ = tx2.send(guarded_case(family, i));
                }))
            });
            // ... then the library, in the body of the thread
            let _ = tx.send(guarded_case(family, i));
            // ... and from a destructor that runs while the thread is unwinding from a panic
            // (std::thread::panicking() is true there), the panic being caught
            let tx3 = tx.clone();
            let _ = catch_unwind(AssertUnwindSafe(move || {
                let _g = RunAtExit(Some(Box::new(move || {
                    let _ = tx3.send(guarded_case(family, i));
                })));
                panic!("teardown probe: unwinding");
            }));
        });
        let _ = h.map(|h| h.join());
        let body = rx.recv().unwrap_or_else(|_| "<nothing>".into());
        let unwinding = rx.recv().unwrap_or_else(|_| "<nothing>".into());
        let exit = rx.recv().unwrap_or_else(|_| "<nothing>".into());
        println!("case {i}\t{body}\t{exit}\t{unwinding}");
    }
    println!("teardown done {}", n_cases(family));
}

/// Parent side: run the child for `family` and judge its lines.
pub fn judge(prop: &'static str, family: &str, acc: &mut Acc) {
    let case = Case::new("teardown", vec![]).text(&[family]);
    let replay = crate::props::in_replay(&case);
    acc.evaluations += 1;
    acc.validated += 1;
    let exe = match std::env::current_exe() {
        Ok(e) => e,
        Err(e) => panic!("harness: current_exe: {e}"),
    };
    let out = match std::process::Command::new(exe).arg("teardown").arg(family).output() {
        Ok(o) => o,
        Err(e) => panic!("harness: cannot start the teardown child: {e}"),
    };
    let text = String::from_utf8_lossy(&out.stdout).into_owned();
    let mut seen = 0usize;
    for line in text.lines() {
        let f: Vec<&str> = line.split('\t').collect();
        if f.len() == 4 && f[0].starts_with("case ") {
            seen += 1;
            acc.evaluations += 1;
            if f[1] != f[3] {
                let short = |s: &str| s.chars().take(200).collect::<String>();
                acc.violation(Violation::new(prop, &format!("thread-unwinding/{family}"), format!("{} of the {family} family gives another result when it runs from a destructor while the thread is unwinding from a (caught) panic than in the body of the thread", f[0]), short(f[1]), short(f[3]), replay.clone()));
            }
            if f[1] != f[2] || f[1].starts_with("PANIC") {
                let short = |s: &str| s.chars().take(200).collect::<String>();
                acc.violation(Violation::new(prop, &format!("thread-teardown/{family}"), format!("{} of the {family} family gives another result when it runs from the destructor of a thread-local at thread exit than in the body of the thread", f[0]), short(f[1]), short(f[2]), replay.clone()));
            }
        }
    }
    let done = text.lines().any(|l| l.starts_with("teardown done"));
    if !out.status.success() || !done {
        let err = String::from_utf8_lossy(&out.stderr);
        acc.violation(Violation::new(prop, &format!("thread-teardown/{family}/process-died"), format!("the process died while the {family} family ran from thread-local destructors (after {seen} cases)"), "all cases complete".to_string(), format!("{} {}", out.status, err.lines().rev().take(3).collect::<Vec<_>>().join(" / ")), replay));
    }
    acc.outcome("thread teardown probe");
}

/// The cases of `family` under every per-call-site tracing filter (callsites.rs): the same result as
/// without a subscriber.  Call sites are discovered while the family runs with everything enabled.
pub fn callsite_sweep(prop: &'static str, family: &'static str, acc: &mut Acc) {
    use rayon::prelude::*;
    let n = n_cases(family);
    let plain: Vec<String> = (0..n).map(|i| crate::common::guarded(|| run_case(family, i)).unwrap_or_else(|p| format!("PANIC {}", p.message))).collect();
    let run_under = |label: &str, d: &tracing::Dispatch| -> Vec<Violation> {
        let mut out = Vec::new();
        for i in 0..n {
            let r = crate::common::guarded(|| tracing::dispatcher::with_default(d, || run_case(family, i)));
            let got = match r {
                Ok(s) => s,
                Err(p) => format!("PANIC {} at {}", p.message, p.location),
            };
            if got != plain[i] {
                let short = |s: &str| s.chars().take(220).collect::<String>();
                let case = Case::new("callsites", vec![]).text(&[family]);
                out.push(Violation::new(prop, &format!("tracing-filter/{family}"), format!("case {i} of the {family} family gives another result under a tracing subscriber with {label} than without a subscriber"), short(&plain[i]), short(&got), crate::props::in_replay(&case)));
                break;
            }
        }
        out
    };
    for v in run_under("every call site enabled", &crate::callsites::dispatch(crate::callsites::Mode::All)) {
        acc.violation(v);
    }
    let mut done = 0usize;
    loop {
        let sites = crate::callsites::seen();
        if done >= sites.len() || done >= 400 {
            break;
        }
        let found: Vec<Violation> = (done..sites.len().min(400))
            .into_par_iter()
            .flat_map_iter(|k| {
                let mut v = run_under(&format!("only the call site [{}] enabled", sites[k]), &crate::callsites::dispatch(crate::callsites::Mode::OneHot(k)));
                v.extend(run_under(&format!("every call site but [{}] enabled", sites[k]), &crate::callsites::dispatch(crate::callsites::Mode::AllBut(k))));
                // a subscriber that panics at this call site (caught): the same case right afterwards, on this
                // thread and without a subscriber, gives what it always gives
                let d = crate::callsites::dispatch(crate::callsites::Mode::PanicAt(k));
                for i in 0..n {
                    let _ = crate::common::guarded(|| tracing::dispatcher::with_default(&d, || run_case(family, i)));
                    let after = crate::common::guarded(|| run_case(family, i)).unwrap_or_else(|p| format!("PANIC {} at {}", p.message, p.location));
                    if after != plain[i] {
                        let short = |s: &str| s.chars().take(220).collect::<String>();
                        let case = Case::new("callsites", vec![]).text(&[family]);
                        v.push(Violation::new(prop, &format!("after-subscriber-panic/{family}"), format!("case {i} of the {family} family gives another result right after the same case ran under a tracing subscriber that panicked at the call site [{}] (the panic was caught)", sites[k]), short(&plain[i]), short(&after), crate::props::in_replay(&case)));
                        break;
                    }
                }
                v
            })
            .collect();
        acc.evaluations += ((sites.len().min(400) - done) * 2 * n) as u64;
        for v in found {
            acc.violation(v);
        }
        done = sites.len().min(400);
    }
    acc.outcome_n("family run under one-hot / all-but-one call-site filters", (done * 2) as u64);
}

/// The TcpBuffer programs of the allocation-failure probe: frames of 40 000 / 0 / 5 / 1029 bytes pushed in
/// chunks of several sizes (the first ones split the length prefix), pulled as they complete.  Only the
/// library calls run armed.
fn alloc_tcp_case(i: usize) -> String {
    use stun_proto::agent::TcpBuffer;
    let frames: Vec<Vec<u8>> = vec![(0..40_000u32).map(|x| (x % 251) as u8).collect(), vec![], vec![1, 2, 3, 4, 5], (0..1029u32).map(|x| (x % 7) as u8).collect()];
    let mut stream = Vec::new();
    for f in &frames {
        stream.extend_from_slice(&(f.len() as u16).to_be_bytes());
        stream.extend_from_slice(f);
    }
    let firsts: [&[usize]; 6] = [&[1, 5], &[2], &[1, 1, 1], &[6, 1000], &[3, 40_000], &[40_002, 1, 1]];
    let mut chunks: Vec<&[u8]> = Vec::new();
    let mut at = 0usize;
    for n in firsts[i % 6] {
        let e = (at + n).min(stream.len());
        chunks.push(&stream[at..e]);
        at = e;
    }
    while at < stream.len() {
        let e = (at + 16_384).min(stream.len());
        chunks.push(&stream[at..e]);
        at = e;
    }
    let mut b = TcpBuffer::new();
    let mut lens = Vec::new();
    let mut sum = 0u64;
    for c in chunks {
        crate::alloc::armed(|| b.push_data(c));
        while let Some(f) = crate::alloc::armed(|| b.pull_data()) {
            lens.push(f.len());
            sum = f.iter().fold(sum, |a, x| a.wrapping_mul(131).wrapping_add(*x as u64));
        }
    }
    format!("{lens:?} {sum:x}")
}
pub const N_ALLOC_TCP: usize = 6;

/// Child side of the allocation-failure probe.
pub fn alloc_child(case: usize, k: i64, min: usize) {
    crate::alloc::plan(k, min);
    let r = alloc_tcp_case(case);
    println!("result\t{}\t{r}", crate::alloc::seen());
}

/// Parent side: every case without the fault (in a child, to count its allocations), then with each of them refused.
pub fn alloc_probe(prop: &'static str, acc: &mut Acc) {
    use rayon::prelude::*;
    let exe = std::env::current_exe().expect("current_exe");
    let run = |case: usize, k: i64, min: usize| -> Option<(u64, String)> {
        let out = std::process::Command::new(&exe).args(["allocprobe", &case.to_string(), &k.to_string(), &min.to_string()]).output().ok()?;
        if !out.status.success() {
            return None;
        }
        let text = String::from_utf8_lossy(&out.stdout).into_owned();
        let line = text.lines().find(|l| l.starts_with("result\t"))?.to_string();
        let f: Vec<&str> = line.split('\t').collect();
        Some((f.get(1)?.parse().ok()?, f.get(2)?.to_string()))
    };
    let mut jobs: Vec<(usize, i64, usize, String)> = Vec::new();
    for min in [64usize, 4096] {
        for case in 0..N_ALLOC_TCP {
            match run(case, -1, min) {
                Some((n, plain)) => {
                    for k in 0..n.min(64) as i64 {
                        jobs.push((case, k, min, plain.clone()));
                    }
                }
                None => panic!("harness: the allocation probe's fault-free child failed"),
            }
        }
    }
    let results: Vec<(usize, i64, usize, String, Option<(u64, String)>)> = jobs.into_par_iter().map(|(c, k, m, p)| { let r = run(c, k, m); (c, k, m, p, r) }).collect();
    let (mut died, mut survived) = (0u64, 0u64);
    for (case, k, min, plain, r) in results {
        acc.evaluations += 1;
        match r {
            None => died += 1,
            Some((_, got)) => {
                survived += 1;
                if got != plain {
                    let c = Case::new("allocprobe", vec![]).args(&[case as i64, k, min as i64]);
                    acc.violation(Violation::new(prop, "survives-allocation-failure-with-wrong-frames", format!("TcpBuffer program {case}: allocation #{k} of at least {min} bytes made inside push_data / pull_data is refused; the process survives and goes on with other frames than were sent"), plain.chars().take(200).collect::<String>(), got.chars().take(200).collect::<String>(), crate::props::in_replay(&c)));
                }
            }
        }
    }
    acc.outcome_n("allocation refused inside a TcpBuffer call: process died (no verdict)", died);
    acc.outcome_n("allocation refused inside a TcpBuffer call: process survived, frames compared", survived);
}
