//! Thread teardown probe: library calls made from inside the destructor of a thread-local.
//!
//! A thread's life has a phase no ordinary history runs in: while its thread-local values are being
//! destroyed.  Rust destroys them last-registered-first, so a value the application registered before
//! the library was first used on the thread is destroyed *after* anything the library keeps per thread.
//! An application that holds its connection state in such a value and flushes it in `Drop` (sending a
//! last request, pulling the remaining frames) calls the library in exactly that phase.  The library
//! has no per-thread state today; a change that adds some (a buffer pool, a scratch buffer) and
//! reaches it through `LocalKey::with` panics there - inside `Drop` that aborts the process.
//!
//! The probe therefore runs in a child process (`vcheck teardown <family>`): for every case of the
//! family a fresh thread first registers the probe's own thread-local, then runs the case in its body
//! (so that whatever the library keeps per thread is registered after it), and runs the same case
//! again from the probe's destructor at thread exit.  Both results go to the parent over a channel and
//! must be equal.  The child prints one line per case; the parent (`check`) compares and turns a
//! difference, a panic or a dead child into a violation.
use crate::common::{Acc, Case, Violation};
use std::cell::RefCell;
use std::panic::{catch_unwind, AssertUnwindSafe};
use std::sync::mpsc;

struct RunAtExit(Option<Box<dyn FnOnce()>>);
impl Drop for RunAtExit {
    fn drop(&mut self) {
        if let Some(f) = self.0.take() {
            f()
        }
    }
}
thread_local! {
    static AT_EXIT: RefCell<RunAtExit> = RefCell::new(RunAtExit(None));
}

pub const FAMILIES: [&str; 3] = ["tcp", "agent", "builder"];

fn n_cases(family: &str) -> usize {
    match family {
        "tcp" => 8,
        "agent" => crate::agent::scale::teardown_scenarios().len(),
        _ => builder_progs().len(),
    }
}

fn builder_progs() -> Vec<crate::engine_in::prog::Prog> {
    use crate::engine_in::prog::{Op, Prog};
    use crate::refimpl::attrs::Kind;
    let tid = 0x7EA2_D0F0_0102_0304_0506_0708u128 & ((1u128 << 96) - 1);
    let sw = Op::Typed(Kind::Software, b"teardown".to_vec());
    let mut v = Vec::new();
    for tail in [vec![], vec![Op::Fp], vec![Op::Sha1(0), Op::Fp], vec![Op::Sha256(1), Op::Fp], vec![Op::Sha1(1), Op::Sha256(1), Op::Fp]] {
        for body in [vec![sw.clone()], vec![sw.clone(), Op::Custom(5), Op::Raw(0xC001, vec![1, 2, 3])], vec![Op::Custom(1), Op::IntoOwned, Op::Clone]] {
            let mut ops = body;
            ops.extend(tail.clone());
            v.push(Prog { class: 0, method: 1, tid, ops });
        }
    }
    v
}

/// One case of a family, as a string that is the same whenever the library behaves the same.
fn run_case(family: &str, i: usize) -> String {
    match family {
        "tcp" => {
            // four frames (one empty), pushed in chunks of i+1.. bytes, pulled as they complete
            use stun_proto::agent::TcpBuffer;
            let frames: Vec<Vec<u8>> = vec![vec![1, 2, 3, 4, 5], vec![], (0..300u32).map(|x| x as u8).collect(), vec![9, 9]];
            let mut stream = Vec::new();
            for f in &frames {
                stream.extend_from_slice(&(f.len() as u16).to_be_bytes());
                stream.extend_from_slice(f);
            }
            let mut b = TcpBuffer::new();
            let mut out = Vec::new();
            let chunk = [1usize, 2, 3, 7, 64, 301, 400, 1000][i % 8];
            for c in stream.chunks(chunk) {
                b.push_data(c);
                while let Some(f) = b.pull_data() {
                    out.push(f);
                }
            }
            format!("{}", crate::refimpl::crypto::hex(&out.concat())) + &format!("/{}", out.len())
        }
        "agent" => {
            let sc = &crate::agent::scale::teardown_scenarios()[i];
            let o = crate::agent::scale::run_scenario_unguarded(sc);
            format!("{} breaches {:?}", o.breaches.len(), o.transcript)
        }
        _ => {
            let p = &builder_progs()[i];
            match crate::props::c03::build_prog(p) {
                Ok(b) => {
                    let parsed = stun_types::message::Message::from_bytes(&b.bytes).map(|m| m.iter_attributes().count()).map_err(|e| format!("{e:?}"));
                    format!("{} {:?} {:?}", crate::refimpl::crypto::hex(&b.bytes), b.results, parsed)
                }
                Err(e) => format!("unbuildable {e}"),
            }
        }
    }
}

fn guarded_case(family: &'static str, i: usize) -> String {
    match catch_unwind(AssertUnwindSafe(|| run_case(family, i))) {
        Ok(s) => s,
        Err(p) => {
            let m = p.downcast_ref::<&str>().map(|s| s.to_string()).or_else(|| p.downcast_ref::<String>().cloned()).unwrap_or_else(|| "<panic>".into());
            format!("PANIC {m}")
        }
    }
}

/// Child side: run the family, print `case <i>\t<body>\t<exit>` lines.
pub fn child(family: &str) {
    let family: &'static str = FAMILIES.iter().find(|f| **f == family).copied().unwrap_or("tcp");
    std::panic::set_hook(Box::new(|_| {}));
    for i in 0..n_cases(family) {
        let (tx, rx) = mpsc::channel::<String>();
        let h = std::thread::Builder::new().name(format!("teardown-{i}")).spawn(move || {
            let tx2 = tx.clone();
            // the probe's thread-local first ...
            AT_EXIT.with(|a| {
                a.borrow_mut().0 = Some(Box::new(move || {
                    let _ = tx2.send(guarded_case(family, i));
                }))
            });
            // ... then the library, in the body of the thread
            let _ = tx.send(guarded_case(family, i));
        });
        let _ = h.map(|h| h.join());
        let body = rx.recv().unwrap_or_else(|_| "<nothing>".into());
        let exit = rx.recv().unwrap_or_else(|_| "<nothing>".into());
        println!("case {i}\t{body}\t{exit}");
    }
    println!("teardown done {}", n_cases(family));
}

/// Parent side: run the child for `family` and judge its lines.
pub fn judge(prop: &'static str, family: &str, acc: &mut Acc) {
    let case = Case::new("teardown", vec![]).text(&[family]);
    let replay = crate::props::in_replay(&case);
    acc.evaluations += 1;
    acc.validated += 1;
    let exe = match std::env::current_exe() {
        Ok(e) => e,
        Err(e) => panic!("harness: current_exe: {e}"),
    };
    let out = match std::process::Command::new(exe).arg("teardown").arg(family).output() {
        Ok(o) => o,
        Err(e) => panic!("harness: cannot start the teardown child: {e}"),
    };
    let text = String::from_utf8_lossy(&out.stdout).into_owned();
    let mut seen = 0usize;
    for line in text.lines() {
        let f: Vec<&str> = line.split('\t').collect();
        if f.len() == 3 && f[0].starts_with("case ") {
            seen += 1;
            acc.evaluations += 1;
            if f[1] != f[2] || f[1].starts_with("PANIC") {
                let short = |s: &str| s.chars().take(200).collect::<String>();
                acc.violation(Violation::new(prop, &format!("thread-teardown/{family}"), format!("{} of the {family} family gives another result when it runs from the destructor of a thread-local at thread exit than in the body of the thread", f[0]), short(f[1]), short(f[2]), replay.clone()));
            }
        }
    }
    let done = text.lines().any(|l| l.starts_with("teardown done"));
    if !out.status.success() || !done {
        let err = String::from_utf8_lossy(&out.stderr);
        acc.violation(Violation::new(prop, &format!("thread-teardown/{family}/process-died"), format!("the process died while the {family} family ran from thread-local destructors (after {seen} cases)"), "all cases complete".to_string(), format!("{} {}", out.status, err.lines().rev().take(3).collect::<Vec<_>>().join(" / ")), replay));
    }
    acc.outcome("thread teardown probe");
}
