use crate::common::*;
use serde_json::Value;
pub fn replay(_prop: &str, _rp: &Value) -> Vec<Violation> { vec![] }
