//! Engine SM: explicit-state breadth-first search over a model whose transition function
//! executes the real component (DESIGN.md §4).  Level-synchronous: every level is expanded in
//! parallel, deduplicated sequentially in a fixed order, so state and transition counts are
//! reproducible and the first discovery of a violation is a shortest one.

pub mod snapshot;

use crate::common::*;
use rayon::prelude::*;
use serde_json::Value;
use std::collections::HashSet;

pub trait SmModel: Sync {
    type State: Clone + Send + Sync;
    type Action: Clone + Send + Sync;

    fn name(&self) -> String;
    fn init(&self) -> Vec<Self::State>;
    /// enabled actions of the slice in state `s` (none for a diverged state)
    fn actions(&self, s: &Self::State, out: &mut Vec<Self::Action>);
    /// Execute `a` on the real object (rebuilt from the history in `s`) in lock-step with the
    /// reference; violations go to `acc`.  `None` = outside the population bounds.
    fn step(&self, s: &Self::State, a: &Self::Action, acc: &mut Acc) -> Option<Self::State>;
    /// deduplication key: reference state + canonical snapshot of the real object
    fn key(&self, s: &Self::State) -> u128;
    /// work done once per unique state (drain, differential replays, witnesses)
    fn on_unique(&self, s: &Self::State, acc: &mut Acc);
    fn describe(&self, s: &Self::State) -> Value;
}

pub struct SmResult {
    pub acc: Acc,
    pub states: u64,
    pub transitions: u64,
    pub depth_completed: usize,
    pub per_level: Vec<(usize, u64, u64)>,
    pub capped: Option<String>,
}

pub struct Limits {
    pub max_depth: usize,
    pub max_states: u64,
    pub budget_s: f64,
}

pub fn explore<M: SmModel>(m: &M, lim: &Limits, start: std::time::Instant) -> SmResult {
    let mut seen: HashSet<u128> = HashSet::new();
    let mut acc = Acc::default();
    let mut frontier: Vec<M::State> = Vec::new();
    for s in m.init() {
        if seen.insert(m.key(&s)) {
            frontier.push(s);
        }
    }
    let mut states = frontier.len() as u64;
    let mut transitions = 0u64;
    let mut per_level = vec![(0usize, states, 0u64)];
    let mut capped = None;
    let mut depth_completed = 0usize;
    let mut last_level_s = 0.0f64;
    let mut growth = 4.0f64;
    // unique-state work for the initial states
    let a0 = frontier.par_iter().fold(Acc::default, |mut a, s| { m.on_unique(s, &mut a); a }).reduce(Acc::default, |a, b| a.merge(b));
    acc = acc.merge(a0);
    for depth in 1..=lim.max_depth {
        if frontier.is_empty() {
            depth_completed = depth - 1;
            break;
        }
        // a level is atomic (it must be completed for the "levels <= d are complete" claim), so the
        // budget is applied predictively: estimated cost of the next level = last level x growth
        let elapsed = crate::common::effective_secs(start);
        let wall = start.elapsed().as_secs_f64();
        let predicted = last_level_s * growth.max(2.0);
        if elapsed > lim.budget_s || wall > 6.0 * lim.budget_s || (depth > 3 && elapsed + predicted > lim.budget_s) {
            capped = Some(format!("budget {:.0}s: level {depth} not started (elapsed {:.1}s, predicted {:.1}s); levels < {depth} are complete", lim.budget_s, elapsed, predicted));
            depth_completed = depth - 1;
            break;
        }
        let level_start = crate::common::effective_secs(start);
        // expand the level in parallel; results stay in frontier order
        let expanded: Vec<(Vec<(u128, M::State)>, Acc, u64)> = frontier
            .par_iter()
            .map(|s| {
                let mut local = Acc::default();
                let mut acts = Vec::new();
                m.actions(s, &mut acts);
                let mut succ = Vec::with_capacity(acts.len());
                let mut n = 0u64;
                for a in &acts {
                    n += 1;
                    if let Some(ns) = m.step(s, a, &mut local) {
                        let k = m.key(&ns);
                        // states of earlier levels are dropped at once (the set is only read here; it
                        // is extended in the sequential phase below), which keeps the level's memory
                        // proportional to its new states instead of its transitions
                        if !seen.contains(&k) {
                            succ.push((k, ns));
                        }
                    }
                }
                (succ, local, n)
            })
            .collect();
        let mut next: Vec<M::State> = Vec::new();
        for (succ, local, n) in expanded {
            transitions += n;
            acc = acc.merge(local);
            for (k, ns) in succ {
                if seen.insert(k) {
                    next.push(ns);
                }
            }
        }
        states += next.len() as u64;
        per_level.push((depth, next.len() as u64, transitions));
        depth_completed = depth;
        // per-unique-state work
        let au = next.par_iter().fold(Acc::default, |mut a, s| { m.on_unique(s, &mut a); a }).reduce(Acc::default, |a, b| a.merge(b));
        acc = acc.merge(au);
        let this = crate::common::effective_secs(start) - level_start;
        if last_level_s > 0.01 {
            growth = this / last_level_s;
        }
        last_level_s = this;
        // resident-set cap (the sandbox has no swap): stop expanding rather than be killed
        let rss_gb = std::fs::read_to_string("/proc/self/statm").ok().and_then(|t| t.split_whitespace().nth(1).and_then(|p| p.parse::<f64>().ok())).map(|pages| pages * 4096.0 / 1e9).unwrap_or(0.0);
        let rss_cap = std::env::var("VERIF_RSS_CAP_GB").ok().and_then(|v| v.parse::<f64>().ok()).unwrap_or(36.0);
        if rss_gb > rss_cap {
            capped = Some(format!("resident set {rss_gb:.1} GB above the cap of {rss_cap:.0} GB after level {depth}; levels <= {depth} are complete"));
            frontier = next;
            break;
        }
        if states > lim.max_states {
            capped = Some(format!("state cap {} exceeded after level {depth}; levels <= {depth} are complete", lim.max_states));
            frontier = next;
            break;
        }
        frontier = next;
    }
    if acc.samples.len() < 3 {
        for s in frontier.iter().take(3) {
            acc.sample(m.describe(s));
        }
    }
    SmResult { acc, states, transitions, depth_completed, per_level, capped }
}

pub fn replay(prop: &str, rp: &Value) -> Vec<Violation> {
    match rp.get("model").and_then(|m| m.as_str()) {
        Some("agent") => crate::agent::model::replay(prop, rp),
        Some("agent-schedule") => crate::agent::schedule::replay(prop, rp),
        Some("agent-scale") => crate::agent::scale::replay(prop, rp),
        other => {
            eprintln!("MACHINERY-FAILURE: replay names unknown model {other:?}");
            std::process::exit(2)
        }
    }
}
