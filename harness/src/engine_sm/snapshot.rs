//! Canonical snapshot of a real object from its derived `Debug` output (DESIGN.md §4.3):
//! children of every `{...}` group are sorted (map/set order is not state), `Instant` leaves are
//! rewritten as offsets from the model time, the `id` field (tracing counter) is dropped.

use std::time::Instant;

#[derive(Debug, Clone, PartialEq, Eq, PartialOrd, Ord)]
enum Node {
    Leaf(String),
    /// (opening delimiter, prefix text before it, children)
    Group(char, String, Vec<Node>),
}

struct Parser<'a> {
    s: &'a [u8],
    i: usize,
}

impl<'a> Parser<'a> {
    /// parse a comma-separated list of items until one of the closing delimiters (or end)
    fn items(&mut self, close: Option<u8>) -> Vec<Node> {
        let mut out = Vec::new();
        loop {
            self.skip_ws();
            if self.i >= self.s.len() {
                break;
            }
            if Some(self.s[self.i]) == close {
                self.i += 1;
                break;
            }
            out.push(self.item(close));
            self.skip_ws();
            if self.i < self.s.len() && self.s[self.i] == b',' {
                self.i += 1;
            }
        }
        out
    }

    fn skip_ws(&mut self) {
        while self.i < self.s.len() && (self.s[self.i] == b' ' || self.s[self.i] == b'\n') {
            self.i += 1;
        }
    }

    /// one item: text possibly followed by a group, possibly followed by more text (e.g. `k: v`)
    fn item(&mut self, close: Option<u8>) -> Node {
        let mut parts: Vec<Node> = Vec::new();
        let mut text = String::new();
        while self.i < self.s.len() {
            let c = self.s[self.i];
            if c == b',' || Some(c) == close {
                break;
            }
            match c {
                b'"' => {
                    // string literal with escapes
                    text.push('"');
                    self.i += 1;
                    while self.i < self.s.len() {
                        let d = self.s[self.i];
                        text.push(d as char);
                        self.i += 1;
                        if d == b'\\' && self.i < self.s.len() {
                            text.push(self.s[self.i] as char);
                            self.i += 1;
                        } else if d == b'"' {
                            break;
                        }
                    }
                }
                b'{' | b'[' | b'(' => {
                    let closing = match c {
                        b'{' => b'}',
                        b'[' => b']',
                        _ => b')',
                    };
                    self.i += 1;
                    let children = self.items(Some(closing));
                    let prefix = std::mem::take(&mut text);
                    parts.push(Node::Group(c as char, prefix.trim().to_string(), children));
                }
                _ => {
                    text.push(c as char);
                    self.i += 1;
                }
            }
        }
        if parts.is_empty() {
            return Node::Leaf(text.trim().to_string());
        }
        if !text.trim().is_empty() {
            parts.push(Node::Leaf(text.trim().to_string()));
        }
        if parts.len() == 1 {
            return parts.pop().unwrap();
        }
        Node::Group('+', String::new(), parts)
    }
}

fn instant_parts(i: Instant) -> (i128, i128) {
    // `Instant { tv_sec: S, tv_nsec: N }`
    let s = format!("{i:?}");
    let num = |key: &str| -> i128 {
        let p = s.find(key).map(|p| p + key.len()).unwrap_or(0);
        s[p..].trim_start().chars().take_while(|c| c.is_ascii_digit() || *c == '-').collect::<String>().parse().unwrap_or(0)
    };
    (num("tv_sec:"), num("tv_nsec:"))
}

fn render(n: &Node, now_ns: i128, out: &mut String) {
    match n {
        Node::Leaf(s) => out.push_str(s),
        Node::Group(d, prefix, children) => {
            // Instant leaf -> offset from model time
            if prefix.ends_with("Instant") && *d == '{' {
                let mut sec = 0i128;
                let mut nsec = 0i128;
                for c in children {
                    if let Node::Leaf(l) = c {
                        if let Some(v) = l.strip_prefix("tv_sec:") {
                            sec = v.trim().parse().unwrap_or(0);
                        }
                        if let Some(v) = l.strip_prefix("tv_nsec:") {
                            nsec = v.trim().parse().unwrap_or(0);
                        }
                    }
                }
                let rel = sec * 1_000_000_000 + nsec - now_ns;
                out.push_str(&prefix[..prefix.len() - "Instant".len()]);
                out.push_str(&format!("T{:+}ns", rel));
                return;
            }
            out.push_str(prefix);
            let mut rendered: Vec<String> = Vec::new();
            for c in children {
                if let Node::Leaf(l) = c {
                    if l.starts_with("id:") && prefix.ends_with("StunAgent") {
                        continue; // tracing counter
                    }
                    // fields that differ between two objects built the same way (learnt, see learn_instance_fields):
                    // per-instance serial numbers whatever they are called
                    if let Some(fields) = INSTANCE_FIELDS.get() {
                        if let Some(k) = l.split(':').next() {
                            if fields.iter().any(|(g, f)| f == k && prefix.trim_end().ends_with(g.as_str())) {
                                continue;
                            }
                        }
                    }
                }
                let mut s = String::new();
                render(c, now_ns, &mut s);
                rendered.push(s);
            }
            match d {
                '{' => {
                    rendered.sort();
                    out.push('{');
                    out.push_str(&rendered.join(", "));
                    out.push('}');
                }
                '[' => {
                    out.push('[');
                    out.push_str(&rendered.join(", "));
                    out.push(']');
                }
                '(' => {
                    out.push('(');
                    out.push_str(&rendered.join(", "));
                    out.push(')');
                }
                _ => out.push_str(&rendered.join(" ")),
            }
        }
    }
}

static INSTANCE_FIELDS: std::sync::OnceLock<Vec<(String, String)>> = std::sync::OnceLock::new();

/// Learn which fields of the outermost group are per-instance serial numbers: `d1` and `d2` are the Debug
/// texts of two objects built the same way, one after the other.  A field of the outermost group whose
/// text differs between them is not state (the tracing counter of `StunAgent`, under whatever name) and
/// is left out of the canonical snapshot.  Called once, before the first snapshot is taken.
pub fn learn_instance_fields(d1: &str, d2: &str) {
    let _ = INSTANCE_FIELDS.get_or_init(|| {
        let mut out = Vec::new();
        let a = Parser { s: d1.as_bytes(), i: 0 }.items(None);
        let b = Parser { s: d2.as_bytes(), i: 0 }.items(None);
        if let (Some(Node::Group(_, pa, ca)), Some(Node::Group(_, pb, cb))) = (a.first(), b.first()) {
            if pa == pb && ca.len() == cb.len() {
                for (x, y) in ca.iter().zip(cb.iter()) {
                    if let (Node::Leaf(lx), Node::Leaf(ly)) = (x, y) {
                        let (kx, ky) = (lx.split(':').next().unwrap_or(""), ly.split(':').next().unwrap_or(""));
                        if lx != ly && kx == ky && lx.contains(':') {
                            out.push((pa.trim().to_string(), kx.to_string()));
                        }
                    }
                }
            }
        }
        out
    });
}

/// Canonical text of `debug` with instants relative to `now`.
pub fn canonical(debug: &str, now: Instant) -> String {
    let mut p = Parser { s: debug.as_bytes(), i: 0 };
    let nodes = p.items(None);
    let (s, n) = instant_parts(now);
    let now_ns = s * 1_000_000_000 + n;
    let mut out = String::new();
    for n in &nodes {
        render(n, now_ns, &mut out);
        out.push(';');
    }
    out
}

pub fn hash128(s: &str) -> u128 {
    // two independent 64-bit FNV-style passes
    let mut a: u64 = 0xcbf29ce484222325;
    let mut b: u64 = 0x9E3779B97F4A7C15;
    for &c in s.as_bytes() {
        a = (a ^ c as u64).wrapping_mul(0x100000001b3);
        b = (b.rotate_left(5) ^ c as u64).wrapping_mul(0xff51afd7ed558ccd);
    }
    ((a as u128) << 64) | b as u128
}

pub fn selftest() -> Vec<String> {
    let mut f = Vec::new();
    let base = Instant::now();
    let later = base + std::time::Duration::from_millis(1500);
    let d1 = format!("S {{ id: 3, m: {{2: X {{ t: Some({:?}) }}, 1: Y}}, v: [3, 1, 2], s: \"a{{,b\" }}", later);
    let d2 = format!("S {{ id: 3, m: {{1: Y, 2: X {{ t: Some({:?}) }}}}, v: [3, 1, 2], s: \"a{{,b\" }}", later + std::time::Duration::from_secs(7));
    let c1 = canonical(&d1, base);
    let c2 = canonical(&d2, base + std::time::Duration::from_secs(7));
    if c1 != c2 {
        f.push(format!("snapshot canonicalisation: {c1} != {c2}"));
    }
    if !c1.contains("T+1500000000ns") {
        f.push(format!("snapshot instant rewriting: {c1}"));
    }
    let d3 = format!("S {{ id: 3, m: {{1: Y, 2: X {{ t: Some({:?}) }}}}, v: [1, 3, 2], s: \"a{{,b\" }}", later);
    if canonical(&d3, base) == c1 {
        f.push("snapshot must keep list order".into());
    }
    f
}
