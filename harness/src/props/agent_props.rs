//! Agent properties C05 C06 C07 C15 C18 C20: each runs slices of the shared agent model
//! (DESIGN.md §4.4, §6) and demands its reachability witnesses (Appendix C).

use crate::agent::model::{AgentModel, Slice};
use crate::agent::{Auth, Seal, When};
use crate::common::*;
use crate::engine_sm::{explore, Limits};
use serde_json::json;

pub struct SliceRun {
    pub slice: Slice,
    pub depth: usize,
}

pub fn run_slices(ctx: &Ctx, runs: Vec<SliceRun>, required: &[&str], rule: &str, extra: Option<Acc>) -> Report {
    crate::agent::model::set_seed(ctx.seed);
    let mut acc = Acc::default();
    let mut states = 0u64;
    let mut transitions = 0u64;
    let mut caps = Vec::new();
    let mut levels = Vec::new();
    let mut exhaustive = true;
    let n_runs = runs.len().max(1);
    // the wall budget is shared in proportion to 3^depth of the slices still to run (the small
    // special-purpose slices need a fraction of what the main slices need), and what an earlier slice
    // leaves unused goes to the later ones
    let weights: Vec<f64> = runs.iter().map(|r| 3f64.powi(r.depth as i32)).collect();
    for (ri, r) in runs.into_iter().enumerate() {
        let m = AgentModel { slice: r.slice.clone() };
        let depth = std::env::var("VERIF_DEPTH").ok().and_then(|d| d.parse::<usize>().ok()).unwrap_or(r.depth);
        let lim = Limits { max_depth: depth, max_states: ctx.tier.pick(3_000_000, 12_000_000), budget_s: ((ctx.budget_s() - ctx.elapsed()).max(1.0) * weights[ri] / weights[ri..].iter().sum::<f64>()).max(ctx.budget_s() / (4 * n_runs) as f64) + ctx.elapsed() };
        let res = explore(&m, &lim, ctx.start);
        states += res.states;
        transitions += res.transitions;
        levels.push(json!({"slice": r.slice.name, "tcp": r.slice.tcp, "depth_bound": r.depth, "depth_completed": res.depth_completed, "states": res.states, "transitions": res.transitions, "per_level": res.per_level}));
        if let Some(c) = res.capped {
            caps.push(format!("{}: {}", crate::engine_sm::SmModel::name(&m), c));
            exhaustive = false;
        }
        acc = acc.merge(res.acc);
    }
    if let Some(e) = extra {
        acc = acc.merge(e);
    }
    if acc.outcomes.contains_key("diverged (path not extended)") {
        exhaustive = false;
    }
    let missing: Vec<String> = required.iter().filter(|w| !acc.outcomes.contains_key(&format!("witness: {w}"))).map(|w| w.to_string()).collect();
    let mut rep = Report {
        acc,
        states,
        transitions,
        exhaustive,
        rule: rule.to_string(),
        bounds: json!({"slices": levels}),
        assumptions: vec![
            "time values on the lattice {now, wake-1, wake, wake+1, wake+700, far, ticks}; population bounds of the slice".into(),
            "deduplication key = reference state + hash of the canonical Debug snapshot of the real agent (time-shift invariance is checked by C20)".into(),
        ],
        caps_hit: caps,
        missing_witnesses: missing,
        ..Default::default()
    };
    rep.extra.insert("explorer".into(), json!("level-synchronous BFS, parallel expansion, ordered sequential deduplication (counts reproducible)"));
    rep
}

pub fn base_slice(name: &'static str, prop: &'static str, tcp: bool) -> Slice {
    Slice {
        name,
        prop,
        tcp,
        ids: 3,
        send: vec![(0, Seal::None, 0)],
        send_other: vec![],
        poll_whens: vec![When::Now, When::Wake],
        all_orders: true,
        ticks: vec![],
        resp: vec![],
        resp_unknown: false,
        resp_completed: false,
        incoming: vec![],
        cancel: false,
        cancel_rtx: false,
        configs: vec![],
        set_remote: vec![],
        set_local: vec![],
        rebuild: vec![],
        max_live: 3,
        max_sends: 4,
        drain: true,
        differential: false,
    }
}

// ---------------------------------------------------------------------------------------------

pub fn c05(ctx: &Ctx) -> Report {
    let mut runs = Vec::new();
    for tcp in [false, true] {
        let mut s = base_slice("completion", "C05", tcp);
        s.send = vec![(0, Seal::None, 0), (1, Seal::Sha1, 0), (1, Seal::Sha1, 0x10)];
        s.send_other = vec![(1, 0)];
        s.poll_whens = vec![When::Now, When::Wake, When::WakePlus700];
        s.resp = vec![(2, Auth::None, 0), (2, Auth::Sha1(1), 0), (3, Auth::Sha1(2), 1)];
        s.resp_unknown = true;
        s.resp_completed = true;
        s.incoming = vec![(0, 2)];
        s.cancel = true;
        s.cancel_rtx = true;
        s.configs = vec![0, 1];
        s.set_remote = vec![1, 2];
        runs.push(SliceRun { slice: s, depth: ctx.tier.pick(7, 9) });
        // an agent built with .remote_addr(P) (P a destination / another peer): the stored address
        // changes nothing about which responses complete which transactions
        let mut s = base_slice("built with remote_addr", "C05", tcp);
        s.ids = 2;
        s.max_live = 2;
        s.max_sends = 2;
        s.send = vec![(0, Seal::None, 0), (1, Seal::None, 1)];
        s.send_other = vec![(1, 2)];
        s.poll_whens = vec![When::Wake];
        s.resp = vec![(2, Auth::None, 0), (2, Auth::None, 1), (3, Auth::None, 2)];
        s.resp_unknown = true;
        s.incoming = vec![(0, 0), (0, 2)];
        s.cancel = true;
        s.rebuild = vec![0, 2];
        runs.push(SliceRun { slice: s, depth: ctx.tier.pick(6, 8) });
    }
    let req = ["timed out", "cancelled by cancel()", "completed after cancel_retransmissions()", "response delivered", "id re-sent after completion", "duplicate send refused", "response after timeout dropped", "two requests due at one poll, non-default order taken"];
    run_slices(ctx, runs, &req, "all call histories up to the depth over {send (2 shapes, duplicate ids), send indication, poll at now/wake/wake+700ms x all map-iteration orders, responses (unsigned, SHA-1 under R1/R2) for live, completed and unknown ids, incoming request with a live id, cancel, cancel_retransmissions, configure (1ms,0,0)/(7ms,3,0), set remote credentials}, <= 3 live, <= 4 sends, UDP and TCP; from every unique state a drain to completion; plus single-transaction schedules to completion with one of {response, error response from another source, response for an unknown id, duplicate send, incoming request / indication with the same id, indication sent, cancel, cancel_retransmissions} at every step index x 2 poll patterns x 6 base configurations (all in thorough); distinct_nontrivial = unique states", Some(crate::agent::schedule::completion_sweep(ctx).merge(crate::agent::scale::sweep("C05", ctx.tier == Tier::Thorough))))
}

pub fn c06(ctx: &Ctx) -> Report {
    let sweep = crate::agent::schedule::sweep(ctx);
    let mut runs = Vec::new();
    for tcp in [false, true] {
        let mut s = base_slice("timing", "C06", tcp);
        s.send = vec![(0, Seal::None, 0)];
        s.poll_whens = vec![When::Now, When::WakeMinus1, When::Wake, When::WakePlus1, When::WakePlus700, When::Far, When::Past];
        s.ticks = vec![1, 250];
        s.configs = vec![0, 1, 2, 3, 4];
        s.cancel_rtx = true;
        s.resp = vec![(2, Auth::None, 0)];
        s.max_sends = 3;
        runs.push(SliceRun { slice: s, depth: ctx.tier.pick(7, 8) });
    }
    let req = ["timed out after the full retransmission schedule", "two requests due at one poll, non-default order taken", "WaitUntil answered with three requests live", "reconfiguration shortened the schedule below the transmissions made", "completed after cancel_retransmissions()"];
    run_slices(ctx, runs, &req, "(a) single-transaction schedule sweep to completion: rto {1,37,499,500,3000,60000} x retransmits 0..=8 x last {0,1,7777,60000} + named configurations + default, UDP and TCP, every poll pattern {exact, early-then-exact, late 1 ms, late half interval} per wake-up (exhaustive up to 6 wake-ups, <= 2 non-exact above), reconfiguration / cancel_retransmissions / cancel at every step index; (b) state space with up to 3 concurrent transactions: send, ticks 1/250 ms, six poll timings x all orders, five configurations, cancel_retransmissions, one plain response; (c) long histories with 1..=300 concurrent requests under a mix of configurations (agent/scale.rs)", Some(sweep.merge(crate::agent::scale::sweep("C06", ctx.tier == Tier::Thorough))))
}

pub fn c07(ctx: &Ctx) -> Report {
    let mut runs = Vec::new();
    for tcp in [false, true] {
        let mut s = base_slice("authentication", "C07", tcp);
        s.ids = 2;
        s.max_live = 2;
        s.max_sends = 2;
        s.send = vec![(0, Seal::None, 0), (0, Seal::Sha1, 0), (0, Seal::Sha256, 1), (0, Seal::Both, 0), (0, Seal::Sha1, 2), (0, Seal::Sha1, 0x10), (0, Seal::Sha256, 0x21), (0, Seal::Both, 0x30)];
        s.poll_whens = vec![When::Now, When::Wake, When::WakePlus1];
        let mut resp = Vec::new();
        for auth in [Auth::None, Auth::Sha1(1), Auth::Sha1(2), Auth::Sha256(1), Auth::Both(1), Auth::Sha1Flipped(1), Auth::Sha1(0), Auth::Sha256(2)] {
            resp.push((2u8, auth, 0u8));
        }
        resp.push((3, Auth::Sha1(1), 2));
        resp.push((3, Auth::None, 2));
        // long-term remote credentials (key 3) and a response sealed with them
        resp.push((2, Auth::Sha1(3), 0));
        s.resp = resp;
        s.set_remote = vec![1, 2, 3];
        s.set_local = vec![0];
        s.configs = vec![1];
        s.cancel = true;
        s.cancel_rtx = true;
        runs.push(SliceRun { slice: s, depth: ctx.tier.pick(7, 10) });
        // credential kinds: local credentials short-term / long-term x remote credentials unset /
        // short-term / long-term, responses signed with each of those keys (a response signed with
        // the agent's own credentials proves nothing about the peer)
        let mut s = base_slice("credential kinds", "C07", tcp);
        s.ids = 1;
        s.max_live = 1;
        s.max_sends = 2;
        s.send = vec![(0, Seal::Sha1, 0), (0, Seal::Sha256, 0)];
        s.poll_whens = vec![When::Wake];
        s.resp = vec![(2, Auth::None, 0), (2, Auth::Sha1(0), 0), (2, Auth::Sha1(1), 0), (2, Auth::Sha1(3), 0), (2, Auth::Sha256(3), 0), (3, Auth::Sha256(1), 0), (2, Auth::Sha256Trunc(1), 0), (2, Auth::Sha256Trunc(3), 0), (2, Auth::Sha256Flipped(1), 0), (2, Auth::MixedSha1Good(1), 0), (2, Auth::MixedSha256Good(1), 0), (2, Auth::Sha1WireLenFp(1), 0), (2, Auth::Sha256WireLenFp(1), 0)];
        s.set_remote = vec![1, 3];
        s.set_local = vec![0, 3];
        s.rebuild = vec![0];
        runs.push(SliceRun { slice: s.clone(), depth: ctx.tier.pick(6, 8) });
        // look-alike keys: remote credentials with a no-break / ideographic space or a composed
        // character, responses signed with the plain-space / upper-case / trailing-space / decomposed
        // spelling (another key, however similar, must be dropped)
        let mut s = base_slice("look-alike keys", "C07", tcp);
        s.ids = 1;
        s.max_live = 1;
        s.max_sends = 1;
        s.send = vec![(0, Seal::Sha1, 0)];
        s.poll_whens = vec![When::Wake];
        s.resp = vec![(2, Auth::Sha1(4), 0), (2, Auth::Sha1(5), 0), (2, Auth::Sha256(5), 0), (2, Auth::Sha1(6), 0), (2, Auth::Sha1(7), 0), (2, Auth::Sha1(8), 0), (2, Auth::Sha256(9), 0), (2, Auth::Sha1(1), 0), (2, Auth::Sha1(10), 0), (2, Auth::Sha1(11), 0), (2, Auth::Sha256(11), 0)];
        s.set_remote = vec![1, 4, 8, 10];
        runs.push(SliceRun { slice: s, depth: ctx.tier.pick(6, 8) });
    }
    let req = ["response delivered", "forged or unauthenticated response dropped", "genuine SHA-1 response delivered to an authenticated request", "genuine SHA-256 response delivered to an authenticated request", "genuine SHA-1+SHA-256 response delivered to an authenticated request", "timed out"];
    run_slices(ctx, runs, &req, "all histories up to the depth over {send with no / SHA-1 / SHA-256 / both integrity (also behind 18 other attributes), responses unsigned / SHA-1 under R1, R2, local key / SHA-256 under R1, R2 / both / one HMAC bit flipped x success, error x two sources, set remote credentials R1/R2/long-term at any point (unset, set, changed mid-transaction), set local credentials, poll now/wake/wake+1, configure (7ms,3,0), cancel, cancel_retransmissions}, <= 2 live; delivery judged by the reference HMAC; drain from every state; plus single-transaction schedules of an authenticated request to completion with a forged / unsigned / corrupted / local-key / genuine response at every step index x 2 poll patterns x 6 base configurations (all in thorough); plus success and error responses of every code 300..=699 x {NONCE, REALM, ALTERNATE-SERVER, FINGERPRINT present or not} x five integrity states x short- / long-term credentials (agent/scale.rs, responses)", Some(crate::agent::schedule::forgery_sweep(ctx).merge(crate::agent::scale::sweep("C07", ctx.tier == Tier::Thorough))))
}

pub fn c15(ctx: &Ctx) -> Report {
    let mut runs = Vec::new();
    for tcp in [false, true] {
        let mut s = base_slice("peers", "C15", tcp);
        s.ids = 2;
        s.max_live = 2;
        s.max_sends = 3;
        s.send = vec![(0, Seal::None, 0), (1, Seal::Sha1, 0), (2, Seal::None, 0)];
        s.send_other = vec![(1, 2)];
        s.poll_whens = vec![When::Now, When::Wake];
        s.all_orders = false;
        s.incoming = vec![(0, 0), (1, 1), (0, 2), (1, 3), (0, 5), (1, 6), (0, 7)];
        s.resp = vec![(2, Auth::None, 0), (2, Auth::Sha1(1), 1), (2, Auth::Sha1(2), 2), (3, Auth::None, 4), (2, Auth::Sha1(1), 3), (2, Auth::None, 5), (2, Auth::None, 7)];
        s.resp_unknown = true;
        s.resp_completed = true;
        s.set_remote = vec![1];
        s.drain = false;
        runs.push(SliceRun { slice: s, depth: ctx.tier.pick(8, 11) });
        // "stays validated" under every other call of the API: credentials set and replaced (both
        // kinds, both directions), reconfiguration, cancel, cancel_retransmissions, time-out
        let mut s = base_slice("stays validated", "C15", tcp);
        s.ids = 1;
        s.max_live = 1;
        s.max_sends = 2;
        s.send = vec![(0, Seal::None, 0), (1, Seal::Sha1, 0)];
        s.send_other = vec![(1, 2)];
        s.poll_whens = vec![When::Wake, When::Far];
        s.incoming = vec![(0, 0), (1, 2), (4, 3), (5, 4), (6, 5), (7, 6)];
        // responses whose attributes name other addresses of the universe (300 + ALTERNATE-SERVER naming
        // P5, XOR-MAPPED-ADDRESS naming P4), unsigned and signed: what a response says validates nobody
        s.resp = vec![(2, Auth::None, 0), (2, Auth::Sha1(1), 1), (2, Auth::Sha1(2), 1), (6, Auth::None, 0), (6, Auth::Sha1(1), 1), (7, Auth::Sha1(1), 1), (4, Auth::Sha1(1), 1)];
        s.set_remote = vec![1, 2, 3];
        s.set_local = vec![0, 3];
        s.configs = vec![0, 1];
        s.cancel = true;
        s.cancel_rtx = true;
        s.rebuild = vec![0, 2];
        s.drain = false;
        runs.push(SliceRun { slice: s, depth: ctx.tier.pick(6, 8) });
    }
    let req = ["response delivered", "peer other than a destination validated by an incoming request"];
    run_slices(ctx, runs, &req, "all histories up to the depth over {send to P1/P2/P3, send indication, incoming request/indication from four sources, responses (valid, wrong key, unsigned, unknown id) from eight sources including non-destinations, addresses differing only in port or only in IP, the IPv4-mapped IPv6 form of a destination and one link-local address under two scope ids, set remote credentials, poll}; after every step is_validated_peer for all eight addresses vs the reference set", Some(crate::agent::scale::sweep("C15", ctx.tier == Tier::Thorough)))
}

pub fn c18(ctx: &Ctx) -> Report {
    let mut runs = Vec::new();
    for tcp in [false, true] {
        let mut s = base_slice("transmissions", "C18", tcp);
        s.send = vec![(0, Seal::None, 0), (1, Seal::Sha1, 1)];
        s.send_other = vec![(1, 0), (2, 1), (3, 2), (crate::agent::DATA_KIND, 1)];
        s.poll_whens = vec![When::Wake, When::WakePlus700];
        s.configs = vec![1, 4];
        s.resp = vec![(2, Auth::Sha1(2), 0)];
        s.set_local = vec![0];
        s.rebuild = vec![1];
        runs.push(SliceRun { slice: s, depth: ctx.tier.pick(8, 10) });
    }
    // answering: requests arrive from two peers (also the same request again), success and error responses
    // of different contents under the request's id go to both, ticks of 1 ms / 250 ms / 41 s in between: what
    // is transmitted is what was handed to send, every time
    for tcp in [false, true] {
        let mut s = base_slice("answers", "C18", tcp);
        s.ids = 1;
        s.max_live = 1;
        s.max_sends = 1;
        s.send = vec![];
        s.send_other = vec![(4, 0), (5, 0), (4, 1), (5, 1), (2, 0)];
        s.incoming = vec![(0, 0), (0, 1), (1, 0)];
        s.poll_whens = vec![When::Now];
        s.ticks = vec![1, 41_000];
        s.drain = false;
        runs.push(SliceRun { slice: s, depth: ctx.tier.pick(6, 7) });
    }
    let req = ["timed out", "two requests due at one poll, non-default order taken"];
    run_slices(ctx, runs, &req, "all histories up to depth 6 (7) over {a request / an indication arriving from two peers, success / error responses of two different contents under that request's id sent to both peers, ticks of 1 ms / 41 s}; all histories up to the depth over {send with two payload shapes to P1/P2, send indication / success / error response, poll at wake / wake+700ms x all orders, configure (7ms,3,0) / (60s,8,60s), one dropped response}, UDP and TCP, drain from every state so that every retransmission of every schedule position is inspected: bytes = the harness' own serialisation, from = local, to = destination, transport, peer_address; plus single-transaction schedules to completion with a reconfiguration (five configurations), cancel_retransmissions or a dropped response at every step index", Some(crate::agent::schedule::transmission_sweep(ctx).merge(crate::agent::scale::sweep("C18", ctx.tier == Tier::Thorough))))
}

pub fn c20(ctx: &Ctx) -> Report {
    // unrelated agents populate whatever the library keeps outside an agent before the exploration
    if std::env::var("VERIF_PRISTINE").is_err() {
        crate::agent::prelude::pollute_process();
    }
    let mut runs = Vec::new();
    for tcp in [false, true] {
        let mut s = base_slice("purity", "C20", tcp);
        s.send = vec![(0, Seal::None, 0), (1, Seal::Sha1, 1)];
        s.send_other = vec![(1, 0), (crate::agent::DATA_KIND, 2)];
        s.poll_whens = vec![When::Now, When::Wake, When::WakePlus700];
        s.ticks = vec![250];
        s.resp = vec![(2, Auth::None, 0), (2, Auth::Sha1(1), 1)];
        s.resp_unknown = true;
        s.incoming = vec![(0, 2)];
        s.cancel = true;
        s.cancel_rtx = true;
        s.configs = vec![0, 1, 3];
        s.set_remote = vec![1];
        s.set_local = vec![0];
        s.rebuild = vec![1];
        s.drain = false;
        s.differential = true;
        runs.push(SliceRun { slice: s, depth: ctx.tier.pick(5, 7) });
    }
    let req = ["response delivered", "timed out"];
    let mut rep = c20_slices(ctx, runs, &req);
    // thread teardown: small histories of four families in the body of a thread and again from a
    // thread-local destructor at its exit (child process)
    crate::teardown::judge("C20", "agent", &mut rep.acc);
    crate::teardown::callsite_sweep("C20", "agent", &mut rep.acc);
    rep.assumptions.push("thread teardown probe (harness/src/teardown.rs): 12 small histories (transactions, peers, sizes, responses x UDP / TCP) replayed from the destructor of a thread-local registered before the library's first use on the thread, in a child process; replies must equal those of the thread body".into());
    rep.assumptions.push(format!(
        "ambient seams (harness/src/ambient.rs): clock_gettime and getenv of this process are the harness' own; on the replay threads of this run the clock was read {} time(s) (the harness' own wall-clock variants included) and the environment was asked {} time(s) for names other than RUST_*, VERIF_*, NO_COLOR (names read: {:?}); every name read is re-run under {} values and unset",
        crate::ambient::CLOCK_READS.load(std::sync::atomic::Ordering::Relaxed),
        crate::ambient::ENV_READS.load(std::sync::atomic::Ordering::Relaxed),
        crate::ambient::env_names(),
        crate::ambient::ENV_VALUES.len()
    ));
    rep
}

fn c20_slices(ctx: &Ctx, runs: Vec<SliceRun>, req: &[&str]) -> Report {
    run_slices(ctx, runs, req, "(5b) with the process clock - the harness' own clock_gettime - jumping 7 s / 50 days at every read, and under every value of an 18-word alphabet for every environment variable the library was seen to read (the harness' own getenv); before the exploration unrelated agents are driven on the main thread and every pool thread (the universe's ids / peers / credential names in other hands, every named timing configuration offset by 0.4 / 0.5 / 0.9 ms and driven to its time-out); a breach of the reference model that a pristine child process does not reproduce on the same history is a C20 violation; every unique state's history of the union slice is replayed on a fresh thread that never ran an agent (reference) and then, on a second fresh thread in this order, (1) with the time base shifted by 10^9 ms, 1 day and 1 ms, (2) unchanged after those later histories, (3) interleaved step by step with an unrelated agent on the other transport running an hour ahead, (4) with the time base at the wall clock and an hour before it, and (5) with the agent handed to another thread half way (that thread drove an unrelated agent an hour ahead before); observations (with instants relative to the base) must be identical", Some(crate::agent::scale::sweep("C20", ctx.tier == Tier::Thorough)))
}
