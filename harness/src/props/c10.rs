//! C10 — only authenticated attributes are exposed after an integrity attribute.
//! Engine IN: every accepted message of the skeleton space (all orders/subsets of the sealing
//! attributes at the tail behind 0..2 ordinary attributes), reference-serialised so that orders the
//! builder refuses are included.

use crate::common::*;
use crate::engine_in::{self, Tok};
use crate::props::judge_guarded;
use crate::real;
use crate::refimpl::wire;
use crate::viol;
use rayon::prelude::*;
use serde_json::json;
use stun_types::attribute::AttributeType;
use stun_types::message::Message;

const P: &str = "C10";

fn alphabet() -> Vec<Tok> {
    vec![Tok::Opt(1), Tok::Sw(3), Tok::User, Tok::Mi, Tok::Mi256(32), Tok::Mi256(16), Tok::FpOk]
}

pub fn run(ctx: &Ctx) -> Report {
    let depth = ctx.tier.pick(7, 8);
    let sk = engine_in::sequences(&alphabet(), depth);
    let n_sk = sk.len();
    let tid = (ctx.seeded(10) as u128) << 8 | 1;
    let acc = sk
        .par_iter()
        .enumerate()
        .fold(Acc::default, |mut acc, (i, toks)| {
            for class in [0u8, 2] {
                let buf = engine_in::render(class, 1, tid, toks);
                let case = Case::new("expose", buf);
                if i % 2003 == 0 && class == 0 {
                    acc.sample(json!({"skeleton": toks.iter().map(|t| t.name()).collect::<Vec<_>>(), "case": case.brief()}));
                }
                judge_guarded(judge, &case, &mut acc);
            }
            acc
        })
        .reduce(Acc::default, |a, b| a.merge(b));
    // the one attribute an accepted message can hide is a MESSAGE-INTEGRITY behind a
    // MESSAGE-INTEGRITY-SHA256; its 20 value bytes are not authenticated and are the attacker's to
    // choose: every placement of a sealing-attribute header (FINGERPRINT / MI / MI-SHA256, with
    // length fields 0..=4 / the regular one) at every 4-aligned offset of that value
    let mut look: Vec<Case> = Vec::new();
    for prefix in [vec![], vec![Tok::Sw(3)], vec![Tok::Opt(1), Tok::User]] {
        for n256 in [16u8, 32] {
            for with_fp in [false, true] {
                for (t, lens) in [(wire::FP, vec![0u16, 1, 2, 3, 4, 8]), (wire::MI, vec![0, 4, 20]), (wire::MI256, vec![0, 4, 16, 32])] {
                    for l in lens {
                        for off in (0..=16usize).step_by(4) {
                            for fill in [0x00u8, 0xFF] {
                                let mut toks = prefix.clone();
                                toks.push(Tok::Mi256(n256));
                                let mut b = engine_in::render(0, 1, tid, &toks);
                                let mut v = vec![fill; 20];
                                v[off..off + 2].copy_from_slice(&t.to_be_bytes());
                                v[off + 2..off + 4].copy_from_slice(&l.to_be_bytes());
                                wire::append_raw(&mut b, wire::MI, &v);
                                if with_fp {
                                    wire::append_fp(&mut b);
                                }
                                look.push(Case::new("expose", b));
                            }
                        }
                    }
                }
            }
        }
    }
    // many distinct attribute types in one message (n = 1..=48 raw types, then every tail of sealing
    // attributes): a fixed-size table of "types seen" fills up at some n
    for n in 1..=48usize {
        for tail in [&[][..], &[Tok::Mi][..], &[Tok::Mi, Tok::Mi256(32)][..], &[Tok::Mi, Tok::Mi256(32), Tok::FpOk][..], &[Tok::FpOk][..], &[Tok::Mi256(16), Tok::FpOk][..], &[Tok::Mi, Tok::FpOk][..]] {
            for class in [0u8, 2] {
                let mut b = wire::encode_header(class, 1, tid, 0);
                for i in 0..n {
                    wire::append_raw(&mut b, if i % 2 == 0 { 0xC100 + i as u16 } else { 0x4100 + i as u16 }, &[i as u8]);
                }
                for t in tail {
                    match t {
                        Tok::Mi => wire::append_mi(&mut b, engine_in::KEY),
                        Tok::Mi256(k) => wire::append_mi256(&mut b, engine_in::KEY, *k as usize),
                        _ => wire::append_fp(&mut b),
                    }
                }
                look.push(Case::new("expose", b));
            }
        }
    }
    // messages at the top of the size range (65 500..=65 552 bytes in steps of 4: one large attribute,
    // then every tail of sealing attributes): the last attributes lie across byte 65 535
    for total in (65_500usize..=65_552).step_by(4) {
        for tail in [&[Tok::FpOk][..], &[Tok::Mi, Tok::FpOk][..], &[Tok::Mi, Tok::Mi256(32), Tok::FpOk][..], &[Tok::Mi256(16), Tok::FpOk][..], &[Tok::Mi][..], &[][..]] {
            let tail_len: usize = tail.iter().map(|t| match t { Tok::Mi => 24, Tok::Mi256(k) => 4 + *k as usize, _ => 8 }).sum();
            if total < 20 + 8 + tail_len + 4 {
                continue;
            }
            let filler = total - 20 - 8 - tail_len - 4; // SOFTWARE(1) takes 8, the filler attribute header 4
            if filler % 4 != 0 || filler > 65_000 + 535 {
                continue;
            }
            let mut b = wire::encode_header(2, 1, tid, 0);
            wire::append_raw(&mut b, 0x8022, b"x");
            wire::append_raw(&mut b, 0x0013, &vec![0x5Au8; filler]);
            for t in tail {
                match t {
                    Tok::Mi => wire::append_mi(&mut b, engine_in::KEY),
                    Tok::Mi256(k) => wire::append_mi256(&mut b, engine_in::KEY, *k as usize),
                    _ => wire::append_fp(&mut b),
                }
            }
            if b.len() == total && b.len() - 20 <= 0xFFFF {
                look.push(Case::new("expose", b));
            }
        }
    }
    // replayed HMAC values: an authentic message [A.., INTEGRITY(h)] re-arranged by someone without the
    // key into [A.., X(value h), B.., INTEGRITY(h)] - X an attribute of another type standing exactly where
    // the integrity attribute stood, B attributes of the forger's choosing; also h in an attribute before
    // A, h as the value of the first of two integrity attributes, and the plain original
    for sha256 in [false, true] {
        for a_list in [&[][..], &[(0x8022u16, &b"sw"[..])][..], &[(0x0006, &b"user"[..]), (0x0024, &[0, 0, 0, 7][..])][..]] {
            let mut orig = wire::encode_header(0, 1, tid, 0);
            for (t, v) in a_list {
                wire::append_raw(&mut orig, *t, v);
            }
            let prefix = orig.clone();
            if sha256 {
                wire::append_mi256(&mut orig, engine_in::KEY, 32);
            } else {
                wire::append_mi(&mut orig, engine_in::KEY);
            }
            let hlen = if sha256 { 32 } else { 20 };
            let h = orig[orig.len() - hlen..].to_vec();
            let mi_type = if sha256 { wire::MI256 } else { wire::MI };
            look.push(Case::new("expose", orig.clone()));
            for x in [0xC0DEu16, 0x8022, 0x0014, 0x7F00, if sha256 { wire::MI } else { wire::MI256 }] {
                if a_list.iter().any(|(t, _)| *t == x) {
                    continue;
                }
                for b_list in [&[(0x0006u16, &b"evil"[..])][..], &[(0x0020, &[0, 1, 0x21, 0x12, 0x21, 0x12, 0xA4, 0x43][..]), (0x802B, &[1, 2, 3, 4][..])][..], &[][..]] {
                    for fp in [false, true] {
                        let mut f = prefix.clone();
                        wire::append_raw(&mut f, x, &h);
                        for (t, v) in b_list {
                            if !a_list.iter().any(|(t2, _)| t2 == t) {
                                wire::append_raw(&mut f, *t, v);
                            }
                        }
                        wire::append_raw(&mut f, mi_type, &h);
                        if fp {
                            wire::append_fp(&mut f);
                        }
                        look.push(Case::new("expose", f));
                    }
                }
                // h in front of everything
                let mut f = wire::encode_header(0, 1, tid, 0);
                wire::append_raw(&mut f, x, &h);
                f.extend_from_slice(&prefix[20..]);
                wire::append_raw(&mut f, mi_type, &h);
                look.push(Case::new("expose", f));
            }
        }
    }
    let acc = acc.merge(crate::props::sweep(look.into_par_iter(), judge));
    Report {
        acc,
        exhaustive: true,
        rule: "all sequences over {OPT, SOFTWARE, USERNAME, MI, MI256/32, MI256/16, FP} up to the depth, reference-serialised with correct HMACs/CRC, x {request, success}; only those the reference decoder accepts are judged (distinct_nontrivial); the iterated sequence is also taken through nth / skip / step_by / fold / last / count / size_hint and must be the same; plus messages of 65 500..=65 552 bytes with every tail of sealing attributes; plus messages with 1..=48 distinct attribute types before every tail of sealing attributes (lookups judged for every type present); plus authentic messages re-arranged without the key so that an attribute of another type carrying the HMAC value stands where the integrity attribute stood, followed by further attributes and the original integrity attribute (validate_integrity must fail: reference HMAC); plus messages whose hidden MESSAGE-INTEGRITY (behind MI-SHA256) carries a sealing-attribute header at every 4-aligned offset of its value; tail replacement is covered because every alternative tail of a prefix is itself a sequence of the space".into(),
        bounds: json!({"sequences": n_sk, "depth": depth, "classes": 2}),
        assumptions: vec!["parser acceptance itself is C02's business: buffers the reference refuses are skipped here".into()],
        ..Default::default()
    }
}

fn show(v: &[(u16, Vec<u8>)]) -> String {
    format!("{:?}", v.iter().map(|(t, _)| format!("{t:#06x}")).collect::<Vec<_>>())
}

pub fn judge(case: &Case, acc: &mut Acc) {
    acc.evaluations += 1;
    let buf = &case.data;
    let Ok(m) = wire::decode(buf) else {
        acc.outcome("skipped: not well-formed (C02)");
        return;
    };
    let Ok(msg) = Message::from_bytes(buf) else {
        acc.outcome("skipped: refused by the parser (C02)");
        return;
    };
    acc.validated += 1;
    acc.nontrivial += 1;
    let exp_idx = wire::exposed(&m.attrs);
    let want: Vec<(u16, Vec<u8>)> = exp_idx.iter().map(|&i| (m.attrs[i].typ, m.attrs[i].value.clone())).collect();
    let (got, after) = real::iterate(&msg, 8);
    let hidden = m.attrs.len() - want.len();
    acc.outcome(if wire::first_integrity(&m.attrs).is_none() {
        "no integrity attribute"
    } else if hidden == 0 {
        "integrity, nothing hidden"
    } else {
        "integrity, tail attributes hidden"
    });
    if got != want {
        let extra_exposed = got.iter().any(|g| !want.contains(g));
        let clause = if extra_exposed { "exposes-unauthenticated" } else { "hides-exposable" };
        viol!(acc, P, clause, case, "iterated attributes differ from the exposure rule", show(&want), show(&got));
    }
    let (got2, _) = real::iterate(&msg, 0);
    if got2 != got {
        viol!(acc, P, "second-iteration-differs", case, "iterating the same message a second time exposes other attributes", show(&got), show(&got2));
    }
    for (name, seq) in real::iterate_variants(&msg) {
        if seq != got {
            viol!(acc, P, "iterator-method-differs", case, format!("another method of the attribute iterator exposes other attributes than next(): {name}"), show(&got), show(&seq));
        }
    }
    if !after.is_empty() {
        viol!(acc, P, "iterator-not-fused", case, "the attribute iterator yields again after returning None", "None forever", show(&after));
    }
    // lookups = first match on the exposed sequence
    let mut lookup_types: Vec<u16> = crate::props::c02::LOOKUP_TYPES.to_vec();
    for a in &m.attrs {
        if !lookup_types.contains(&a.typ) {
            lookup_types.push(a.typ);
        }
    }
    for t in lookup_types {
        let w = want.iter().find(|(ty, _)| *ty == t).map(|(_, v)| v.clone());
        let g = msg.raw_attribute(AttributeType::new(t)).map(|r| r.value.to_vec());
        let h = msg.has_attribute(AttributeType::new(t));
        if g != w || h != w.is_some() {
            let clause = if g.is_some() && w.is_none() { "lookup-exposes-unauthenticated" } else { "lookup-hides-exposable" };
            viol!(acc, P, clause, case, format!("raw_attribute/has_attribute({t:#06x}) disagrees with the exposure rule"), format!("{:?}", w.map(|v| fmt_bytes(&v))), format!("{:?} has={h}", g.map(|v| fmt_bytes(&v))));
        }
    }
    // typed extraction = first match on the exposed sequence as well (a lookup path of its own)
    {
        use crate::refimpl::attrs::Kind;
        for (k, t) in [(Kind::Fingerprint, wire::FP), (Kind::MessageIntegrity, wire::MI), (Kind::MessageIntegritySha256, wire::MI256), (Kind::Software, 0x8022u16), (Kind::Username, 0x0006)] {
            let w = want.iter().find(|(ty, _)| *ty == t).map(|(_, v)| v.clone());
            let g = real::msg_attribute(&msg, k, m.tid);
            match (&w, &g) {
                (None, Err(real::PErr::MissingAttribute(_))) => {}
                (None, Ok(_)) => viol!(acc, P, "lookup-exposes-unauthenticated", case, format!("attribute::<{}>() returns an attribute the exposure rule hides", k.name()), "MissingAttribute", format!("{g:?}")),
                (Some(_), Err(real::PErr::MissingAttribute(_))) => viol!(acc, P, "lookup-hides-exposable", case, format!("attribute::<{}>() misses an exposed attribute", k.name()), "found", "MissingAttribute"),
                _ => {} // value decoding itself is C08's business
            }
        }
    }
    // FINGERPRINT of a message is always exposed
    if m.attrs.iter().any(|a| a.typ == wire::FP) && !msg.has_attribute(AttributeType::new(wire::FP)) {
        viol!(acc, P, "fingerprint-hidden", case, "the FINGERPRINT of the message is not exposed", "has_attribute(FINGERPRINT)", "false");
    }
    // every exposed ordinary attribute lies inside the range covered by the HMAC that is checked
    if wire::first_integrity(&m.attrs).is_some() {
        let creds = real::creds(&wire::Creds::Short(String::from_utf8(engine_in::KEY.to_vec()).unwrap()));
        match msg.validate_integrity(&creds) {
            Ok(alg) => {
                let t = real::alg_num(alg);
                match m.attrs.iter().find(|a| a.typ == t) {
                    None => viol!(acc, P, "validated-algorithm-absent", case, "validate_integrity reports an algorithm whose attribute is not in the message", "present", format!("{t:#06x} absent")),
                    Some(checked) => {
                        // ... and that HMAC is right for the bytes up to its attribute (reference HMAC): else what
                        // was "validated" covers something else than the attributes exposed in front of it
                        if !wire::integrity_ok(buf, checked, engine_in::KEY) {
                            viol!(acc, P, "validated-hmac-does-not-cover-exposed", case, "validate_integrity succeeds although the integrity attribute it names is not the HMAC of the bytes in front of it: exposed attributes are not covered by a checked HMAC", "IntegrityCheckFailed", format!("Ok({t:#06x})"));
                        }
                        for (gt, gv) in &got {
                            if wire::is_integrity(*gt) || *gt == wire::FP {
                                continue;
                            }
                            // locate this exposed attribute in the buffer
                            if let Some(a) = m.attrs.iter().find(|a| a.typ == *gt && &a.value == gv) {
                                if a.end() > checked.offset {
                                    viol!(acc, P, "exposed-outside-hmac", case, "an exposed ordinary attribute lies outside the bytes covered by the checked HMAC", format!("ends at or before {}", checked.offset), format!("{:#06x} ends at {}", a.typ, a.end()));
                                }
                            }
                        }
                    }
                }
            }
            Err(e) => {
                // skeleton HMACs are correct under the key; which one is checked and whether it verifies is C04's business
                let _ = e;
                acc.outcome("validate_integrity failed on a correctly sealed skeleton (C04)");
            }
        }
    }
}
