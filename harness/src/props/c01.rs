//! C01 — decoding and inspection never panic or hang, whatever the bytes.
//! Engine IN: every entry point on every generated buffer, every read-only operation on every
//! accepted message, with and without a tracing subscriber; panics are caught and attributed to
//! their call site, non-termination is caught by the watchdog.

use crate::common::*;
use crate::engine_in::{self, values};
use crate::real;
use crate::refimpl::attrs::{Kind, ALL_KINDS};
use crate::refimpl::wire::{self, Creds};
use crate::viol;
use rayon::prelude::*;
use serde_json::json;
use stun_types::attribute::*;
use stun_types::message::*;

const P: &str = "C01";

fn record(acc: &mut Acc, case: &Case, op: &str, p: &Panic) {
    acc.outcome("VIOLATION: panic");
    acc.violation(Violation {
        property: P.into(),
        signature: format!("C01/panic/{}/{}", panic_label(p), op),
        what: format!("{op} panicked: {}", p.message),
        expected: "a value or an error".into(),
        observed: format!("panic at {}", p.location),
        replay: crate::props::in_replay(case),
    });
}

macro_rules! probe {
    ($acc:expr, $case:expr, $op:expr, $body:expr) => {{
        $acc.evaluations += 1;
        match guarded(|| $body) {
            Ok(v) => Some(v),
            Err(p) => {
                record($acc, $case, $op, &p);
                None
            }
        }
    }};
}

thread_local! {
    /// one TRACE-level subscriber per worker thread, writing to a sink (building one per case is slow)
    static SINK: tracing::Dispatch = tracing::Dispatch::new(tracing_subscriber::fmt().with_max_level(tracing::Level::TRACE).with_writer(std::io::sink).finish());
}

/// a fmt::Write that accepts `left` bytes and then fails
struct Bounded {
    left: usize,
}
impl std::fmt::Write for Bounded {
    fn write_str(&mut self, s: &str) -> std::fmt::Result {
        if s.len() > self.left {
            self.left = 0;
            return Err(std::fmt::Error);
        }
        self.left -= s.len();
        Ok(())
    }
}

fn with_sink_subscriber<T>(f: impl FnOnce() -> T) -> T {
    SINK.with(|d| tracing::dispatcher::with_default(d, f))
}

/// every read-only operation on an accepted message
fn inspect(acc: &mut Acc, case: &Case, buf: &[u8], sub: &str) {
    let Ok(msg) = Message::from_bytes(buf) else { return };
    let universe = values::type_universe();
    let present: Vec<AttributeType> = probe!(acc, case, &format!("iter_attributes{sub}"), {
        let (a, b) = real::iterate(&msg, 8);
        let mut t: Vec<AttributeType> = a.iter().map(|(t, _)| AttributeType::new(*t)).collect();
        t.extend(b.iter().map(|(t, _)| AttributeType::new(*t)));
        t
    })
    .unwrap_or_default();
    probe!(acc, case, &format!("iterator methods (nth/skip/step_by/fold/last/size_hint){sub}"), {
        let _ = real::iterate_variants(&msg);
    });
    probe!(acc, case, &format!("raw_attribute/has_attribute{sub}"), {
        for t in &universe {
            let _ = msg.raw_attribute(AttributeType::new(*t));
            let _ = msg.has_attribute(AttributeType::new(*t));
        }
    });
    for k in ALL_KINDS {
        probe!(acc, case, &format!("attribute::<{}>{sub}", k.name()), {
            let _ = real::msg_attribute(&msg, k, 0);
        });
    }
    let lt = |u: &str, r: &str, p: &str| Creds::Long { user: u.into(), realm: r.into(), pass: p.into() };
    let mut cred_list = vec![Creds::Short("".into()), Creds::Short("pw".into()), lt("u", "r", "p"), lt("", "", ""), Creds::Short(String::from_utf8(engine_in::KEY.to_vec()).unwrap())];
    // "arbitrary credentials": each part of a long-term credential and the short-term password take
    // every decorated / degenerate text (a lone quote, quotes only, blanks only, NUL, colon, a
    // multi-byte character alone, 1000 bytes)
    let long = "x".repeat(1000);
    let sealed_msg = sub.is_empty() && (msg.has_attribute(AttributeType::new(0x0008)) || msg.has_attribute(AttributeType::new(0x001C)));
    for t in if !sealed_msg { vec![] } else { vec!["\"", "\"\"", " \" ", "\t\"\r\n", "\"a", "a\"", " ", "\0", ":", "::", "\u{e9}", "\u{1F600}", "\\", "%", long.as_str()] } {
        cred_list.push(lt(t, "r", "p"));
        cred_list.push(lt("u", t, "p"));
        cred_list.push(lt("u", "r", t));
        cred_list.push(Creds::Short(t.into()));
    }
    for (i, c) in cred_list.iter().enumerate() {
        let _ = i;
        probe!(acc, case, &format!("validate_integrity{sub}"), {
            let _ = msg.validate_integrity(&real::creds(c));
        });
    }
    let absent = vec![AttributeType::new(0x7F7F)];
    let all: Vec<AttributeType> = universe.iter().map(|t| AttributeType::new(*t)).collect();
    let sets: [&[AttributeType]; 4] = [&[], &present, &absent, &all];
    for (si, s) in sets.iter().enumerate() {
        for (ri, r) in sets.iter().enumerate() {
            probe!(acc, case, &format!("check_attribute_types{sub}"), {
                if let Some(b) = Message::check_attribute_types(&msg, s, r) {
                    let _ = b.build();
                }
                let _ = (si, ri);
            });
        }
    }
    probe!(acc, case, &format!("Display/Debug(Message){sub}"), {
        let _ = format!("{msg} {msg:?}");
    });
    // format specifications: precision, width, fill / alignment, sign, alternate and zero flags are
    // handed to the library's fmt implementations as well
    if sub.is_empty() {
    probe!(acc, case, &format!("Display/Debug with format specifications{sub}"), {
        let _ = format!("{msg:.0} {msg:.1} {msg:.3} {msg:.16} {msg:.64} {msg:.1000}");
        let _ = format!("{msg:5} {msg:>80} {msg:<80} {msg:^300} {msg:*^17.9} {msg:#} {msg:#?} {msg:+} {msg:010}");
        let _ = format!("{:.16} {:>40.2} {:#}", msg.get_type(), msg.get_type(), msg.get_type());
        let _ = format!("{:.5} {:>40} {:#?}", msg.transaction_id(), msg.transaction_id(), msg.transaction_id());
        for a in msg.iter_attributes().take(8) {
            let _ = format!("{a:.0} {a:.1} {a:.2} {a:.3} {a:.4} {a:.5} {a:.7} {a:.8} {a:.16} {a:.64} {a:.800}");
            let _ = format!("{a:3} {a:>60} {a:-<60} {a:^9.4} {a:#} {a:#?} {a:+} {a:07}");
            let t = a.get_type();
            let _ = format!("{t:.3} {t:>30} {t:#} {t:#?}");
        }
    });
    }
    // formatting into a sink that refuses data after `cap` bytes (a fixed-size log line, a full disk):
    // fmt must hand the error back, never panic
    if sub.is_empty() {
    probe!(acc, case, &format!("Display/Debug into a bounded sink{sub}"), {
        use std::fmt::Write;
        let full = format!("{msg}").len();
        for cap in [0usize, 7, 21, full / 2, full.saturating_sub(1)] {
            let mut w = Bounded { left: cap };
            let _ = write!(w, "{msg}");
            let mut w = Bounded { left: cap };
            let _ = write!(w, "{msg:?}");
            let mut w = Bounded { left: cap };
            let _ = write!(w, "{msg:#?}");
            for a in msg.iter_attributes().take(6) {
                let mut w = Bounded { left: cap.min(12) };
                let _ = write!(w, "{a} {a:?}");
            }
        }
    });
    }
    probe!(acc, case, &format!("Display/Debug(RawAttribute){sub}"), {
        for a in msg.iter_attributes() {
            let _ = format!("{a} {a:?}");
        }
    });
    probe!(acc, case, &format!("header-getters{sub}"), {
        let _ = (msg.get_type(), msg.class(), msg.method(), msg.transaction_id(), msg.is_response(), msg.has_class(MessageClass::Error), msg.has_method(1));
    });
}

pub fn judge(case: &Case, acc: &mut Acc) {
    let buf = &case.data;
    match case.op.as_str() {
        "stackprobe" => {
            // the probe family in a child process, on a thread whose stack has args[0] KiB
            let kib = case.args[0] as usize;
            acc.evaluations += 1;
            acc.validated += 1;
            match stack_probe_child(kib) {
                Ok(()) => acc.outcome("stack probe completed"),
                Err(e) if kib >= STACK_BOUND_KIB => {
                    acc.outcome("VIOLATION: stack exhausted");
                    viol!(acc, P, "stack-exhaustion", case, format!("decoding and inspecting the probe family on a thread with a {kib} KiB stack kills the process (the unchanged library completes it on 16 KiB; the smallest default thread stack of a mainstream C library is musl's 128 KiB)"), "completes", e);
                }
                Err(_) => acc.outcome("stack probe: below the bound, exhausted (observation only)"),
            }
        }
        "entry" => {
            let accepted = probe!(acc, case, "Message::from_bytes", Message::from_bytes(buf).is_ok());
            probe!(acc, case, "Message::try_from", Message::try_from(&buf[..]).is_ok());
            probe!(acc, case, "MessageHeader::from_bytes", {
                if let Ok(h) = MessageHeader::from_bytes(buf) {
                    let _ = (h.data_length(), h.transaction_id(), h.get_type());
                    let _ = format!("{h:?}");
                }
            });
            probe!(acc, case, "MessageType::from_bytes", {
                if let Ok(t) = MessageType::from_bytes(buf) {
                    let _ = format!("{t} {t:?}");
                }
            });
            probe!(acc, case, "RawAttribute::from_bytes", {
                if let Ok(r) = RawAttribute::from_bytes(buf) {
                    let _ = format!("{r} {r:?}");
                    let _ = r.to_bytes();
                }
            });
            probe!(acc, case, "AttributeHeader::try_from", {
                let _ = AttributeHeader::try_from(&buf[..]).map(|h| (h.get_type(), h.length()));
            });
            acc.validated += 1;
            if accepted == Some(true) {
                acc.outcome("accepted: all read-only operations run (plain + subscriber)");
                acc.nontrivial += 1;
                inspect(acc, case, buf, "");
                with_sink_subscriber(|| {
                    probe!(acc, case, "Message::from_bytes+subscriber", Message::from_bytes(buf).is_ok());
                    inspect(acc, case, buf, "+subscriber");
                });
            } else if accepted == Some(false) {
                acc.outcome("refused");
            }
            // once more with the bytes at an odd address (in place behind a TCP length prefix)
            if accepted == Some(true) || buf.len() <= 40 {
            probe!(acc, case, "from_bytes + inspection at an odd address", {
                let first = real::parse_summary(buf);
                let _ = real::differs_at_residue(buf, &first, |b| {
                    if let Ok(m) = Message::from_bytes(b) {
                        let _ = format!("{m}");
                        for k in ALL_KINDS {
                            let _ = real::msg_attribute(&m, k, 0);
                        }
                    }
                    real::parse_summary(b)
                });
            });
            }
        }
        "typed" => {
            let k = Kind::from_name(&case.text[0]).unwrap();
            let code = case.args[0] as u16;
            acc.validated += 1;
            let raw = RawAttribute::new(AttributeType::new(code), buf);
            let ok = probe!(acc, case, &format!("from_raw::<{}>", k.name()), {
                match real::from_raw_typed(k, &raw) {
                    Ok(t) => {
                        let _ = t.display();
                        // (a value decoded from more than 65 535 bytes has no encoding: serialising it again is
                        // not an operation the property speaks about)
                        // (typed_fields reads UNKNOWN-ATTRIBUTES through to_raw, there is no other getter)
                        if buf.len() <= 65_535 {
                            let _ = t.as_write().to_raw().to_bytes();
                            let _ = real::typed_fields(&t, 5);
                        }
                        true
                    }
                    Err(_) => false,
                }
            });
            probe!(acc, case, "Display(RawAttribute)", {
                let _ = format!("{raw} {raw:?}");
                if buf.len() % 2 == 0 || buf.len() < 24 {
                    let _ = format!("{raw:.0} {raw:.1} {raw:.2} {raw:.3} {raw:.5} {raw:.8} {raw:.16} {raw:.800} {raw:>70} {raw:#} {raw:#?}");
                    if let Ok(t) = real::from_raw_typed(k, &raw) {
                        let _ = t.display_spec();
                    }
                }
            });
            if ok == Some(true) || buf.len() < 24 {
            probe!(acc, case, &format!("from_raw::<{}> at odd addresses", k.name()), {
                let _ = real::differs_at_residue(buf, &true, |b| {
                    let r = RawAttribute::new(AttributeType::new(code), b);
                    if let Ok(t) = real::from_raw_typed(k, &r) {
                        let _ = t.display();
                    }
                    true
                });
            });
            }
            // the same under a TRACE subscriber (log statements only format their arguments then)
            with_sink_subscriber(|| {
                probe!(acc, case, &format!("from_raw::<{}>+subscriber", k.name()), {
                    if let Ok(t) = real::from_raw_typed(k, &raw) {
                        let _ = t.display();
                        if buf.len() <= 65_535 {
                            let _ = t.as_write().to_raw().to_bytes();
                        }
                    }
                });
                probe!(acc, case, "Display(RawAttribute)+subscriber", {
                    let _ = format!("{raw} {raw:?}");
                });
            });
            acc.outcome(if ok == Some(true) { "typed decode: accepted" } else { "typed decode: refused" });
        }
        "reason" => {
            let code = case.args[0] as u16;
            probe!(acc, case, "ErrorCode::default_reason_for_code", ErrorCode::default_reason_for_code(code).len());
        }
        other => panic!("harness: unknown C01 op {other}"),
    }
}

fn judge_w(case: &Case, acc: &mut Acc) {
    let _w = watch(case);
    judge(case, acc);
}

fn large_family(ctx: &Ctx) -> Vec<Case> {
    large_family_tid((ctx.seeded(1) as u128) & ((1u128 << 96) - 1))
}

/// The cases of the stack probe (`vcheck stackprobe <KiB>`, run as a child process on a thread with a
/// stack of that size): every skeleton of the shallow space in all four classes, one value of every
/// typed decoder, and the large-input family - each through every entry point and read-only operation.
pub fn stack_cases() -> Vec<Case> {
    let mut out = Vec::new();
    for (i, toks) in engine_in::skeletons(2, 3).iter().enumerate() {
        for class in [(i % 4) as u8] {
            out.push(Case::new("entry", engine_in::render(class, (i as u16) & 0xFFF, 0x0A0B_0C0D_0E0F_1011_1213_1415, toks)).text(&["skeleton"]));
        }
    }
    for k in ALL_KINDS {
        for v in values::decode_values(k, Tier::Quick).into_iter().step_by(997).take(8) {
            out.push(Case::new("typed", v).args(&[k.code() as i64]).text(&[k.name()]));
        }
    }
    out.extend(large_family_tid(0x0102_0304_0506_0708_090A_0B0C));
    out
}

/// Stack sizes of the probe ladder, in KiB; the property is judged at `STACK_BOUND_KIB`.
pub const STACK_LADDER_KIB: [usize; 7] = [16, 24, 32, 48, 64, 96, 128];
pub const STACK_BOUND_KIB: usize = 64;

/// Run the probe family in a child process on a thread with `kib` KiB of stack; `Ok` if it completed.
pub fn stack_probe_child(kib: usize) -> Result<(), String> {
    let exe = std::env::current_exe().map_err(|e| e.to_string())?;
    let out = std::process::Command::new(exe).arg("stackprobe").arg(kib.to_string()).output().map_err(|e| e.to_string())?;
    if out.status.success() {
        Ok(())
    } else {
        let err = String::from_utf8_lossy(&out.stderr);
        Err(format!("{} {}", out.status, err.lines().filter(|l| l.contains("overflow") || l.contains("fatal")).collect::<Vec<_>>().join(" / ")))
    }
}

fn large_family_tid(tid: u128) -> Vec<Case> {
    let mut out = Vec::new();
    let filler_to = |o: usize, class: u8| -> Vec<u8> {
        // header + one 0xFF00 attribute so that the next attribute starts at offset o (o % 4 == 0, o >= 24)
        let mut b = wire::encode_header(class, 1, tid, 0);
        let l = o - 24;
        let v: Vec<u8> = (0..l).map(|i| (i % 251) as u8).collect();
        b.extend(wire::encode_attr(0xFF00, &v, 0));
        let bl = b.len() - 20;
        wire::set_len(&mut b, bl);
        b
    };
    // sealing attributes ending at every admissible offset near the 16-bit boundary
    for o in (65480..=65544).step_by(4) {
        for class in [0u8, 2] {
            for kind in 0..4 {
                let mut b = filler_to(o, class);
                match kind {
                    0 => wire::append_mi(&mut b, engine_in::KEY),
                    1 => wire::append_mi256(&mut b, engine_in::KEY, 32),
                    2 => wire::append_fp(&mut b),
                    _ => {
                        wire::append_mi(&mut b, engine_in::KEY);
                        wire::append_fp(&mut b);
                    }
                }
                if b.len() - 20 <= 0xFFFF {
                    out.push(Case::new("entry", b).text(&["large/sealing-near-64k"]));
                }
            }
        }
    }
    // one attribute of very large declared length
    for l in [65512usize, 65528, 65531, 65532, 65535] {
        let mut b = wire::encode_header(0, 1, tid, 0);
        b.extend(wire::encode_attr(0x7F00, &vec![7u8; l], 0));
        let bl = (b.len() - 20).min(0xFFFF);
        wire::set_len(&mut b, bl);
        out.push(Case::new("entry", b.clone()).text(&["large/one-big-attribute"]));
        out.push(Case::new("entry", b[20..].to_vec()).text(&["large/raw-attribute"]));
    }
    // 16383 empty attributes
    let mut b = wire::encode_header(1, 1, tid, 0);
    for _ in 0..16383 {
        b.extend(wire::encode_attr(0xFF00, &[], 0));
    }
    let bl = b.len() - 20;
    wire::set_len(&mut b, bl);
    out.push(Case::new("entry", b).text(&["large/16383-empty-attributes"]));
    // buffers longer than any STUN message
    for len in [65535usize, 65536, 65537, 65555, 65556, 65557, 70000] {
        for hl in [0usize, 0xFFFC, 0xFFFF, (len.saturating_sub(20)) & 0xFFFC] {
            let mut b = wire::encode_header(0, 1, tid, 0);
            // body: attributes of 252 bytes each
            while b.len() + 256 <= len {
                b.extend(wire::encode_attr(0xFF00, &[0x11u8; 252], 0));
            }
            b.resize(len, 0);
            wire::set_len(&mut b, hl);
            out.push(Case::new("entry", b).text(&["large/over-long-buffer"]));
        }
    }
    out
}

pub fn run(ctx: &Ctx) -> Report {
    start_watchdog(P, ctx.tier, ctx.seed);
    let thorough = ctx.tier == Tier::Thorough;
    // (f) stack probe: child processes run beside the sweeps below, collected at the end
    let ladder: Vec<usize> = if thorough { STACK_LADDER_KIB.to_vec() } else { vec![16, 32, STACK_BOUND_KIB] };
    let probes: Vec<(usize, std::thread::JoinHandle<Acc>)> = ladder
        .iter()
        .map(|kib| {
            let kib = *kib;
            (kib, std::thread::spawn(move || {
                let mut a = Acc::default();
                judge(&Case::new("stackprobe", vec![]).args(&[kib as i64]), &mut a);
                a
            }))
        })
        .collect();
    // (a) all short byte strings
    let max_short = ctx.tier.pick(2usize, 3usize);
    let n_short: u64 = (0..=max_short).map(|l| 256u64.pow(l as u32)).sum();
    let acc_a = (0..n_short)
        .into_par_iter()
        .fold(Acc::default, |mut acc, mut i| {
            let mut len = 0usize;
            let mut span = 1u64;
            while i >= span {
                i -= span;
                len += 1;
                span *= 256;
            }
            let data: Vec<u8> = (0..len).map(|j| (i >> (8 * (len - 1 - j))) as u8).collect();
            judge_w(&Case::new("entry", data).text(&["short"]), &mut acc);
            acc
        })
        .reduce(Acc::default, |a, b| a.merge(b));
    // (b) header space
    let lens: [u16; 7] = [0, 1, 3, 4, 8, 0xFFFC, 0xFFFF];
    let acc_b = (0..=0xFFFFu32)
        .into_par_iter()
        .fold(Acc::default, |mut acc, t| {
            for l in lens {
                for cookie_ok in [true, false] {
                    for blen in [20usize, 24, 28] {
                        let mut h = wire::encode_header(0, 0, 0x0102_0304_0506_0708_090a_0b0c, 0);
                        h[0] = (t >> 8) as u8;
                        h[1] = t as u8;
                        h[2] = (l >> 8) as u8;
                        h[3] = l as u8;
                        if !cookie_ok {
                            h[7] ^= 1;
                        }
                        h.resize(blen, 0);
                        if blen == 28 {
                            h[20..24].copy_from_slice(&[0x00, 0x08, 0x00, 0x04]); // a too-short MESSAGE-INTEGRITY
                        }
                        judge_w(&Case::new("entry", h).text(&["header"]), &mut acc);
                    }
                }
            }
            acc
        })
        .reduce(Acc::default, |a, b| a.merge(b));
    // (b2) every 16-bit value in the length field of an attribute header, inside a message whose own
    // length field is consistent with the bytes present
    let acc_b2 = (0..=0xFFFFu32)
        .into_par_iter()
        .fold(Acc::default, |mut acc, l| {
            for typ in [0x8022u16, 0x0020, 0x0008, 0x8028] {
                for (lead, present) in [(false, 8usize), (true, 24)] {
                    let mut b = wire::encode_header(2, 1, 0x0102_0304_0506_0708_090a_0b0c, 0);
                    if lead {
                        b.extend(wire::encode_attr(0x0024, &[0, 0, 0, 9], 0));
                    }
                    b.extend_from_slice(&typ.to_be_bytes());
                    b.extend_from_slice(&(l as u16).to_be_bytes());
                    b.extend((0..present).map(|i| 0x30 + (i as u8 % 10)));
                    let bl = b.len() - 20;
                    wire::set_len(&mut b, bl);
                    judge_w(&Case::new("entry", b.clone()).text(&["declared-length"]), &mut acc);
                    judge_w(&Case::new("entry", b[20..].to_vec()).text(&["declared-length/raw-attribute"]), &mut acc);
                }
            }
            acc
        })
        .reduce(Acc::default, |a, b| a.merge(b));
    // (b3) every 16-bit code through the reason-phrase table
    let mut acc_b2 = acc_b2;
    for code in 0..=0xFFFFu16 {
        let case = Case::new("reason", vec![]).args(&[code as i64]);
        judge(&case, &mut acc_b2);
    }
    // (c) skeleton space with single faults, all four classes
    let (n_full, n_small) = ctx.tier.pick((3, 4), (4, 5));
    let sk = engine_in::skeletons(n_full, n_small);
    let n_sk = sk.len();
    let heavy_depth = ctx.tier.pick(2usize, 3usize);
    let acc_c = sk
        .par_iter()
        .enumerate()
        .fold(Acc::default, |mut acc, (i, toks)| {
            for class in 0..4u8 {
                let buf = engine_in::render(class, (i as u16) & 0xFFF, 0x0A0B_0C0D_0E0F_1011_1213_1415, toks);
                let case = Case::new("entry", buf.clone()).text(&["skeleton"]);
                if i % 1301 == 0 && class == 1 {
                    acc.sample(json!({"skeleton": toks.iter().map(|t| t.name()).collect::<Vec<_>>(), "case": case.brief()}));
                }
                judge_w(&case, &mut acc);
                if class == (i % 4) as u8 {
                    engine_in::structural_faults(&buf, &mut |tag, b| {
                        let _ = tag;
                        judge_w(&Case::new("entry", b).text(&["skeleton+fault"]), &mut acc);
                    });
                    if toks.len() <= heavy_depth {
                        engine_in::heavy_faults(&buf, &mut |tag, b| {
                            let _ = tag;
                            judge_w(&Case::new("entry", b).text(&["skeleton+fault"]), &mut acc);
                        });
                    }
                    if thorough {
                        // fault pairs: truncate x header length perturbation
                        for k in (20..buf.len()).step_by(3) {
                            for dl in [0usize, 4, 8] {
                                let mut b = buf[..k].to_vec();
                                wire::set_len(&mut b, (k - 20).saturating_sub(dl));
                                judge_w(&Case::new("entry", b).text(&["skeleton+pair"]), &mut acc);
                            }
                        }
                    }
                }
            }
            acc
        })
        .reduce(Acc::default, |a, b| a.merge(b));
    // (d) typed decoders
    let uni = values::type_universe();
    // (the values of one type are spread over all threads: ERROR-CODE alone has half a million)
    let acc_d0 = ALL_KINDS
        .iter()
        .flat_map(|k| values::decode_values(*k, ctx.tier).into_iter().map(move |v| (*k, v)))
        .collect::<Vec<_>>()
        .into_par_iter()
        .fold(Acc::default, |mut acc, (k, v)| {
            judge_w(&Case::new("typed", v).args(&[k.code() as i64]).text(&[k.name()]), &mut acc);
            acc
        })
        .reduce(Acc::default, |a, b| a.merge(b));
    let acc_d = ALL_KINDS
        .par_iter()
        .map(|k| {
            let mut acc = Acc::default();
            // every type code of the universe x short values
            for t in &uni {
                for v in [vec![], vec![0u8], vec![0, 1], vec![0, 1, 2, 3], vec![0u8; 8], vec![0xFFu8; 20], vec![0x41u8; 32]] {
                    judge_w(&Case::new("typed", v).args(&[*t as i64]).text(&[k.name()]), &mut acc);
                }
            }
            // all values of length <= 2 under the right type code
            for i in 0..65793u32 {
                let data: Vec<u8> = if i == 0 { vec![] } else if i <= 256 { vec![(i - 1) as u8] } else { vec![((i - 257) >> 8) as u8, (i - 257) as u8] };
                judge_w(&Case::new("typed", data).args(&[k.code() as i64]).text(&[k.name()]), &mut acc);
            }
            acc
        })
        .reduce(Acc::default, |a, b| a.merge(b));
    // (d2) raw attributes built around values longer than 65 535 bytes (RawAttribute::new takes any slice; the
    // 16-bit length it reports is then the length modulo 65 536): every typed decoder and Display on lengths
    // that are congruent to each decoder's own sizes (seed C01-o: a range check that read the 16-bit length)
    let acc_d2 = ALL_KINDS
        .par_iter()
        .map(|k| {
            let mut acc = Acc::default();
            let mut lens: Vec<usize> = vec![65_535, 65_536, 65_537, 131_072 + 4, 131_072 + 20];
            for s in [1usize, 2, 3, 4, 5, 8, 12, 16, 20, 24, 28, 32, 33, 36, 513, 763] {
                lens.push(65_536 + s);
            }
            for n in lens {
                for fill in [0u8, b'a'] {
                    judge_w(&Case::new("typed", vec![fill; n]).args(&[k.code() as i64]).text(&[k.name()]), &mut acc);
                }
            }
            acc
        })
        .reduce(Acc::default, |a, b| a.merge(b));
    // (e) large inputs
    let acc_e = large_family(ctx)
        .into_par_iter()
        .fold(Acc::default, |mut acc, case| {
            if acc.samples.is_empty() {
                acc.sample(case.brief());
            }
            judge_w(&case, &mut acc);
            acc
        })
        .reduce(Acc::default, |a, b| a.merge(b));
    let mut acc = acc_a.merge(acc_b).merge(acc_b2).merge(acc_c).merge(acc_d0).merge(acc_d).merge(acc_d2).merge(acc_e);
    // (g) the parser family (parse, iterate, validate, typed extraction, Display / Debug, policing of sealed,
    // corrupted, truncated and foreign buffers) under per-call-site tracing filters (callsites.rs)
    crate::teardown::callsite_sweep(P, "parser", &mut acc);
    let mut smallest_ok: Option<usize> = None;
    for (kib, h) in probes {
        let a = h.join().unwrap_or_default();
        if a.outcomes.contains_key("stack probe completed") && smallest_ok.is_none() {
            smallest_ok = Some(kib);
        }
        acc = acc.merge(a);
    }
    Report {
        acc,
        exhaustive: true,
        rule: "all byte strings up to the short bound into every entry point; 65536 type fields x 7 length fields x cookie ok/off x 3 buffer lengths; every 16-bit declared attribute length x 4 types x 2 layouts; skeleton space x 4 classes with every single structural fault (shallow skeletons also with every value of every header / attribute-header byte and every single-bit flip); every typed decoder on its value space and on every type code; large-input family around the 16-bit boundary; on every accepted buffer all read-only operations, plain and under a TRACE subscriber; a probe family (shallow skeletons, one value per typed decoder, the large-input family) through every entry point and read-only operation in child processes on threads with 16 / 32 / 64 KiB of stack (thorough: 16..128 KiB), judged at 64 KiB; evaluations counts guarded calls, distinct_nontrivial counts accepted buffers that were fully inspected".into(),
        bounds: json!({"short_max_len": max_short, "skeletons": n_sk, "classes": 4, "faults": if thorough { "single + truncate x length pairs" } else { "single" }, "watchdog_ms": 20000, "stack_probe_kib": ladder, "smallest_stack_completed_kib": smallest_ok, "stack_bound_kib": STACK_BOUND_KIB}),
        assumptions: vec!["an abort (stack overflow, allocation failure) in the sweeps themselves (2 MiB stacks) kills the checker and is reported as machinery failure, not as a verdict; stack exhaustion is judged by the probe in child processes, at a 64 KiB stack - an interpretive bound: half of musl's 128 KiB default thread stack, four times what the unchanged library + harness frames need".into()],
        ..Default::default()
    }
}
