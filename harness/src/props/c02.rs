//! C02 — the parser accepts exactly the well-formed messages and exposes them faithfully.
//! Engine IN: every attribute skeleton up to the bound x every single structural fault, judged
//! against the reference decoder (DESIGN.md §6 C02, Appendix B).

use crate::common::*;
use crate::engine_in::{self, Tok};
use crate::props::judge_guarded;
use crate::real::{self, PErr};
use crate::refimpl::wire::{self, Cause};
use crate::viol;
use rayon::prelude::*;
use serde_json::json;
use stun_types::attribute::AttributeType;
use stun_types::message::Message;

const P: &str = "C02";

/// types looked up on every accepted message
pub const LOOKUP_TYPES: [u16; 9] = [0xFF00, 0xFF01, 0x8022, 0x7F00, 0x0006, 0x0024, 0x0008, 0x001C, 0x8028];

pub fn header_variants(ctx: &Ctx) -> Vec<(u8, u16, u128)> {
    let t = ((ctx.seeded(2) as u128) << 32 | 0x77) & ((1u128 << 96) - 1);
    vec![(0, 1, t), (3, 0xFFF, 0), (1, 0x80, (1u128 << 96) - 1), (2, 0x003, t.rotate_left(7) & ((1u128 << 96) - 1))]
}

pub fn run(ctx: &Ctx) -> Report {
    let (n_full, n_small) = ctx.tier.pick((5, 6), (6, 7));
    let sk = engine_in::skeletons(n_full, n_small);
    let hv = header_variants(ctx);
    let n_sk = sk.len();
    let heavy_depth = ctx.tier.pick(3usize, 4usize);
    let acc = sk
        .par_iter()
        .enumerate()
        .fold(Acc::default, |mut acc, (i, toks)| {
            // a trailing correct FINGERPRINT replaced by each plausible alternative value
            if let Some(Tok::FpOk) = toks.last() {
                let buf = engine_in::render(hv[0].0, hv[0].1, hv[0].2, toks);
                if buf.len() >= 28 && wire::decode(&buf).is_ok() {
                    let off = buf.len() - 8;
                    let v = u32::from_be_bytes([buf[off + 4], buf[off + 5], buf[off + 6], buf[off + 7]]);
                    for a in crate::props::c09::alt_crc_values(&buf, off) {
                        if a != v {
                            let mut b = buf.clone();
                            b[off + 4..off + 8].copy_from_slice(&a.to_be_bytes());
                            judge_guarded(judge, &Case::new("parse", b).text(&["alt-crc"]), &mut acc);
                        }
                    }
                }
            }
            // the well-formed message inside the framings it travels in (RFC 4571 length prefix, a 4-byte
            // length, a TURN ChannelData header, a TLS record header, CR LF, a second copy behind it): the
            // parser is handed a STUN message, not a frame
            if toks.len() <= 3 {
                let buf = engine_in::render(hv[0].0, hv[0].1, hv[0].2, toks);
                if wire::decode(&buf).is_ok() {
                    let n = buf.len();
                    let pre: Vec<Vec<u8>> = vec![
                        (n as u16).to_be_bytes().to_vec(),
                        ((n + 2) as u16).to_be_bytes().to_vec(),
                        (n as u32).to_be_bytes().to_vec(),
                        [&[0x40u8, 0x00][..], &(n as u16).to_be_bytes()[..]].concat(),
                        [&[0x17u8, 0x03, 0x03][..], &(n as u16).to_be_bytes()[..]].concat(),
                        b"\r\n".to_vec(),
                        vec![0x00],
                    ];
                    for p in pre {
                        let mut b = p;
                        b.extend_from_slice(&buf);
                        judge_guarded(judge, &Case::new("parse", b).text(&["framed"]), &mut acc);
                    }
                    let mut twice = buf.clone();
                    twice.extend_from_slice(&buf);
                    judge_guarded(judge, &Case::new("parse", twice).text(&["framed"]), &mut acc);
                }
            }
            // all header variants on the fault-free buffer, faults on the first variant
            for (j, (c, m, t)) in hv.iter().enumerate() {
                let buf = engine_in::render(*c, *m, *t, toks);
                let case = Case::new("parse", buf.clone()).text(&["none"]);
                if i % 997 == 0 && j == 0 {
                    acc.sample(json!({"skeleton": toks.iter().map(|t| t.name()).collect::<Vec<_>>(), "case": case.brief()}));
                }
                acc.nontrivial += 1;
                judge_guarded(judge, &case, &mut acc);
                if j == 0 {
                    engine_in::structural_faults(&buf, &mut |tag, b| {
                        let case = Case::new("parse", b).text(&[tag]);
                        judge_guarded(judge, &case, &mut acc);
                    });
                    if toks.len() <= heavy_depth {
                        engine_in::heavy_faults(&buf, &mut |tag, b| {
                            let case = Case::new("parse", b).text(&[tag]);
                            judge_guarded(judge, &case, &mut acc);
                        });
                    }
                }
            }
            acc
        })
        .reduce(Acc::default, |a, b| a.merge(b));
    // (2) type sweep: every 16-bit attribute type at every position class of small templates
    // (alone, before / after an integrity attribute, before / after a FINGERPRINT, between)
    let (c0, m0, t0) = hv[0];
    let acc_types = (0..=0xFFFFu32)
        .into_par_iter()
        .fold(Acc::default, |mut acc, x| {
            for b in type_sweep_buffers(c0, m0, t0, x as u16) {
                let case = Case::new("parse", b).text(&["type-sweep"]);
                acc.nontrivial += 1;
                judge_guarded(judge, &case, &mut acc);
            }
            acc
        })
        .reduce(Acc::default, |a, b| a.merge(b));
    let acc = acc.merge(acc_types);
    // (2b) declared-length sweep: every 16-bit value in the length field of an attribute header - of a
    // SOFTWARE, a USERNAME, an unknown and each sealing attribute, first / after another attribute, with
    // 0 / 8 / 40 bytes really following - inside a message whose own length field is consistent
    let acc_lens = (0..=0xFFFFu32)
        .into_par_iter()
        .fold(Acc::default, |mut acc, l| {
            for typ in [0x8022u16, 0x0006, 0x7F31, 0x0008, 0x001C, 0x8028] {
                for (lead, present) in [(false, 0usize), (false, 8), (true, 8), (false, 40), (true, 0)] {
                    let mut b = wire::encode_header(c0, m0, t0, 0);
                    if lead {
                        wire::append_raw(&mut b, 0x0024, &[0, 0, 0, 9]);
                    }
                    b.extend_from_slice(&typ.to_be_bytes());
                    b.extend_from_slice(&(l as u16).to_be_bytes());
                    b.extend((0..present).map(|i| 0x30 + (i as u8 % 10)));
                    let bl = b.len() - 20;
                    wire::set_len(&mut b, bl);
                    let case = Case::new("parse", b).text(&["declared-length-sweep"]);
                    acc.nontrivial += 1;
                    judge_guarded(judge, &case, &mut acc);
                }
            }
            acc
        })
        .reduce(Acc::default, |a, b| a.merge(b));
    let mut acc = acc.merge(acc_lens);
    // (2c) excess after a complete message whose size is, or is near, a multiple of 65 536 (a stream reader
    // that hands over everything it has buffered): zeros, 0xFF, and whole further messages
    {
        let mut ex: Vec<Case> = Vec::new();
        for body in 0..3u8 {
            let mut b = wire::encode_header(c0, m0, t0, 0);
            match body {
                1 => wire::append_raw(&mut b, 0x8022, b"abcd"),
                2 => {
                    wire::append_raw(&mut b, 0x0006, b"user");
                    wire::append_fp(&mut b);
                }
                _ => {}
            }
            for extra in [65_535usize, 65_536, 65_537, 131_072, 196_608, 65_536 - 20, 65_536 + 20, 65_536 - b.len(), 65_536 + b.len()] {
                for fill in 0..3u8 {
                    let mut x = b.clone();
                    match fill {
                        0 => x.resize(b.len() + extra, 0),
                        1 => x.resize(b.len() + extra, 0xFF),
                        _ => {
                            while x.len() < b.len() + extra {
                                let take = (b.len() + extra - x.len()).min(b.len());
                                x.extend_from_slice(&b[..take]);
                            }
                        }
                    }
                    ex.push(Case::new("parse", x).text(&["excess-64k"]));
                }
            }
        }
        let n = ex.len() as u64;
        let mut a = crate::props::sweep(ex.into_par_iter(), judge);
        a.nontrivial += n;
        acc = acc.merge(a);
    }
    // (3) large messages: one big attribute followed by every tail over {MI, MI256, FP ok, FP bad, OPT}
    //     of length <= 2, so that the tail ends at every multiple of four in 65 480..=65 552 and
    //     around 255/256, 4 095/4 096 and 32 767/32 768; plus declared-length perturbations and
    //     values that look like attribute headers of sealing attributes
    let mut big: Vec<Vec<u8>> = Vec::new();
    let tails = engine_in::sequences(&[Tok::Mi, Tok::Mi256(32), Tok::FpOk, Tok::FpBad, Tok::Opt(3)], 2);
    let mut ends: Vec<usize> = (65_480..=65_552).step_by(4).collect();
    ends.extend([256usize, 260, 4096, 4100, 32_764, 32_768, 32_772]);
    for end in &ends {
        for tail in &tails {
            // render the tail on an empty message first to learn its size, then size the filler
            let tail_len = engine_in::render(0, 1, t0, tail).len() - 20;
            if *end < 20 + 4 + tail_len {
                continue;
            }
            let fill = *end - 20 - 4 - tail_len;
            if fill % 4 != 0 {
                continue;
            }
            let mut b = wire::encode_header(c0, m0, t0, 0);
            let v: Vec<u8> = (0..fill).map(|i| (i % 253) as u8).collect();
            wire::append_raw(&mut b, 0x8031, &v);
            for t in tail {
                match *t {
                    Tok::Mi => wire::append_mi(&mut b, engine_in::KEY),
                    Tok::Mi256(n) => wire::append_mi256(&mut b, engine_in::KEY, n as usize),
                    Tok::FpOk => wire::append_fp(&mut b),
                    Tok::FpBad => {
                        wire::append_fp(&mut b);
                        let l = b.len();
                        b[l - 1] ^= 1;
                    }
                    Tok::Opt(n) => wire::append_raw(&mut b, 0xFF00, &vec![0xA7; n as usize]),
                    _ => unreachable!(),
                }
            }
            if b.len() - 20 <= 0xFFFF {
                big.push(b);
            }
        }
    }
    // lookalike values (see C03): an attribute whose value ends in / consists of the header of a
    // FINGERPRINT, MESSAGE-INTEGRITY or MESSAGE-INTEGRITY-SHA256 attribute, last or followed by a tail
    for (t, l) in [(wire::FP, 4usize), (wire::MI, 20), (wire::MI256, 32)] {
        for tail in &tails {
            for lead in [0usize, 4] {
                let mut b = wire::encode_header(c0, m0, t0, 0);
                let mut v = vec![0x11u8; lead];
                v.extend_from_slice(&t.to_be_bytes());
                v.extend_from_slice(&(l as u16).to_be_bytes());
                v.extend(std::iter::repeat(0x5A).take(l));
                wire::append_raw(&mut b, 0xFF10, &v);
                let mut w = vec![0x22u8; 4];
                w.extend_from_slice(&t.to_be_bytes());
                w.extend_from_slice(&(l as u16).to_be_bytes());
                w.extend_from_slice(&[1, 2, 3, 4]);
                let mut b2 = b.clone();
                wire::append_raw(&mut b2, 0xFF11, &w);
                for bb in [&mut b, &mut b2] {
                    for tk in tail {
                        match *tk {
                            Tok::Mi => wire::append_mi(bb, engine_in::KEY),
                            Tok::Mi256(n) => wire::append_mi256(bb, engine_in::KEY, n as usize),
                            Tok::FpOk => wire::append_fp(bb),
                            Tok::FpBad => {
                                wire::append_fp(bb);
                                let l = bb.len();
                                bb[l - 1] ^= 1;
                            }
                            Tok::Opt(n) => wire::append_raw(bb, 0xFF00, &vec![0xA7; n as usize]),
                            _ => unreachable!(),
                        }
                    }
                }
                big.push(b);
                big.push(b2);
            }
        }
    }
    let n_big = big.len();
    let acc_big = big
        .par_iter()
        .fold(Acc::default, |mut acc, b| {
            acc.nontrivial += 1;
            judge_guarded(judge, &Case::new("parse", b.clone()).text(&["large"]), &mut acc);
            let body = b.len() - 20;
            for l in [body.wrapping_sub(4), body + 4, body.wrapping_sub(1), 0] {
                if l <= 0xFFFF && l != body {
                    let mut x = b.clone();
                    wire::set_len(&mut x, l);
                    judge_guarded(judge, &Case::new("parse", x).text(&["large+hdrlen"]), &mut acc);
                }
            }
            for cut in [1usize, 4, 8] {
                if b.len() > 20 + cut {
                    judge_guarded(judge, &Case::new("parse", b[..b.len() - cut].to_vec()).text(&["large+cut"]), &mut acc);
                }
            }
            acc
        })
        .reduce(Acc::default, |a, b| a.merge(b));
    let acc = acc.merge(acc_big);
    let _ = n_big;
    // every (class, method) pair x four small bodies x {as is, header length +-4, last byte cut, one
    // excess byte, padding byte set}: acceptance must not depend on what kind of message it is
    let acc_cm = (0..16384u32)
        .into_par_iter()
        .fold(Acc::default, |mut acc, cm| {
            let (class, method) = ((cm >> 12) as u8, (cm & 0xFFF) as u16);
            let tidv: u128 = 0x4142_4344_4546_4748_494A_4B4C;
            for body in 0..4u8 {
                let mut b = wire::encode_header(class, method, tidv, 0);
                match body {
                    0 => {}
                    1 => wire::append_raw(&mut b, 0x0013, &[1, 2, 3, 4, 5]),
                    2 => {
                        wire::append_raw(&mut b, 0x8022, b"x");
                        wire::append_mi(&mut b, b"k");
                        wire::append_fp(&mut b);
                    }
                    _ => {
                        wire::append_raw(&mut b, 0x0006, b"us");
                        wire::append_raw(&mut b, 0x0013, &[]);
                    }
                }
                let mut variants = vec![b.clone()];
                let l = wire::be16(&b[2..4]);
                for nl in [l + 4, l.wrapping_sub(4)] {
                    if nl < 0x1_0000 {
                        let mut x = b.clone();
                        wire::set_len(&mut x, nl);
                        variants.push(x);
                    }
                }
                if b.len() > 20 {
                    variants.push(b[..b.len() - 1].to_vec());
                    let mut x = b.clone();
                    let last = x.len() - 1;
                    x[last] ^= 0x01;
                    variants.push(x);
                }
                let mut x = b.clone();
                x.push(0);
                variants.push(x);
                for v in variants {
                    judge_guarded(judge, &Case::new("parse", v).text(&["class-method"]), &mut acc);
                }
            }
            acc
        })
        .reduce(Acc::default, |a, b| a.merge(b));
    let acc = acc.merge(acc_cm);
    // many attributes: n = 1..=200 and 1000, 4000, 16000 attributes (one type repeated / distinct
    // types / XOR-PEER-ADDRESS-like 8-byte values), plain and with a trailing FINGERPRINT: a well-formed
    // message is accepted however many attributes it has, and iteration yields them all
    let mut many: Vec<Case> = Vec::new();
    for n in (1..=200usize).chain([1000, 4000, 16000]) {
        for shape in 0..3u8 {
            let mut b = wire::encode_header(0, 8, 0x5152_5354_5556_5758_595A_5B5C, 0);
            for i in 0..n {
                match shape {
                    0 => wire::append_raw(&mut b, 0x0012, &[0, 1, (i >> 8) as u8, i as u8, 10, 0, (i >> 8) as u8, i as u8]),
                    1 => wire::append_raw(&mut b, 0xC000 + (i % 0x3000) as u16, &[]),
                    _ => wire::append_raw(&mut b, 0x8022, &[b'a' + (i % 26) as u8]),
                }
            }
            if b.len() > 65_000 {
                continue;
            }
            many.push(Case::new("parse", b.clone()).text(&["many"]));
            if n <= 200 {
                wire::append_fp(&mut b);
                many.push(Case::new("parse", b).text(&["many"]));
            }
        }
    }
    let acc = acc.merge(crate::props::sweep(many.into_par_iter(), judge));
    // repeated attributes of every built-in type: two and three occurrences whose values are each
    // either a valid value, another valid value, or a value the typed decoder refuses, in every order
    // (with and without a FINGERPRINT): every lookup, raw and typed, answers from the first occurrence
    let mut dups: Vec<Case> = Vec::new();
    for k in crate::refimpl::attrs::ALL_KINDS {
        use crate::refimpl::attrs::{decode, Verdict};
        let tid0: u128 = 0x0102_0304_0506_0708_090A_0B0C;
        let goods: Vec<Vec<u8>> = crate::engine_in::values::encode_values(k, 1).into_iter().filter(|(v, t)| *t == tid0 && matches!(decode(k, v), Verdict::Accept(_))).map(|(v, _)| v).collect();
        let mut vals: Vec<Vec<u8>> = Vec::new();
        if let Some(g) = goods.first() {
            vals.push(g.clone());
        }
        if let Some(g) = goods.iter().rev().find(|g| Some(*g) != goods.first()) {
            vals.push(g.clone());
        }
        if let Some(b) = crate::engine_in::values::decode_values(k, ctx.tier).into_iter().find(|v| matches!(decode(k, v), Verdict::Reject(_))) {
            vals.push(b);
        }
        if wire::is_integrity(k.code()) || k.code() == wire::FP {
            continue; // sealing attributes have their own families
        }
        for n in 2..=3u32 {
            for mut code in 0..(vals.len() as u32).pow(n) {
                let mut b = wire::encode_header(0, 1, tid0, 0);
                for _ in 0..n {
                    wire::append_raw(&mut b, k.code(), &vals[(code as usize) % vals.len()]);
                    code /= vals.len() as u32;
                }
                dups.push(Case::new("parse", b.clone()));
                wire::append_fp(&mut b);
                dups.push(Case::new("parse", b));
            }
        }
    }
    let mut acc = acc.merge(crate::props::sweep(dups.into_par_iter(), judge));
    // thread teardown: the parser family from a thread-local destructor (child process)
    crate::teardown::judge(P, "parser", &mut acc);
    crate::teardown::callsite_sweep(P, "parser", &mut acc);
    Report {
        acc,
        exhaustive: true,
        rule: "every 16-bit value in the length field of an attribute header (six types x five layouts, message length consistent); all attribute skeletons over {OPT,SW x len 0/1/3/4, MI, MI256, FP ok, FP bad} to the stated depth x 4 header variants (one per class); on each: every cut point, header-length perturbation, excess variant, per-attribute length perturbation, top bits, every cookie bit, non-zero padding; on skeletons of <= 3 attributes (thorough 4) also every value of every type/length byte of the header and of each attribute header and every single-bit flip of buffers up to 64 bytes; plus every 16-bit attribute type (value length 0 and 5) at each position of 10 templates around MI / MI256 / FP; large messages (one big attribute + every tail of <= 2 sealing attributes, ending at every multiple of 4 in 65480..=65552 and around 256 / 4096 / 32768) and values that look like sealing-attribute headers, each with header-length perturbations and cuts; all 16 384 (class, method) pairs x four small bodies x six variants; messages with 1..=200 / 1000 / 4000 / 16000 attributes; well-formed messages behind framing headers (2- and 4-byte lengths, ChannelData, TLS record, CR LF) and twice in a row; messages with two / three occurrences of each built-in type (valid, other valid, refused value, every order); typed lookups compared with the typed decoding of the first occurrence on every accepted message; distinct_nontrivial counts fault-free skeleton buffers".into(),
        bounds: json!({"skeletons": n_sk, "full_alphabet_depth": n_full, "small_alphabet_depth": n_small, "header_variants": 4, "faults": "single"}),
        assumptions: vec!["buffers outside the grammar alphabets and with two or more independent faults are not explored".into()],
        ..Default::default()
    }
}

/// Buffers that place an attribute of type `x` alone, before and after each ending attribute.
pub fn type_sweep_buffers(c: u8, m: u16, t: u128, x: u16) -> Vec<Vec<u8>> {
    let mut out = Vec::new();
    let val5 = [0x61u8, 0x62, 0x63, 0x64, 0x65];
    // templates: sequence of slots; 'X' = the swept type, others = skeleton tokens
    let templates: [&[u8]; 10] = [b"X", b"x", b"SX", b"XM", b"MX", b"XF", b"FX", b"NX", b"MXF", b"XSM"];
    for tpl in templates {
        let mut b = wire::encode_header(c, m, t, 0);
        for s in tpl.iter() {
            match s {
                b'X' => wire::append_raw(&mut b, x, &[]),
                b'x' => wire::append_raw(&mut b, x, &val5),
                b'S' => wire::append_raw(&mut b, 0x8022, b"sw"),
                b'M' => wire::append_mi(&mut b, engine_in::KEY),
                b'N' => wire::append_mi256(&mut b, engine_in::KEY, 32),
                b'F' => wire::append_fp(&mut b),
                _ => unreachable!(),
            }
        }
        out.push(b);
    }
    out
}

fn cause_matches(c: &Cause, e: &PErr) -> bool {
    match (c, e) {
        (Cause::AnyError, _) => true,
        (Cause::NotStun, PErr::NotStun) => true,
        (Cause::Truncated { expected, actual }, PErr::Truncated(e2, a2)) => {
            expected.map_or(true, |x| x == *e2) && actual.map_or(true, |x| x == *a2)
        }
        (Cause::AfterIntegrity(t), PErr::AfterIntegrity(t2)) => t == t2,
        (Cause::AfterFingerprint(t), PErr::AfterFingerprint(t2)) => t == t2,
        (Cause::FingerprintMismatch, PErr::FingerprintMismatch) => true,
        _ => false,
    }
}

/// Compare an accepted real message with the reference parse `m` of the same bytes:
/// header fields, the attribute sequence up to and including the first integrity attribute, and
/// first-match lookups for types decided inside that range.
fn compare_accepted(acc: &mut Acc, case: &Case, msg: &Message, m: &wire::RefMsg, clause_prefix: &str) {
    let tid: u128 = msg.transaction_id().into();
    if real::class_num(msg.class()) != m.class || msg.method() != m.method || tid != m.tid {
        viol!(acc, P, &format!("{clause_prefix}header-fields"), case, "class/method/transaction id differ from the encoded ones", format!("({}, {:#x}, {:#x})", m.class, m.method, m.tid), format!("({}, {:#x}, {:#x})", real::class_num(msg.class()), msg.method(), tid));
    }
    let (seq, _after) = real::iterate(msg, 0);
    let cut = wire::first_integrity(&m.attrs).map(|i| i + 1).unwrap_or(m.attrs.len());
    let want: Vec<(u16, Vec<u8>)> = m.attrs[..cut].iter().map(|a| (a.typ, a.value.clone())).collect();
    let got: Vec<(u16, Vec<u8>)> = seq.iter().take(cut).cloned().collect();
    if got != want {
        viol!(acc, P, &format!("{clause_prefix}attribute-sequence"), case, "iterated attributes (up to the first integrity attribute) differ from the encoded ones", format!("{:?}", want.iter().map(|(t, v)| format!("{t:#06x}:{}", fmt_bytes(v))).collect::<Vec<_>>()), format!("{:?}", got.iter().map(|(t, v)| format!("{t:#06x}:{}", fmt_bytes(v))).collect::<Vec<_>>()));
    }
    if wire::first_integrity(&m.attrs).is_none() && seq.len() != m.attrs.len() {
        viol!(acc, P, &format!("{clause_prefix}attribute-count"), case, "number of iterated attributes differs (no integrity attribute present)", format!("{}", m.attrs.len()), format!("{}", seq.len()));
    }
    for t in LOOKUP_TYPES {
        let first_pos = m.attrs.iter().position(|a| a.typ == t);
        let decided = match first_pos {
            None => true,          // absent everywhere: must not be found
            Some(p) => p < cut,    // first occurrence inside the authenticated range
        };
        if !decided {
            continue; // exposure after the first integrity attribute is C10's business
        }
        let want = first_pos.map(|p| m.attrs[p].value.clone());
        let got = msg.raw_attribute(AttributeType::new(t)).map(|r| r.value.to_vec());
        let has = msg.has_attribute(AttributeType::new(t));
        if got != want || has != want.is_some() {
            viol!(acc, P, &format!("{clause_prefix}lookup"), case, format!("raw_attribute/has_attribute({t:#06x}) is not the first match"), format!("{:?}", want.map(|v| fmt_bytes(&v))), format!("{:?} has={has}", got.map(|v| fmt_bytes(&v))));
        }
    }
    // typed lookups: attribute::<T>() is the typed decoder applied to the first occurrence (value or
    // error alike); an absent type is reported missing
    for k in crate::refimpl::attrs::ALL_KINDS {
        let t = k.code();
        let first_pos = m.attrs.iter().position(|a| a.typ == t);
        match first_pos {
            None => {
                if !matches!(k, crate::refimpl::attrs::Kind::Software | crate::refimpl::attrs::Kind::ErrorCode) {
                    continue; // two absent types suffice per message
                }
                match real::msg_attribute(msg, k, m.tid) {
                    Err(PErr::MissingAttribute(x)) if x == t => {}
                    other => viol!(acc, P, &format!("{clause_prefix}typed-lookup-absent"), case, format!("attribute::<{}>() of a message without that attribute", k.name()), format!("Err(MissingAttribute({t:#06x}))"), format!("{other:?}")),
                }
            }
            Some(p) if p < cut => {
                let raw = stun_types::attribute::RawAttribute::new(AttributeType::new(t), &m.attrs[p].value);
                let want = real::decode_kind(k, &raw, m.tid);
                let got = real::msg_attribute(msg, k, m.tid);
                if got != want {
                    viol!(acc, P, &format!("{clause_prefix}typed-lookup"), case, format!("attribute::<{}>() is not the typed decoding of the first occurrence", k.name()), format!("{want:?}"), format!("{got:?}"));
                }
            }
            _ => {}
        }
    }
}

pub fn judge(case: &Case, acc: &mut Acc) {
    acc.evaluations += 1;
    acc.validated += 1;
    let buf = &case.data;
    let reference = wire::decode(buf);
    let real = Message::from_bytes(buf);
    // the TryFrom<&[u8]> conversion is the same parser
    {
        let via_try: Result<Message, _> = Message::try_from(&buf[..]);
        let same = match (&real, &via_try) {
            (Ok(a), Ok(b)) => real::iterate(a, 0) == real::iterate(b, 0) && a.get_type() == b.get_type() && a.transaction_id() == b.transaction_id(),
            (Err(a), Err(b)) => format!("{a:?}") == format!("{b:?}"),
            _ => false,
        };
        if !same {
            viol!(acc, P, "try_from-vs-from_bytes", case, "Message::try_from(&[u8]) and Message::from_bytes disagree", format!("{:?}", real.as_ref().map(|_| "Ok").map_err(|e| format!("{e:?}"))), format!("{:?}", via_try.as_ref().map(|_| "Ok").map_err(|e| format!("{e:?}"))));
        }
    }
    // the same bytes at the other residues of their address modulo 4 (fault-free and family buffers;
    // the single-fault mutants of a buffer share its alignment behaviour)
    let tag = case.text.first().map(|s| s.as_str()).unwrap_or("none");
    if matches!(tag, "none" | "class-method" | "many" | "alt-crc" | "large" | "type-sweep") || case.text.is_empty() {
        let first = real::parse_summary(buf);
        if let Some((r, got)) = real::differs_at_residue(buf, &first, real::parse_summary) {
            viol!(acc, P, "parse-depends-on-alignment", case, format!("the same bytes parse differently when they lie at an address that is {r} modulo 4"), format!("{first:?}").chars().take(300).collect::<String>(), format!("{got:?}").chars().take(300).collect::<String>());
        }
    }
    match (&reference, real) {
        (Ok(m), Ok(msg)) => {
            acc.outcome("accepted by both");
            compare_accepted(acc, case, &msg, m, "");
        }
        (Ok(_), Err(e)) => {
            let pe: PErr = e.into();
            acc.outcome("VIOLATION: well-formed refused");
            viol!(acc, P, "refuses-well-formed", case, "a well-formed message was refused", "Ok", format!("{pe:?}"));
        }
        (Err(r), Ok(msg)) => {
            if r.excess_only {
                // admissible only if the excess is never interpreted
                let declared = 20 + wire::be16(&buf[2..4]);
                let m = wire::decode(&buf[..declared]).expect("excess_only implies a well-formed declared part");
                let before = acc.violations.len();
                compare_accepted(acc, case, &msg, &m, "excess/");
                let (seq, _) = real::iterate(&msg, 0);
                let max_exposed = wire::exposed(&m.attrs).len();
                if seq.len() > max_exposed {
                    viol!(acc, P, "excess/interpreted", case, "bytes beyond the declared length are interpreted as attributes", format!("at most {max_exposed} attributes (the declared part) or a refusal"), format!("{} attributes iterated", seq.len()));
                }
                if acc.violations.len() == before {
                    acc.outcome("excess bytes: accepted, excess ignored");
                } else {
                    acc.outcome("VIOLATION: excess interpreted");
                }
            } else {
                acc.outcome("VIOLATION: malformed accepted");
                let clause = format!("accepts-malformed/{}", r.why.replace(' ', "-"));
                viol!(acc, P, &clause, case, format!("a malformed buffer was accepted ({})", r.why), format!("Err, one of {:?}", r.causes), "Ok");
            }
        }
        (Err(r), Err(e)) => {
            let pe: PErr = e.into();
            if r.causes.iter().any(|c| cause_matches(c, &pe)) {
                let k = match pe {
                    PErr::NotStun => "refused: NotStun",
                    PErr::Truncated(..) => "refused: Truncated",
                    PErr::TooLarge(..) => "refused: TooLarge",
                    PErr::AfterIntegrity(_) => "refused: AttributeAfterIntegrity",
                    PErr::AfterFingerprint(_) => "refused: AttributeAfterFingerprint",
                    PErr::FingerprintMismatch => "refused: FingerprintMismatch",
                    _ => "refused: other",
                };
                acc.outcome(k);
            } else {
                acc.outcome("VIOLATION: wrong cause");
                let clause = format!("wrong-cause/{}", r.why.replace(' ', "-"));
                viol!(acc, P, &clause, case, format!("rejection names the wrong cause ({})", r.why), format!("one of {:?}", r.causes), format!("{pe:?}"));
            }
        }
    }
    let _ = Tok::Mi; // (alphabet lives in engine_in)
}
