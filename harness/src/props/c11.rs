//! C11 — builder ordering rules hold and refused operations leave no trace.
//! Engine SM: all operation sequences up to the depth, deduplicated on (reference builder state +
//! complete Debug snapshot of the real builder).

use crate::common::*;
use crate::engine_in::prog::{self, Op, Prog, RefBuilder, RefTree, WErr};
use crate::engine_sm::{explore, snapshot, Limits, SmModel};
use crate::real;
use crate::refimpl::attrs::Kind;
use crate::refimpl::wire;
use crate::viol;
use serde_json::{json, Value};
use stun_types::attribute::AttributeType;
use stun_types::message::Message;

const P: &str = "C11";
const TID: u128 = 0x0B0B_0102_0304_0506_0708_090A;

fn alphabet() -> Vec<Op> {
    let xa = crate::refimpl::attrs::encode(Kind::XorMappedAddress, &crate::refimpl::attrs::Val::Addr(crate::refimpl::attrs::xor_addr("192.0.2.1:32853".parse().unwrap(), TID)));
    vec![
        Op::Typed(Kind::Software, b"sw".to_vec()),
        Op::Typed(Kind::Username, b"user1".to_vec()),
        Op::Typed(Kind::Priority, vec![0, 0, 0, 7]),
        Op::Typed(Kind::XorMappedAddress, xa),
        Op::Raw(0xFF00, vec![0x42]),
        Op::Raw(0x7F00, vec![]),
        Op::Raw(0x8022, b"raw".to_vec()), // collides with typed SOFTWARE
        Op::Sha1(0),
        Op::Sha256(1),
        Op::Fp,
        Op::IntoOwned,
        Op::Clone,
        Op::Measure,
        Op::CloneFrom(0),
        Op::CloneFrom(1),
        Op::Fork,
        Op::Swap,
    ]
}

const UNIVERSE: [u16; 10] = [0x8022, 0x0006, 0x0024, 0x0020, 0xFF00, 0x7F00, 0x0008, 0x001C, 0x8028, 0x0009];

#[derive(Clone, Debug, PartialEq, Eq)]
struct Observed {
    bytes: Vec<u8>,
    byte_len: usize,
    has: Vec<bool>,
    /// has_any_attribute over ANY_LISTS
    any: Vec<Option<u16>>,
    debug: String,
}

/// lists handed to has_any_attribute: sealing types in two orders, a typed + a raw type, the whole
/// universe, one absent type, nothing
const ANY_LISTS: [&[u16]; 6] = [&[0x0008, 0x001C, 0x8028], &[0x8028, 0x001C, 0x0008], &[0x8022, 0x7F00], &UNIVERSE, &[0x0009], &[]];

fn observe(b: &stun_types::message::MessageBuilder) -> Observed {
    Observed { bytes: b.build(), byte_len: b.byte_len(), has: UNIVERSE.iter().map(|t| b.has_attribute(AttributeType::new(*t))).collect(), any: ANY_LISTS.iter().map(|l| b.has_any_attribute(&l.iter().map(|t| AttributeType::new(*t)).collect::<Vec<_>>()).map(|t| t.value())).collect(), debug: format!("{b:?}") }
}

/// run a program, judge every step; returns the final observation (for the dedup key)
fn run_prog(case: &Case, acc: &mut Acc) -> Option<(RefTree, Observed, String)> {
    let p = Prog::from_case(case);
    let mut tree = RefTree::new(p.class, p.method, p.tid);
    let mut prev = observe(&real::builder(p.class, p.method, p.tid));
    let mut sib_debug = String::new();
    check_state(case, acc, &tree.cur, &prev, "initial");
    // (the builder is looked at first, then the sibling, then the builder again: what one of them
    // remembers from being serialised must not show in the other)
    let mut steps: Vec<(Result<(), WErr>, Observed, Option<Observed>, Observed)> = Vec::new();
    if prog::execute_tree(&p, |_, r, b, sib| steps.push((r.clone(), observe(b), sib.map(observe), observe(b)))).is_err() {
        acc.outcome("typed value refused by constructor");
        return None;
    }
    for (i, (r, obs, sib_obs, again)) in steps.into_iter().enumerate() {
        acc.evaluations += 1;
        acc.validated += 1;
        let op = &p.ops[i];
        let was_swap = matches!(op, Op::Swap | Op::Mutate(_)) || (matches!(op, Op::AppMut(_)));
        let accepted = tree.apply(op);
        if was_swap {
            // what "unchanged" means for a refused operation is relative to the builder now current
            prev = obs.clone();
        }
        sib_debug = sib_obs.as_ref().map(|o| o.debug.clone()).unwrap_or_default();
        if let (Some(so), Some(srb)) = (&sib_obs, &tree.sib) {
            if !check_state(case, acc, srb, so, &format!("{} (the sibling kept by FORK)", op.to_text())) {
                return None;
            }
        }
        if again.bytes != obs.bytes || again.has != obs.has || again.byte_len != obs.byte_len {
            viol!(acc, P, "changes-when-sibling-is-looked-at", case, format!("after {} the builder serialises differently once its sibling (a clone kept beside it) has been serialised", op.to_text()), fmt_bytes(&obs.bytes), fmt_bytes(&again.bytes));
            return None;
        }
        let rb = &tree.cur;
        match (&r, accepted) {
            (Ok(()), true) => acc.outcome("operation accepted"),
            (Err(_), false) => {
                acc.outcome("operation refused");
                if obs.bytes != prev.bytes || obs.byte_len != prev.byte_len || obs.has != prev.has || obs.any != prev.any {
                    viol!(acc, P, "refusal-leaves-trace", case, format!("a refused {} changed what the builder serialises or answers", op.to_text()), format!("unchanged: {}", fmt_bytes(&prev.bytes)), format!("{} has={:?}", fmt_bytes(&obs.bytes), obs.has));
                    return None;
                }
                if obs.debug != prev.debug {
                    acc.outcome("note: internal snapshot changed after a refused operation (futures explored)");
                }
            }
            (Ok(()), false) => {
                viol!(acc, P, &format!("accepts-forbidden/{}", op.to_text().split(':').next().unwrap()), case, format!("{} was accepted although the ordering rules refuse it", op.to_text()), "Err", "Ok");
                return None;
            }
            (Err(e), true) => {
                viol!(acc, P, &format!("refuses-allowed/{}", op.to_text().split(':').next().unwrap()), case, format!("{} was refused although the ordering rules allow it", op.to_text()), "Ok", format!("{e:?}"));
                return None;
            }
        }
        if !check_state(case, acc, rb, &obs, &op.to_text()) {
            return None;
        }
        prev = obs;
    }
    Some((tree, prev, sib_debug))
}

/// builder's own queries agree with what it serialises; serialisation = reference; parser accepts; integrity valid
fn check_state(case: &Case, acc: &mut Acc, rb: &RefBuilder, obs: &Observed, after: &str) -> bool {
    let before = acc.violations.len();
    if obs.byte_len != obs.bytes.len() {
        viol!(acc, P, "byte_len", case, format!("byte_len() != build().len() after {after}"), format!("{}", obs.bytes.len()), format!("{}", obs.byte_len));
    }
    match wire::decode(&obs.bytes) {
        Err(e) => viol!(acc, P, "serialises-malformed", case, format!("after {after} the builder serialises a malformed message"), "well-formed", e.why),
        Ok(m) => {
            for (i, t) in UNIVERSE.iter().enumerate() {
                let on_wire = m.attrs.iter().any(|a| a.typ == *t);
                if obs.has[i] != on_wire {
                    viol!(acc, P, "has_attribute-vs-wire", case, format!("has_attribute({t:#06x}) disagrees with what is serialised after {after}"), format!("{on_wire}"), format!("{}", obs.has[i]));
                }
            }
            for (l, got) in ANY_LISTS.iter().zip(obs.any.iter()) {
                let present: Vec<u16> = l.iter().copied().filter(|t| m.attrs.iter().any(|a| a.typ == *t)).collect();
                let ok = match got {
                    None => present.is_empty(),
                    Some(t) => present.contains(t),
                };
                if !ok {
                    viol!(acc, P, "has_any_attribute-vs-wire", case, format!("has_any_attribute({l:04x?}) disagrees with what is serialised after {after}"), format!("one of {present:04x?} (None if empty)"), format!("{got:04x?}"));
                }
            }
        }
    }
    let want = rb.bytes();
    if obs.bytes != want {
        viol!(acc, P, "bytes-vs-reference", case, format!("serialisation after {after} differs from the reference (attribute list / HMAC / CRC)"), fmt_bytes(&want), fmt_bytes(&obs.bytes));
    }
    match Message::from_bytes(&obs.bytes) {
        Err(e) => viol!(acc, P, "parser-refuses", case, format!("the parser refuses the builder's output after {after}"), "Ok", format!("{:?}", real::PErr::from(e))),
        Ok(msg) => {
            if let Some((_, c)) = rb.seals.last() {
                // under the key of the integrity attribute validate_integrity reports
                let creds = prog::creds_alphabet();
                let mut ok = false;
                let mut detail = String::new();
                for (pos, c2) in &rb.seals {
                    let r = msg.validate_integrity(&real::creds(&creds[*c2 as usize]));
                    match r {
                        Ok(alg) if real::alg_num(alg) == rb.attrs[*pos].0 => ok = true,
                        other => detail.push_str(&format!("[{:#06x} under creds {c2}: {:?}] ", rb.attrs[*pos].0, other.map(real::alg_num).map_err(real::PErr::from))),
                    }
                }
                let _ = c;
                if !ok {
                    viol!(acc, P, "integrity-invalid", case, format!("validate_integrity does not succeed on the builder's output after {after}"), "Ok under the sealing credentials", detail);
                }
            }
        }
    }
    acc.violations.len() == before
}

pub fn judge(case: &Case, acc: &mut Acc) {
    let _ = run_prog(case, acc);
}

struct BuilderModel {
    class: u8,
    /// 0 = the main alphabet, 1 = the attributes of the RFC 8489 long-term credential flow
    which: u8,
}

/// USERNAME / USERHASH, REALM, NONCE, PASSWORD-ALGORITHM (MD5 and SHA-256), PASSWORD-ALGORITHMS, then
/// integrity under long-term and short-term credentials and the fingerprint: what the message says
/// about algorithms never changes the key the integrity attribute is computed with
fn alphabet_lt() -> Vec<Op> {
    vec![
        Op::Typed(Kind::Username, b"lt-user".to_vec()),
        Op::Typed(Kind::Userhash, (0..32).collect()),
        Op::Typed(Kind::Realm, b"realm.example".to_vec()),
        Op::Typed(Kind::Nonce, b"obMatJos2AAACf//499k954d6OL34oL9FSTvy64sA".to_vec()),
        Op::Typed(Kind::PasswordAlgorithm, vec![0, 2, 0, 0]),
        Op::Raw(0x001D, vec![0, 1, 0, 0]),
        Op::Typed(Kind::PasswordAlgorithms, vec![0, 1, 0, 0, 0, 2, 0, 0]),
        Op::Sha1(1),
        Op::Sha256(1),
        Op::Sha256(0),
        Op::Fp,
    ]
}

#[derive(Clone)]
struct BNode {
    ops: Vec<Op>,
    key: u128,
    dead: bool,
}

impl SmModel for BuilderModel {
    type State = BNode;
    type Action = Op;
    fn name(&self) -> String {
        format!("builder/class{}/alphabet{}", self.class, self.which)
    }
    fn init(&self) -> Vec<BNode> {
        vec![BNode { ops: vec![], key: 0, dead: false }]
    }
    fn actions(&self, s: &BNode, out: &mut Vec<Op>) {
        if !s.dead {
            // (SWAP without a sibling does nothing)
            let forked = s.ops.iter().any(|o| matches!(o, Op::Fork));
            out.extend((if self.which == 0 { alphabet() } else { alphabet_lt() }).into_iter().filter(|o| forked || !matches!(o, Op::Swap)));
        }
    }
    fn step(&self, s: &BNode, a: &Op, acc: &mut Acc) -> Option<BNode> {
        let mut ops = s.ops.clone();
        ops.push(a.clone());
        let case = Prog { class: self.class, method: 1, tid: TID, ops: ops.clone() }.to_case("builder_seq");
        let mut local = Acc::default();
        let r = match guarded(|| run_prog(&case, &mut local)) {
            Ok(r) => r,
            Err(p) => {
                local.violation(Violation::new(P, &format!("panic/{}", panic_label(&p)), format!("the builder panicked: {}", p.message), "Ok or Err", p.location.clone(), crate::props::in_replay(&case)));
                None
            }
        };
        // only the last step is new; earlier steps were judged when the prefix was explored
        let l = std::mem::take(&mut local);
        let a0 = std::mem::take(acc);
        *acc = a0.merge(l);
        match r {
            Some((rb, obs, sib_debug)) => {
                let key = snapshot::hash128(&format!("{:?}#{}#{}", rb, obs.debug, sib_debug));
                Some(BNode { ops, key, dead: false })
            }
            None => Some(BNode { key: snapshot::hash128(&format!("dead{:?}", ops)), ops, dead: true }),
        }
    }
    fn key(&self, s: &BNode) -> u128 {
        s.key
    }
    fn on_unique(&self, _s: &BNode, acc: &mut Acc) {
        acc.nontrivial += 1;
    }
    fn describe(&self, s: &BNode) -> Value {
        json!(s.ops.iter().map(|o| o.to_text()).collect::<Vec<_>>())
    }
}

pub fn run(ctx: &Ctx) -> Report {
    let depth = std::env::var("VERIF_DEPTH").ok().and_then(|d| d.parse::<usize>().ok()).unwrap_or(ctx.tier.pick(7, 9));
    let mut acc = Acc::default();
    let mut states = 0;
    let mut transitions = 0;
    let mut caps = Vec::new();
    let mut levels = Vec::new();
    for (class, which) in [(0u8, 0u8), (3, 0), (0, 1), (2, 1)] {
        let m = BuilderModel { class, which };
        let depth = if which == 0 { depth } else { depth.min(ctx.tier.pick(6, 7)) };
        let res = explore(&m, &Limits { max_depth: depth, max_states: ctx.tier.pick(5_000_000, 60_000_000), budget_s: ctx.budget_s() }, ctx.start);
        states += res.states;
        transitions += res.transitions;
        levels.push(json!({"class": class, "alphabet": which, "depth_completed": res.depth_completed, "per_level": res.per_level}));
        if let Some(c) = res.capped {
            caps.push(c);
        }
        acc = acc.merge(res.acc);
    }
    // type-code sweep: every 16-bit type code as a raw attribute before and after typed attributes,
    // followed by every sealing step (a type set that cannot tell two codes apart, or that mistakes a
    // code for a sealing attribute, refuses or mis-answers here)
    let sweep = {
        use rayon::prelude::*;
        (0..=0xFFFFu32)
            .into_par_iter()
            .fold(Acc::default, |mut a, x| {
                let x = x as u16;
                if x == wire::MI || x == wire::MI256 || x == wire::FP {
                    return a; // the builder documents a panic for raw sealing types
                }
                // a second code that agrees with x in its low six bits and its top bit
                let mut alt = x ^ 0x0040;
                if alt == wire::MI || alt == wire::MI256 || alt == wire::FP {
                    alt = x ^ 0x0100;
                }
                let progs = [
                    vec![Op::Raw(x, vec![1]), Op::Typed(Kind::Username, b"u".to_vec()), Op::Typed(Kind::Software, b"s".to_vec()), Op::Typed(Kind::Priority, vec![0, 0, 0, 1]), Op::Sha1(0), Op::Sha256(0), Op::Fp],
                    vec![Op::Typed(Kind::Username, b"u".to_vec()), Op::Typed(Kind::Software, b"s".to_vec()), Op::Raw(x, vec![]), Op::Raw(alt, vec![2, 3]), Op::Fp, Op::Raw(x, vec![9])],
                    // every sealing step tried again once the builder is sealed, beside an attribute of code x
                    // (seed C11-n: the reserved code 0 doubled as the "nothing" entry of a conflict list)
                    vec![Op::Raw(x, vec![1]), Op::Sha256(0), Op::Sha256(1), Op::Sha1(0), Op::Fp, Op::Sha256(0), Op::Sha1(0), Op::Fp],
                    vec![Op::Raw(x, vec![]), Op::Fp, Op::Sha256(0), Op::Sha1(1), Op::Fp, Op::Raw(alt, vec![7])],
                    vec![Op::Raw(x, vec![5, 6]), Op::Sha1(0), Op::Sha1(1), Op::Sha256(1), Op::Sha256(0), Op::Sha1(0)],
                ];
                for ops in progs {
                    let case = Prog { class: 0, method: 1, tid: TID, ops }.to_case("builder_seq");
                    crate::props::judge_guarded(judge, &case, &mut a);
                    a.nontrivial += 1;
                }
                a
            })
            .reduce(Acc::default, |a, b| a.merge(b))
    };
    acc = acc.merge(sweep);
    // long builders: n = 0..=40 (48 thorough) distinct filler attributes, then every tail of up to three
    // operations (the position of an attribute in the builder is an input: an inline-capacity boundary
    // of the type record, a position-indexed cache; seed C11-m needed the 16th position)
    let long = {
        use rayon::prelude::*;
        let max_n: usize = ctx.tier.pick(40, 48);
        let cases: Vec<(usize, Vec<Op>)> = (0..=max_n)
            .flat_map(|n| {
                let filler = |i: usize| Op::Raw(0xC100 + i as u16, vec![i as u8; i % 5]);
                let mut t: Vec<Op> = vec![Op::Sha1(0), Op::Sha256(1), Op::Fp, Op::Raw(0xFF00, vec![0x42]), Op::Typed(Kind::Software, b"sw".to_vec()), Op::IntoOwned, Op::Clone];
                if n > 0 {
                    t.push(filler(n - 1));
                    t.push(filler(0));
                    t.push(filler(n / 2));
                }
                let mut tails: Vec<Vec<Op>> = Vec::new();
                for a in &t {
                    tails.push(vec![a.clone()]);
                    for b in &t {
                        tails.push(vec![a.clone(), b.clone()]);
                        for c in &t {
                            tails.push(vec![a.clone(), b.clone(), c.clone()]);
                        }
                    }
                }
                tails.into_iter().map(move |tail| {
                    let mut ops: Vec<Op> = (0..n).map(filler).collect();
                    ops.extend(tail);
                    (n, ops)
                }).collect::<Vec<_>>()
            })
            .collect();
        cases
            .into_par_iter()
            .fold(Acc::default, |mut a, (n, ops)| {
                let case = Prog { class: (n % 4) as u8, method: 1, tid: TID, ops }.to_case("builder_seq");
                crate::props::judge_guarded(judge, &case, &mut a);
                a.nontrivial += 1;
                a
            })
            .reduce(Acc::default, |a, b| a.merge(b))
    };
    acc = acc.merge(long);
    // fixed programs with what the alphabets leave out: an attribute that re-enters the library, one that
    // leaves its padding to the zeroed destination (after an unrelated message was sealed on the thread),
    // a panic caught on this very thread inside each serialising call; then every sealing step
    {
        let mut progs: Vec<Vec<Op>> = Vec::new();
        let seals = [vec![Op::Fp], vec![Op::Sha1(0), Op::Fp], vec![Op::Sha256(1), Op::Fp], vec![Op::Sha1(0), Op::Sha256(1), Op::Fp, Op::Fp, Op::Raw(0xFF00, vec![1])]];
        for s in &seals {
            for pre in [vec![Op::Nested(0)], vec![Op::Nested(1), Op::Raw(0xFF00, vec![0x42])], vec![Op::Elsewhere(0), Op::CustomLazy(1)], vec![Op::Elsewhere(1), Op::CustomLazy(6), Op::CustomLazy(3)], vec![Op::Poison(8)], vec![Op::Poison(9)], vec![Op::Poison(10), Op::Typed(Kind::Software, b"sw".to_vec())], vec![Op::Poison(11)], vec![Op::Poison(12)],
                // attributes of zero-sized types (they share an address) beside each other and beside the library's own zero-sized USE-CANDIDATE
                vec![Op::Zst(0), Op::Zst(1), Op::Zst(2), Op::Zst(1)], vec![Op::Typed(Kind::UseCandidate, vec![]), Op::Zst(0), Op::Zst(1)], vec![Op::Zst(2), Op::Typed(Kind::UseCandidate, vec![]), Op::Zst(0), Op::IntoOwned, Op::Zst(1), Op::Zst(0)]] {
                let mut ops = pre.clone();
                ops.extend(s.clone());
                progs.push(ops);
            }
        }
        // the two integrity attributes of one builder under every ordered pair of credentials of the alphabet
        // (short- and long-term): each is computed with the credentials of its own call, also when the builder
        // was cloned / owned / forked in between (seed C11-o: a per-builder cache of the derived long-term key)
        let n_creds = prog::creds_alphabet().len() as u8;
        for c1 in 0..n_creds {
            for c2 in 0..n_creds {
                for mid in [vec![], vec![Op::IntoOwned], vec![Op::Clone], vec![Op::Fork, Op::Swap]] {
                    for pre in [vec![], vec![Op::Typed(Kind::Username, b"user".to_vec())]] {
                        let mut ops = pre.clone();
                        ops.push(Op::Sha1(c1));
                        ops.extend(mid.clone());
                        ops.push(Op::Sha256(c2));
                        ops.push(Op::Fp);
                        progs.push(ops);
                    }
                }
            }
        }
        for ops in progs {
            let case = Prog { class: 0, method: 1, tid: TID, ops }.to_case("builder_seq");
            crate::props::judge_guarded(judge, &case, &mut acc);
            acc.nontrivial += 1;
        }
    }
    // the evaluation counters of run_prog re-judge prefixes; transitions is the number of new (state, op) pairs
    Report {
        acc,
        states,
        transitions,
        exhaustive: true,
        rule: "all sequences up to the depth over {add typed SOFTWARE/USERNAME/PRIORITY/XOR-MAPPED-ADDRESS, add raw 0xff00/0x7f00/SOFTWARE's code, add SHA-1 integrity, add SHA-256 integrity, add fingerprint, into_owned, clone, measure, clone_from, fork (keep a sibling clone alive; both are looked at after every step), swap (carry on with the sibling)} x {request, error}, and to depth 6 (7) over the attributes of the long-term credential flow {USERNAME, USERHASH, REALM, NONCE, PASSWORD-ALGORITHM typed SHA-256 / raw MD5, PASSWORD-ALGORITHMS, integrity under long- and short-term credentials, fingerprint} x {request, success}; states deduplicated on reference builder state + the builder's complete Debug snapshot; plus, for every 16-bit type code x, five fixed programs that add x as a raw attribute before / after typed attributes, add x ^ 0x40, seal in every way, try every sealing step again on the sealed builder and try x again; plus long builders: 0..=40 (48) distinct filler attributes followed by every tail of up to three operations over {SHA-1, SHA-256, fingerprint, a new raw / typed attribute, into_owned, clone, a repeat of the first / middle / last filler}; plus SHA-1 then SHA-256 integrity under every ordered pair of the nine credentials, with into_owned / clone / fork+swap in between; distinct_nontrivial = unique states + sweep programs".into(),
        bounds: json!({"depth": depth, "alphabet": 12, "levels": levels}),
        assumptions: vec!["a snapshot difference after a refused operation is an evidence note only (the successor is a new state whose futures are explored)".into()],
        caps_hit: caps,
        ..Default::default()
    }
}
