//! C03 — whatever the builder serialises, the parser reads back identically.
//! Engine IN (build side): attribute lists x sealing combinations x header variants.

use crate::common::*;
use crate::engine_in::prog::{self, Op, Prog, RefTree};
use crate::engine_in::values;
use crate::props::judge_guarded;
use crate::real;
use crate::refimpl::attrs::{self, Kind, Val};
use crate::refimpl::wire;
use crate::viol;
use rayon::prelude::*;
use serde_json::json;
use stun_types::message::Message;

const P: &str = "C03";
pub const MASK96: u128 = (1u128 << 96) - 1;

/// The 16 non-sealing built-in kinds.
pub fn plain_kinds() -> Vec<Kind> {
    attrs::ALL_KINDS.iter().copied().filter(|k| !matches!(k, Kind::MessageIntegrity | Kind::MessageIntegritySha256 | Kind::Fingerprint)).collect()
}

/// 2–3 values per non-sealing kind (reference wire encodings) + raw unknown types.
pub fn attr_alphabet(tid: u128) -> Vec<Op> {
    let mut v = Vec::new();
    let t = |k: Kind, bytes: &[u8]| Op::Typed(k, bytes.to_vec());
    v.push(t(Kind::Username, b"u"));
    v.push(t(Kind::Username, "us\u{e9}r:name".as_bytes()));
    v.push(t(Kind::Realm, b"realm.example"));
    v.push(t(Kind::Realm, b""));
    v.push(t(Kind::Nonce, b"abc"));
    v.push(t(Kind::Nonce, b"f//499k954d6OL34oL9FSTvy64sA"));
    v.push(t(Kind::Software, b"stun"));
    v.push(t(Kind::Software, b"x"));
    v.push(t(Kind::AlternateDomain, b"example.org"));
    v.push(t(Kind::AlternateDomain, b"a.b"));
    v.push(t(Kind::AlternateDomain, b"trailing.space "));
    v.push(t(Kind::ErrorCode, &[0, 0, 4, 20, b'U', b'n', b'k']));
    v.push(t(Kind::ErrorCode, &[0, 0, 3, 0]));
    v.push(t(Kind::ErrorCode, &[0, 0, 6, 99, b'x', b'y']));
    v.push(t(Kind::UnknownAttributes, &[0x00, 0x06]));
    v.push(t(Kind::UnknownAttributes, &[0x7F, 0x00, 0x00, 0x24, 0x00, 0x25]));
    v.push(t(Kind::UnknownAttributes, &[]));
    v.push(t(Kind::PasswordAlgorithm, &[0, 1, 0, 0]));
    v.push(t(Kind::PasswordAlgorithm, &[0, 2, 0, 0]));
    v.push(t(Kind::PasswordAlgorithms, &[0, 1, 0, 0, 0, 2, 0, 0]));
    v.push(t(Kind::PasswordAlgorithms, &[0, 2, 0, 0]));
    v.push(t(Kind::Userhash, &[0x5A; 32]));
    v.push(t(Kind::Userhash, &(0..32).collect::<Vec<u8>>()));
    // address attributes: given as wire values (XOR-MAPPED-ADDRESS: already XOR-ed for `tid`)
    let xa = |a: &str| attrs::encode(Kind::XorMappedAddress, &Val::Addr(attrs::xor_addr(a.parse().unwrap(), tid)));
    v.push(Op::Typed(Kind::XorMappedAddress, xa("192.0.2.1:32853")));
    v.push(Op::Typed(Kind::XorMappedAddress, xa("[2001:db8:1234:5678:11:2233:4455:6677]:32853")));
    let pa = |a: &str| attrs::encode(Kind::AlternateServer, &Val::Addr(a.parse().unwrap()));
    v.push(Op::Typed(Kind::AlternateServer, pa("10.0.0.1:3478")));
    v.push(Op::Typed(Kind::AlternateServer, pa("[::1]:1")));
    v.push(t(Kind::Priority, &[0x6e, 0x00, 0x01, 0xff]));
    v.push(t(Kind::Priority, &[0, 0, 0, 0]));
    v.push(t(Kind::UseCandidate, &[]));
    v.push(t(Kind::IceControlled, &[0x93, 0x2f, 0xf9, 0xb1, 0x51, 0x26, 0x3b, 0x36]));
    v.push(t(Kind::IceControlling, &[0xFF; 8]));
    v.push(t(Kind::IceControlling, &[0; 8]));
    // raw attributes: unknown types and raw forms of known types
    v.push(Op::Raw(0xFF00, vec![1]));
    v.push(Op::Raw(0xFF00, vec![]));
    v.push(Op::Raw(0x7F00, vec![1, 2, 3, 4, 5]));
    v.push(Op::Raw(0x0001, vec![0, 1, 0x12, 0x34, 1, 2, 3, 4]));
    v.push(Op::Raw(0x8022, b"raw software".to_vec()));
    v.push(Op::Raw(0x0006, vec![0xFF, 0xFE])); // raw USERNAME that is not UTF-8: the builder does not care
    // boundary type codes (reserved 0x0000, the comprehension boundary, the last code)
    v.push(Op::Raw(0x0000, vec![9, 9]));
    v.push(Op::Raw(0x7FFF, vec![]));
    v.push(Op::Raw(0x8000, vec![7]));
    v.push(Op::Raw(0xFFFF, vec![1, 2, 3, 4]));
    v
}

/// the 8 sealing combinations (as operation suffixes) under credentials `c`
pub fn sealings(c: u8) -> Vec<Vec<Op>> {
    vec![
        vec![],
        vec![Op::Sha1(c)],
        vec![Op::Sha256(c)],
        vec![Op::Sha1(c), Op::Sha256(c)],
        vec![Op::Fp],
        vec![Op::Sha1(c), Op::Fp],
        vec![Op::Sha256(c), Op::Fp],
        vec![Op::Sha1(c), Op::Sha256(c), Op::Fp],
    ]
}

pub fn headers(ctx: &Ctx) -> Vec<(u8, u16, u128)> {
    let seed_t = ((ctx.seeded(3) as u128) << 32 | ctx.seeded(4) as u128) & MASK96;
    let mut h = Vec::new();
    for c in 0..4u8 {
        for m in [0u16, 1, 0x7F, 0x80, 0xFFF] {
            for t in [0u128, 1, MASK96, 0x2112_A442_2112_A442_2112_A442, seed_t] {
                h.push((c, m, t));
            }
        }
    }
    h
}

/// attribute lists of length <= n with pairwise distinct type codes
pub fn attr_lists(alpha: &[Op], n: usize) -> Vec<Vec<Op>> {
    let mut out: Vec<Vec<Op>> = vec![vec![]];
    let mut level: Vec<Vec<Op>> = vec![vec![]];
    for _ in 0..n {
        let mut next = Vec::new();
        for l in &level {
            for a in alpha {
                if l.iter().any(|x| x.type_code() == a.type_code()) {
                    continue;
                }
                let mut nl = l.clone();
                nl.push(a.clone());
                next.push(nl);
            }
        }
        out.extend(next.iter().cloned());
        level = next;
    }
    out
}

pub fn run(ctx: &Ctx) -> Report {
    let tid0: u128 = ((ctx.seeded(5) as u128) << 16 | 0xABCD) & MASK96;
    let alpha = attr_alphabet(tid0);
    let depth = ctx.tier.pick(3, 4);
    let lists = attr_lists(&alpha, depth);
    let n_lists = lists.len();
    let hs = headers(ctx);
    // (1) attribute lists x sealings x 2 credentials (fixed header)
    let acc1 = lists
        .par_iter()
        .enumerate()
        .fold(Acc::default, |mut acc, (i, l)| {
            // short-term credentials, and one of the four long-term credentials of the alphabet by list
            // index (neighbouring pool threads seal under different long-term users at the same time)
            for c in [0u8, [1u8, 4, 5, 6][i % 4]] {
                for s in sealings(c) {
                    if c != 0 && s.is_empty() {
                        continue;
                    }
                    let mut ops = l.clone();
                    ops.extend(s);
                    let p = Prog { class: (i % 4) as u8, method: 1, tid: tid0, ops };
                    let case = p.to_case("build");
                    if i % 4001 == 17 && c == 0 {
                        acc.sample(case.brief());
                    }
                    judge_guarded(judge, &case, &mut acc);
                    if c == 0 {
                        // the same message through the builder's other paths: into_owned() between the
                        // attributes and the sealing, into_owned() / clone() at the end, and the builder
                        // measured and serialised after every operation
                        let nl = l.len();
                        let base = &p.ops;
                        let mut v1 = base.clone();
                        v1.insert(nl, Op::IntoOwned);
                        let mut v2 = base.clone();
                        v2.push(Op::IntoOwned);
                        v2.push(Op::Clone);
                        v2.push(Op::CloneFrom(1));
                        let mut v3 = Vec::new();
                        for o in base {
                            v3.push(o.clone());
                            v3.push(Op::Measure);
                        }
                        for ops in [v1, v2, v3] {
                            let q = Prog { class: p.class, method: 1, tid: tid0, ops };
                            judge_guarded(judge, &q.to_case("build"), &mut acc);
                        }
                    }
                }
            }
            acc
        })
        .reduce(Acc::default, |a, b| a.merge(b));
    // (2) header variants x a small list family x sealings; all 4096 methods with one list
    let small: Vec<Vec<Op>> = vec![vec![], vec![alpha[6].clone()], vec![alpha[0].clone(), Op::Raw(0xFF00, vec![1, 2, 3])]];
    let mut cases2: Vec<Case> = Vec::new();
    for (c, m, t) in &hs {
        for l in &small {
            for s in sealings(0).into_iter().chain(sealings(8)) {
                let mut ops = l.clone();
                ops.extend(s);
                cases2.push(Prog { class: *c, method: *m, tid: *t, ops }.to_case("build"));
            }
        }
    }
    for m in 0..4096u16 {
        for c in 0..4u8 {
            cases2.push(Prog { class: c, method: m, tid: tid0, ops: vec![alpha[6].clone(), Op::Sha1(0), Op::Fp] }.to_case("build"));
        }
    }
    // (2b) builders holding 1..=48 attributes of distinct types; one-attribute messages over the whole encode-side value alphabet of every built-in type
    // (decorated and protocol-looking texts, standard reason phrases in several spellings and with the
    // code in front, special-purpose addresses, every list shape ...), unsealed and sealed
    for k in attrs::ALL_KINDS {
        if wire::is_integrity(k.code()) || k.code() == wire::FP {
            continue;
        }
        for (v, t) in crate::engine_in::values::encode_values(k, ctx.seeded(3)) {
            if t != 0x0102_0304_0506_0708_090A_0B0C {
                continue;
            }
            for s in [vec![], vec![Op::Sha1(0), Op::Fp]] {
                let mut ops = vec![Op::Typed(k, v.clone())];
                ops.extend(s);
                cases2.push(Prog { class: 3, method: 1, tid: t, ops }.to_case("build"));
            }
        }
    }
    // (2d) an attribute type of the application's own (its own AttributeWrite implementation), value
    // lengths 0..=12, alone / between typed attributes / sealed / after into_owned
    // (and values around 256 / 763 / 1024 / 4096 bytes and of 65 000 bytes: nothing says an
    // application's attribute is as short as the library's own)
    for l in (0..=12u16).chain([13, 255, 256, 763, 764, 1016, 1017, 1020, 1021, 1024, 1025, 4095, 4096, 65_000]) {
        let l2 = if l < 12 { l + 1 } else { 0 };
        for ops in [vec![Op::Custom(l)], vec![alpha[0].clone(), Op::Custom(l), alpha[6].clone()], vec![Op::Custom(l), Op::Sha1(0), Op::Sha256(0), Op::Fp], vec![Op::Custom(l), Op::IntoOwned, Op::Sha1(1), Op::Fp], vec![Op::Custom(l), Op::Custom(l2), Op::Measure, Op::Clone, Op::Fp], vec![Op::Custom(l), Op::Clone, Op::IntoOwned, Op::Measure]] {
            cases2.push(Prog { class: (l % 4) as u8, method: 1, tid: tid0, ops }.to_case("build"));
        }
    }
    // (2f) an application attribute whose value the application changes after add_attribute (a value
    // behind an atomic, filled in just before sending): whatever is serialised later carries the value
    // of that moment, until into_owned takes a copy
    for a in [0u16, 1, 3, 4, 5, 8, 12, 200, 1017] {
        for b in [0u16, 1, 3, 4, 5, 8, 12, 200, 1017] {
            for ops in [
                vec![Op::AppMut(a), Op::Mutate(b)],
                vec![alpha[0].clone(), Op::AppMut(a), Op::Measure, Op::Mutate(b), alpha[6].clone()],
                vec![Op::AppMut(a), Op::Measure, Op::Mutate(b), Op::Sha1(0), Op::Sha256(0), Op::Fp],
                vec![Op::AppMut(a), Op::Fork, Op::Mutate(b), Op::Measure, Op::Swap, Op::Fp],
                vec![Op::AppMut(a), Op::Mutate(b), Op::IntoOwned, Op::Mutate(a), Op::Fp],
                vec![Op::AppMut(a), Op::Clone, Op::Mutate(b), Op::Measure],
            ] {
                cases2.push(Prog { class: (a % 4) as u8, method: 1, tid: tid0, ops }.to_case("build"));
            }
        }
    }
    // (2h) the library re-entered on the same thread from inside an application attribute that seals an
    // inner message while the outer one is serialised / sealed; an application attribute that leaves its
    // padding to the (zeroed) destination, after an unrelated message full of 0xFF was sealed on the thread
    for k in 0..2u8 {
        for s in sealings(0) {
            for pre in [vec![], vec![alpha[0].clone()], vec![Op::Elsewhere(0)]] {
                let mut ops = pre.clone();
                ops.push(Op::Nested(k));
                ops.extend(s.clone());
                cases2.push(Prog { class: k, method: 1, tid: tid0, ops }.to_case("build"));
            }
        }
    }
    for l in 0..=9u16 {
        for s in sealings(1) {
            for pre in [vec![Op::Elsewhere(0)], vec![Op::Elsewhere(1), alpha[6].clone()], vec![], vec![Op::Typed(Kind::Software, vec![b'Z'; 40])], vec![Op::Raw(0xFF00, vec![0xFF; 23])], vec![Op::CustomLazy(21)]] {
                let mut ops = pre.clone();
                ops.push(Op::CustomLazy(l));
                ops.extend(s.clone());
                cases2.push(Prog { class: (l % 4) as u8, method: 1, tid: tid0, ops }.to_case("build"));
            }
        }
    }
    // (2g) a base builder kept beside the one that is sealed (clone, diverge, go back): what one of
    // them serialised or sealed does not show in the other
    for (i, l) in attr_lists(&alpha, 2).iter().enumerate() {
        for s in sealings(0) {
            if s.is_empty() {
                continue;
            }
            let mut ops = l.clone();
            ops.push(Op::Fork);
            ops.extend(s.clone());
            ops.push(Op::Measure);
            ops.push(Op::Swap);
            cases2.push(Prog { class: (i % 4) as u8, method: 1, tid: tid0, ops: ops.clone() }.to_case("build"));
            // ... and the base sealed in its turn, with the other credentials
            ops.push(Op::Sha1(1));
            ops.push(Op::Measure);
            ops.push(Op::Swap);
            cases2.push(Prog { class: (i % 4) as u8, method: 1, tid: tid0, ops }.to_case("build"));
        }
    }
    // (2e) after a panic that was caught elsewhere in the process while the library serialised an
    // application attribute (inside add_fingerprint / add_message_integrity / build / write_into /
    // into_owned): building, sealing and reading back work as before
    for k in (0..5u8).chain(8..13) {
        for ops in [vec![Op::Poison(k), alpha[0].clone(), Op::Fp], vec![Op::Poison(k), alpha[6].clone(), Op::Sha1(0), Op::Sha256(0), Op::Fp], vec![alpha[6].clone(), Op::Poison(k), Op::Sha256(1), Op::Fp], vec![Op::Poison(k), Op::Custom(3), Op::IntoOwned, Op::Sha1(1), Op::Fp]] {
            cases2.push(Prog { class: 2, method: 1, tid: tid0, ops }.to_case("build"));
        }
    }
    // (2c) builders holding n = 1..=48 attributes of distinct types (the builder keeps its attributes
    // and their types in small inline tables), unsealed / sealed / sealed after into_owned
    for n in 1..=48usize {
        let body: Vec<Op> = (0..n).map(|i| Op::Raw(if i % 2 == 0 { 0xC200 + i as u16 } else { 0x4200 + i as u16 }, vec![i as u8; i % 5])).collect();
        for s in [vec![], vec![Op::Sha1(0), Op::Sha256(0), Op::Fp], vec![Op::IntoOwned, Op::Sha256(1), Op::Fp], vec![Op::CloneFrom(1), Op::Sha1(1), Op::Fp, Op::Measure]] {
            let mut ops = body.clone();
            ops.extend(s);
            cases2.push(Prog { class: (n % 4) as u8, method: 1, tid: tid0, ops }.to_case("build"));
        }
    }
    // (3) one-attribute messages for every length (all padding residues at all sizes)
    for len in 0..=763usize {
        let text = vec![b'a' + (len % 26) as u8; len];
        let mut one: Vec<Op> = vec![Op::Raw(0xFF00, (0..len).map(|i| i as u8).collect()), Op::Typed(Kind::Realm, text.clone()), Op::Typed(Kind::Nonce, text.clone()), Op::Typed(Kind::Software, text.clone())];
        if len <= 513 {
            one.push(Op::Typed(Kind::Username, text.clone()));
        }
        for o in one {
            let seal_set = if len % 16 < 4 || ctx.tier == Tier::Thorough { sealings(0) } else { vec![vec![], vec![Op::Sha1(0), Op::Sha256(0), Op::Fp]] };
            for s in seal_set {
                let mut ops = vec![o.clone()];
                ops.extend(s);
                let mut owned = ops.clone();
                owned.push(Op::IntoOwned);
                cases2.push(Prog { class: 0, method: 1, tid: tid0, ops: owned }.to_case("build"));
                cases2.push(Prog { class: 0, method: 1, tid: tid0, ops }.to_case("build"));
            }
        }
    }
    // (4) every encode-side value of every kind as a single typed attribute (sealed with everything)
    for k in plain_kinds() {
        for (v, t) in values::encode_values(k, ctx.seeded(6)) {
            cases2.push(Prog { class: 2, method: 1, tid: t, ops: vec![Op::Typed(k, v), Op::Sha1(1), Op::Sha256(1), Op::Fp] }.to_case("build"));
        }
    }
    // (5) every 16-bit type code as a raw attribute (the three sealing codes excepted: the builder
    //     documents a panic for them), alone and behind a typed attribute, unsealed and fully sealed
    for x in 0..=0xFFFFu32 {
        let x = x as u16;
        if x == wire::MI || x == wire::MI256 || x == wire::FP {
            continue;
        }
        let val: Vec<u8> = (0..(x % 7) as u8).collect();
        cases2.push(Prog { class: (x % 4) as u8, method: 1, tid: tid0, ops: vec![Op::Raw(x, val.clone())] }.to_case("build"));
        let mut ops = vec![];
        if x != 0x8022 {
            ops.push(alpha[6].clone());
        }
        ops.push(Op::Raw(x, val));
        ops.extend([Op::Sha1(0), Op::Sha256(0), Op::Fp]);
        cases2.push(Prog { class: 0, method: 1, tid: tid0, ops }.to_case("build"));
    }
    // (6) values that look like the header of a sealing attribute (or of a message) placed so that
    //     they end the message, start it, or sit in the middle; unsealed and under every sealing
    {
        let mut look: Vec<Op> = Vec::new();
        for (t, l) in [(wire::FP, 4u16), (wire::MI, 20), (wire::MI256, 32), (wire::MI256, 16)] {
            let mut v = t.to_be_bytes().to_vec();
            v.extend_from_slice(&l.to_be_bytes());
            v.extend(std::iter::repeat(0x5Au8).take(l as usize));
            look.push(Op::Raw(0xFF10, v.clone()));
            // header of the lookalike exactly eight bytes before the end
            let mut w = vec![0x11u8; 4];
            w.extend_from_slice(&t.to_be_bytes());
            w.extend_from_slice(&l.to_be_bytes());
            w.extend_from_slice(&[1, 2, 3, 4]);
            look.push(Op::Raw(0xFF11, w));
            if l == 4 {
                look.push(Op::Typed(Kind::IceControlling, vec![0x80, 0x28, 0x00, 0x04, 9, 9, 9, 9]));
                look.push(Op::Typed(Kind::IceControlled, vec![0x80, 0x28, 0x00, 0x04, 0, 0, 0, 0]));
                look.push(Op::Typed(Kind::UnknownAttributes, vec![0x00, 0x06, 0x80, 0x28, 0x00, 0x04, 0x12, 0x34]));
                look.push(Op::Typed(Kind::UnknownAttributes, vec![0x80, 0x28, 0x00, 0x04, 0x12, 0x34]));
                look.push(Op::Typed(Kind::Userhash, { let mut h = vec![7u8; 24]; h.extend_from_slice(&[0x80, 0x28, 0x00, 0x04, 1, 1, 1, 1]); h }));
            }
        }
        // a whole STUN header as a value
        look.push(Op::Raw(0xFF12, wire::encode_header(0, 1, 7, 0)));
        for lk in &look {
            for pos in 0..3 {
                let mut body: Vec<Op> = vec![alpha[6].clone(), alpha[0].clone()];
                let at = pos.min(body.len());
                if body.iter().any(|o| o.type_code() == lk.type_code()) {
                    continue;
                }
                body.insert(if pos == 2 { body.len() } else { at }, lk.clone());
                for c in [0u8, 1] {
                    for sl in sealings(c) {
                        let mut ops = body.clone();
                        ops.extend(sl);
                        cases2.push(Prog { class: 1, method: 1, tid: tid0, ops }.to_case("build"));
                    }
                }
            }
            cases2.push(Prog { class: 0, method: 1, tid: tid0, ops: vec![lk.clone()] }.to_case("build"));
        }
    }
    // (2i) the response constructors for a request of every method
    for method in 0..4096i64 {
        cases2.push(Case::new("response", vec![]).args(&[method]));
    }
    let acc2 = crate::props::sweep(cases2.into_par_iter(), judge);
    let mut acc = acc1.merge(acc2);
    acc.nontrivial = *acc.outcomes.get("built and read back").unwrap_or(&0) + acc.violations.values().map(|(_, n)| *n).sum::<u64>();
    // thread teardown: 15 build / seal / parse programs in the body of a thread and again from a
    // thread-local destructor at its exit (child process)
    crate::teardown::judge(P, "builder", &mut acc);
    crate::teardown::callsite_sweep(P, "builder", &mut acc);
    Report {
        acc,
        exhaustive: true,
        rule: "(builder_success / builder_error / bad_request / unknown_attributes for a request of every method 0..=0xFFF, read back) (thread teardown probe: 15 build / seal / parse programs also from a thread-local destructor, in a child process) all lists of pairwise distinct attributes up to the depth over a 42-entry alphabet (16 non-sealing built-in types with 2-3 values each + raw types) x 8 sealing combinations x {short-term, long-term}, each short-term program also with into_owned() before the sealing, into_owned()+clone() at the end, and the builder measured / serialised after every operation; 100 header variants x 3 lists x 8 sealings; one-attribute messages over the whole encode-side value alphabet of every built-in type, unsealed and sealed; all 4096 methods x 4 classes; one-attribute messages of every length 0..=763 (USERNAME 0..=513); every encode-side value of every type; every 16-bit type code as a raw attribute (alone; behind SOFTWARE and fully sealed); values that look like FINGERPRINT / MI / MI-SHA256 attribute headers or a STUN header, first / middle / last, under every sealing; distinct_nontrivial = programs the builder ran to completion".into(),
        bounds: json!({"attribute_lists": n_lists, "list_depth": depth, "alphabet": alpha.len(), "sealings": 8}),
        assumptions: vec!["messages larger than the 16-bit length field are outside the statement".into()],
        ..Default::default()
    }
}

pub struct Built {
    pub bytes: Vec<u8>,
    pub byte_len: usize,
    pub results: Vec<Result<(), prog::WErr>>,
}

pub fn build_prog(p: &Prog) -> Result<Built, String> {
    let mut results = Vec::new();
    let mut last: Option<(Vec<u8>, usize)> = None;
    let n = p.ops.len();
    if n == 0 {
        let b = real::builder(p.class, p.method, p.tid);
        return Ok(Built { bytes: b.build(), byte_len: b.byte_len(), results });
    }
    prog::execute(p, |i, r, b| {
        results.push(r.clone());
        if i + 1 == n {
            last = Some((b.build(), b.byte_len()));
        }
    })?;
    let (bytes, byte_len) = last.unwrap();
    Ok(Built { bytes, byte_len, results })
}

/// The response constructors: builder_success / builder_error / bad_request / unknown_attributes of a parsed
/// request of method args[0], with an attribute added and sealed, read back: class, the request's
/// method and transaction id, the attributes.
fn judge_response(case: &Case, acc: &mut Acc) {
    let method = case.args[0] as u16;
    let tid: u128 = 0x0F0E_0D0C_0B0A_0908_0706_0000 | method as u128;
    let req_bytes = wire::encode_msg(0, method, tid, &[(0x8022, b"rq".to_vec())]);
    let Ok(req) = Message::from_bytes(&req_bytes) else {
        viol!(acc, P, "parser-rejects-build", case, "a reference-built request is refused", "Ok", "Err");
        return;
    };
    acc.validated += 1;
    let sw = stun_types::attribute::Software::new("resp").unwrap();
    let creds: stun_types::message::MessageIntegrityCredentials = stun_types::message::ShortTermCredentials::new("pw".to_owned()).into();
    for which in 0..4u8 {
        let (mut b, class) = match which {
            0 => (Message::builder_success(&req), 2u8),
            1 => (Message::builder_error(&req), 3),
            2 => (Message::bad_request(&req), 3),
            _ => (Message::unknown_attributes(&req, &[0x7F00.into()]), 3),
        };
        let sealed = which < 2 && b.add_attribute(&sw).is_ok() && b.add_message_integrity(&creds, stun_types::message::IntegrityAlgorithm::Sha1).is_ok() && b.add_fingerprint().is_ok();
        let bytes = b.build();
        let name = ["builder_success", "builder_error", "bad_request", "unknown_attributes"][which as usize];
        match (wire::decode(&bytes), Message::from_bytes(&bytes)) {
            (Ok(m), Ok(msg)) => {
                let t: u128 = msg.transaction_id().into();
                if (m.class, m.method, m.tid) != (class, method, tid) || (real::class_num(msg.class()), msg.method(), t) != (class, method, tid) {
                    viol!(acc, P, "response-header-readback", case, format!("{name}(request of method {method:#05x}) serialises to a message that reads back with another class / method / transaction id"), format!("({class}, {method:#x}, {tid:#x})"), format!("wire ({}, {:#x}, {:#x}), parsed ({}, {:#x}, {t:#x})", m.class, m.method, m.tid, real::class_num(msg.class()), msg.method()));
                    return;
                }
                if sealed && (msg.validate_integrity(&creds).is_err() || !m.attrs.iter().any(|a| a.typ == 0x8022 && a.value == b"resp")) {
                    viol!(acc, P, "response-readback", case, format!("{name}(request of method {method:#05x}) + SOFTWARE + integrity + fingerprint does not read back"), "attributes present, integrity valid", "not so");
                    return;
                }
            }
            (a, b2) => {
                viol!(acc, P, "parser-rejects-build", case, format!("{name}(request of method {method:#05x}) serialises to something that is refused"), "well-formed, accepted", format!("{:?} / {:?}", a.err().map(|e| e.why), b2.err().map(real::PErr::from)));
                return;
            }
        }
    }
    acc.outcome("response constructors read back");
}

pub fn judge(case: &Case, acc: &mut Acc) {
    acc.evaluations += 1;
    if case.op == "response" {
        return judge_response(case, acc);
    }
    let p = Prog::from_case(case);
    if p.ops.iter().any(|o| matches!(o, Op::Typed(k, v) if matches!(attrs::decode(*k, v), attrs::Verdict::Reject(_)))) {
        acc.outcome("skipped: value beyond the documented limits (not in-limit)");
        return;
    }
    let mut tree = RefTree::new(p.class, p.method, p.tid);
    let ref_accepts: Vec<bool> = p.ops.iter().map(|o| tree.apply(o)).collect();
    let rb = tree.cur;
    let built = match build_prog(&p) {
        Ok(b) => b,
        Err(_) => {
            acc.outcome("skipped: a typed value is refused by its constructor (not in-limit)");
            return;
        }
    };
    if ref_accepts.iter().any(|a| !a) || built.results.iter().any(|r| r.is_err()) {
        // ordering rules are C11's business; C03 quantifies over programs that assemble
        acc.outcome("skipped: program contains a refused operation (C11)");
        return;
    }
    acc.validated += 1;
    let b = &built.bytes;
    let before = acc.violations.len();
    if b.len() % 4 != 0 || b.len() != built.byte_len || b.len() < 20 || wire::be16(&b[2..4]) != b.len() - 20 {
        viol!(acc, P, "length-accounting", case, "length of the serialisation, byte_len() and the header length field disagree", "len % 4 == 0, len == byte_len(), header length == len - 20", format!("len {} byte_len {} header {}", b.len(), built.byte_len, if b.len() >= 4 { wire::be16(&b[2..4]) as i64 } else { -1 }));
        return;
    }
    let want_bytes = rb.bytes();
    // the reference decoder must accept and recover the intended list
    match wire::decode(b) {
        Err(e) => {
            viol!(acc, P, "reference-rejects-build", case, "the built buffer is not a well-formed STUN message", "well-formed", format!("{e:?}"));
            return;
        }
        Ok(m) => {
            let got: Vec<(u16, Vec<u8>)> = m.attrs.iter().map(|a| (a.typ, a.value.clone())).collect();
            if (m.class, m.method, m.tid) != (p.class, p.method & 0xFFF, p.tid & MASK96) {
                viol!(acc, P, "header-fields-on-wire", case, "class/method/transaction id on the wire differ from the builder's", format!("({}, {:#x}, {:#x})", p.class, p.method, p.tid & MASK96), format!("({}, {:#x}, {:#x})", m.class, m.method, m.tid));
            }
            if got != rb.attrs {
                viol!(acc, P, "attributes-on-wire", case, "the attributes on the wire (types, values, sealing values) differ from the intended list", format!("{}", fmt_bytes(&want_bytes)), format!("{}", fmt_bytes(b)));
            } else if *b != want_bytes {
                viol!(acc, P, "bytes-differ-from-reference", case, "serialisation differs from the reference serialisation (padding?)", fmt_bytes(&want_bytes), fmt_bytes(b));
            }
            // sealing attributes verify under the reference crypto
            for (pos, c) in &rb.seals {
                if let Some(a) = m.attrs.get(*pos) {
                    if !wire::integrity_ok(b, a, &prog::creds_alphabet()[*c as usize].key()) {
                        viol!(acc, P, "sealing-incorrect", case, "an integrity attribute added by the builder does not verify under the reference HMAC", "verifies", format!("attribute {:#06x} at {}", a.typ, a.offset));
                    }
                }
            }
        }
    }
    // wherever the built bytes are copied to, they read back the same (typed values included)
    {
        let summary = |buf: &[u8]| -> Result<Vec<String>, String> {
            match Message::from_bytes(buf) {
                Err(e) => Err(format!("{e:?}")),
                Ok(m) => {
                    let seq = real::iterate(&m, 0).0;
                    let mut v: Vec<String> = attrs::ALL_KINDS.iter().filter(|k| seq.iter().any(|(t, _)| *t == k.code())).map(|k| format!("{:?}", real::msg_attribute(&m, *k, p.tid & MASK96))).collect();
                    v.push(format!("{seq:?}"));
                    Ok(v)
                }
            }
        };
        let first = summary(b);
        if let Some((r, got)) = real::differs_at_residue(b, &first, summary) {
            viol!(acc, P, "readback-depends-on-alignment", case, format!("what the builder serialised reads back differently when the bytes lie at an address that is {r} modulo 4"), format!("{first:?}").chars().take(300).collect::<String>(), format!("{got:?}").chars().take(300).collect::<String>());
        }
    }
    // the real parser reads it back
    match Message::from_bytes(b) {
        Err(e) => {
            viol!(acc, P, "parser-rejects-build", case, "the parser refuses what the builder serialised", "Ok", format!("{:?}", real::PErr::from(e)));
        }
        Ok(msg) => {
            let tid: u128 = msg.transaction_id().into();
            if (real::class_num(msg.class()), msg.method(), tid) != (p.class, p.method & 0xFFF, p.tid & MASK96) {
                viol!(acc, P, "header-fields-readback", case, "class/method/transaction id read back differ", format!("({}, {:#x}, {:#x})", p.class, p.method, p.tid & MASK96), format!("({}, {:#x}, {tid:#x})", real::class_num(msg.class()), msg.method()));
            }
            let (seq, _) = real::iterate(&msg, 0);
            if seq != rb.attrs {
                let missing: Vec<String> = rb.attrs.iter().filter(|a| !seq.contains(a)).map(|(t, _)| format!("{t:#06x}")).collect();
                let clause = if seq.len() < rb.attrs.len() { "readback-misses-attributes" } else { "readback-differs" };
                viol!(acc, P, clause, case, "iter_attributes() does not yield the attributes that were added, in order", format!("{:?}", rb.attrs.iter().map(|(t, _)| format!("{t:#06x}")).collect::<Vec<_>>()), format!("{:?} (missing {:?})", seq.iter().map(|(t, _)| format!("{t:#06x}")).collect::<Vec<_>>(), missing));
            }
            for op in &p.ops {
                if let Op::Typed(k, v) = op {
                    let want = match (k, attrs::fields_lenient(*k, v).unwrap()) {
                        (Kind::XorMappedAddress, Val::Addr(a)) => Val::Addr(attrs::xor_addr(a, p.tid)),
                        (_, x) => x,
                    };
                    if matches!(attrs::decode(*k, v), attrs::Verdict::DontCare(_)) && *k == Kind::PasswordAlgorithms {
                        continue;
                    }
                    match real::msg_attribute(&msg, *k, p.tid) {
                        Ok(got) if got == want => {}
                        other => viol!(acc, P, &format!("typed-readback/{}", k.name()), case, "attribute::<X>() of the parsed message differs from the value that was added", format!("{want:?}"), format!("{other:?}")),
                    }
                }
            }
        }
    }
    if acc.violations.len() == before {
        acc.outcome("built and read back");
    } else {
        acc.outcome("VIOLATION");
    }
}
