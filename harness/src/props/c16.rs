//! C16 — attribute policing returns exactly the RFC 8489 §6.3.1 verdict.

use crate::common::*;
use crate::engine_in::{self, Tok};
use crate::props::judge_guarded;
use crate::real;
use crate::refimpl::attrs::Kind;
use crate::refimpl::police::{self, Police};
use crate::refimpl::wire;
use crate::viol;
use rayon::prelude::*;
use serde_json::json;
use stun_types::attribute::AttributeType;
use stun_types::message::Message;

const P: &str = "C16";
/// universe of supported/required types (bit i of a mask selects UNIVERSE[i])
pub const UNIVERSE: [u16; 9] = [0x8022, 0x0006, 0x0024, 0x7F00, 0xFF00, 0x0008, 0x8028, 0x001C, 0x0025];
const NU: usize = 9;

fn alphabet() -> Vec<Tok> {
    vec![Tok::Sw(3), Tok::User, Tok::Prio, Tok::Req(1), Tok::Opt(1), Tok::Mi, Tok::FpOk, Tok::Mi256(32)]
}

fn subset(mask: i64) -> Vec<u16> {
    (0..NU).filter(|i| mask >> i & 1 == 1).map(|i| UNIVERSE[i]).collect()
}

/// all sub-masks of `m` (including 0 and m)
fn submasks(m: i64) -> Vec<i64> {
    let mut v = vec![0];
    let mut s = m;
    while s != 0 {
        v.push(s);
        s = (s - 1) & m;
    }
    v
}

fn dedup_keep_order(v: &[u16]) -> Vec<u16> {
    let mut out = Vec::new();
    for x in v {
        if !out.contains(x) {
            out.push(*x);
        }
    }
    out
}

pub fn run(ctx: &Ctx) -> Report {
    let depth = ctx.tier.pick(4, 5);
    let seqs = engine_in::sequences(&alphabet(), depth);
    let tid: u128 = ((ctx.seeded(16) as u128) << 8 | 0x16) & ((1u128 << 96) - 1);
    let mut msgs: Vec<Vec<u8>> = Vec::new();
    for s in &seqs {
        for method in [0u16, 1, 0xFFF] {
            let b = engine_in::render(0, method, tid, s);
            if wire::decode(&b).is_ok() {
                msgs.push(b);
            }
        }
    }
    let n_msgs = msgs.len();
    let all_mask: i64 = (1 << NU) - 1;
    let acc1 = msgs
        .par_iter()
        .enumerate()
        .fold(Acc::default, |mut acc, (i, m)| {
            acc.nontrivial += 1;
            let dec = wire::decode(m).expect("accepted above");
            let n_attrs = dec.attrs.len();
            // P = universe types present anywhere in the message, A = the absent ones
            let mut pmask: i64 = 0;
            for (b, t) in UNIVERSE.iter().enumerate() {
                if dec.attrs.iter().any(|a| a.typ == *t) {
                    pmask |= 1 << b;
                }
            }
            let amask = all_mask & !pmask;
            let first_absent = amask & -amask;
            let full = n_attrs <= 2 && dec.method == 1;
            let (sups, reqs): (Vec<i64>, Vec<i64>) = if full {
                // every supported x required subset of the whole universe
                ((0..=all_mask).collect(), (0..=all_mask).collect())
            } else {
                // every subset of the present types, combined with none / all of the absent types
                // (supported) and none / one / all of the absent types (required): the verdict is a
                // function of exactly these distinctions
                let sp = submasks(pmask);
                let mut sups = Vec::new();
                let mut reqs = Vec::new();
                for s in &sp {
                    sups.push(*s);
                    sups.push(*s | amask);
                    reqs.push(*s);
                    reqs.push(*s | first_absent);
                    reqs.push(*s | amask);
                }
                sups.sort();
                sups.dedup();
                reqs.sort();
                reqs.dedup();
                (sups, reqs)
            };
            for sup in &sups {
                for req in &reqs {
                    let case = Case::new("police", m.clone()).args(&[*sup, *req]);
                    if i % 211 == 5 && *sup == pmask && *req == first_absent {
                        acc.sample(case.brief());
                    }
                    judge_guarded(judge, &case, &mut acc);
                }
            }
            acc
        })
        .reduce(Acc::default, |a, b| a.merge(b));
    // many attributes: n = 1..=400 distinct unsupported comprehension-required types (the response
    // lists them all and must still parse back), n repeats of one type, n comprehension-optional
    // types (no error), and a mix; under no / all universe types supported
    let mut many: Vec<Case> = Vec::new();
    for n in 1..=400usize {
        for shape in 0..4u8 {
            let mut b = wire::encode_header(0, 1, tid, 0);
            for i in 0..n {
                let t: u16 = match shape {
                    0 => 0x0100 + i as u16,
                    1 => 0x0100,
                    2 => 0x8100 + i as u16,
                    _ => if i % 2 == 0 { 0x0100 + i as u16 } else { 0x8100 + i as u16 },
                };
                wire::append_raw(&mut b, t, &[]);
            }
            if n % 50 == 0 {
                wire::append_fp(&mut b);
            }
            for sup in [0i64, all_mask] {
                many.push(Case::new("police", b.clone()).args(&[sup, 0]));
            }
        }
    }
    // n = 1..=64 attributes that are all acceptable (distinct comprehension-optional types, or distinct
    // supported required types), with the required list naming the first / middle / last / every one of
    // them (no error), and one absent type (400): a fixed-size table of "types seen" overflows at some n
    let hexl = |l: &[u16]| -> String { crate::refimpl::crypto::hex(&l.iter().flat_map(|t| t.to_be_bytes()).collect::<Vec<u8>>()) };
    for n in 1..=64usize {
        for shape in 0..2u8 {
            let types: Vec<u16> = (0..n).map(|i| if shape == 0 { 0x8100 + i as u16 } else { 0x0100 + i as u16 }).collect();
            let mut b = wire::encode_header(0, 1, tid, 0);
            for t in &types {
                wire::append_raw(&mut b, *t, &[1]);
            }
            let mut with_fp = b.clone();
            wire::append_fp(&mut with_fp);
            let sup: Vec<u16> = if shape == 0 { vec![] } else { types.clone() };
            let mut reqs: Vec<Vec<u16>> = vec![vec![types[0]], vec![types[n / 2]], vec![types[n - 1]], types.clone(), vec![types[n - 1], 0x8028], vec![0x7ABC], vec![types[n - 1], 0x7ABC]];
            reqs.dedup();
            for r in &reqs {
                many.push(Case::new("police", with_fp.clone()).text(&[&hexl(&sup), &hexl(r)]));
                if !r.contains(&0x8028) {
                    many.push(Case::new("police", b.clone()).text(&[&hexl(&sup), &hexl(r)]));
                }
            }
        }
    }
    // a long attribute (value of 250..=260, 508..=516, 763 bytes; typed text and raw) in front of,
    // between and behind the types the required list names
    for len in (250usize..=260).chain(508..=516).chain([763]) {
        for (lt, sup) in [(0x8022u16, vec![]), (0x0015, vec![0x0015u16, 0x0006, 0x0014]), (0xC0DE, vec![0x0006, 0x0014])] {
            let long = vec![b'n'; len];
            for order in 0..3u8 {
                let mut b = wire::encode_header(0, 1, tid, 0);
                let parts: [(u16, &[u8]); 3] = [(0x0006, b"user"), (lt, &long), (0x0014, b"realm")];
                let idx: [usize; 3] = match order {
                    0 => [1, 0, 2],
                    1 => [0, 1, 2],
                    _ => [0, 2, 1],
                };
                for i in idx {
                    wire::append_raw(&mut b, parts[i].0, parts[i].1);
                }
                wire::append_mi(&mut b, b"k");
                wire::append_fp(&mut b);
                let mut sup = sup.clone();
                sup.extend([0x0006, 0x0014, 0x0008]);
                for req in [vec![0x0006u16, 0x0014], vec![0x0014], vec![0x0008], vec![0x8028], vec![0x0006, 0x0014, 0x0008, 0x8028], vec![0x0024]] {
                    many.push(Case::new("police", b.clone()).text(&[&hexl(&sup), &hexl(&req)]));
                }
            }
        }
    }
    // supported / required lists of every size class up to all 65 536 types (an application that only
    // wants the required-attribute check hands over every type): whole ranges ascending and descending,
    // all but one type, everything twice, ladders around 24 / 256 / 4096 / 65 535 entries
    {
        let bodies: [&[(u16, &[u8])]; 3] = [&[(0x0006, b"user"), (0x0024, &[0, 0, 0, 1]), (0x7F01, &[]), (0x8022, b"s")], &[(0x8022, b"s")], &[(0x0006, b"u"), (0x0014, b"r"), (0x0015, b"n")]];
        let mut sup_lists: Vec<String> = vec!["r:0-ffff".into(), "r:ffff-0".into(), "r:0-7fff".into(), "r:0-7f00,7f02-ffff".into(), "r:0-ffff,0-ffff".into(), "r:8000-ffff,0-7fff".into(), "r:0-fffe".into(), "r:1-ffff".into()];
        for n in [22u32, 23, 24, 25, 26, 254, 255, 256, 257, 4095, 4096, 4097, 32767, 32768, 65534] {
            sup_lists.push(format!("r:0-{:x}", n));
            sup_lists.push(format!("r:6,24,14,15,100-{:x}", (0x100 + n).min(0xFFFF)));
        }
        for body in bodies {
            let mut b = wire::encode_header(0, 1, tid, 0);
            for (t, v) in body {
                wire::append_raw(&mut b, *t, v);
            }
            wire::append_fp(&mut b);
            for sup in &sup_lists {
                for req in ["r:", "r:6", "r:6,14,15", "r:9", "r:0-ffff", "r:8022,8028"] {
                    many.push(Case::new("police", b.clone()).text(&[sup, req]));
                }
            }
        }
    }
    // values that read as attributes: the last attribute of the request (optional, comprehension-required
    // but supported, SOFTWARE) carries, at every alignment, bytes that read as a complete FINGERPRINT /
    // MESSAGE-INTEGRITY / MESSAGE-INTEGRITY-SHA256 / USERNAME / PRIORITY attribute, or a whole
    // fingerprinted STUN message (a relayed packet); the required list names that type.  What is present
    // is what the attribute walk exposes, not what some bytes of a value look like (seed C16-o)
    {
        let look: [(u16, usize); 5] = [(0x8028, 4), (0x0008, 20), (0x001C, 32), (0x0006, 4), (0x0024, 4)];
        let mut nested = wire::encode_msg(0, 1, tid ^ 0x55, &[(0x8022, b"inner".to_vec())]);
        wire::append_fp(&mut nested);
        for (t, l) in look {
            for pre in 0..4usize {
                for post in 0..4usize {
                    for carrier in [0xFF00u16, 0x0013, 0x8022] {
                        for lead in [false, true] {
                            for whole in [false, true] {
                                if whole && (t != 0x8028 || post != 0) {
                                    continue;
                                }
                                let mut b = wire::encode_header(0, 1, tid, 0);
                                if lead {
                                    wire::append_raw(&mut b, 0x0014, b"realm");
                                }
                                let mut v = vec![0x11u8; 4 + pre];
                                if whole {
                                    v.extend(&nested);
                                } else {
                                    v.extend(t.to_be_bytes());
                                    v.extend((l as u16).to_be_bytes());
                                    v.extend(vec![0x5Au8; l]);
                                    v.extend(vec![0x22u8; post]);
                                }
                                wire::append_raw(&mut b, carrier, &v);
                                let sup = vec![0x0014u16, 0x0013, 0x0006, 0x0024, 0x0008, 0x001C];
                                for req in [vec![t], vec![0x0014, t], vec![t, 0x0014], vec![]] {
                                    many.push(Case::new("police", b.clone()).text(&[&hexl(&sup), &hexl(&req)]));
                                }
                            }
                        }
                    }
                }
            }
        }
    }
    let acc_many = crate::props::sweep(many.into_par_iter(), judge);
    // the response constructors called directly: unknown_attributes(request, list) for lists of
    // 0..=400 types (distinct, repeated, optional types included) and bad_request(request)
    let mut direct: Vec<Case> = Vec::new();
    for method in [0i64, 1, 0xFFF] {
        for n in (0..=400i64).chain([1000]) {
            for shape in 0..3i64 {
                direct.push(Case::new("direct", vec![]).args(&[method, n, shape]));
            }
        }
    }
    let acc_direct = crate::props::sweep(direct.into_par_iter(), judge);
    // classification of all 65536 types
    let acc2 = (0..=0xFFFFu32)
        .into_par_iter()
        .fold(Acc::default, |mut acc, t| {
            judge_guarded(judge, &Case::new("comprehension", vec![(t >> 8) as u8, t as u8]), &mut acc);
            acc
        })
        .reduce(Acc::default, |a, b| a.merge(b));
    let mut acc = acc1.merge(acc2).merge(acc_many).merge(acc_direct);
    // the parser family (which polices every accepted buffer) under per-call-site tracing filters and under
    // subscribers that panic at one call site (callsites.rs)
    crate::teardown::callsite_sweep(P, "parser", &mut acc);
    Report {
        acc,
        exhaustive: true,
        rule: "request messages whose attribute lists are all sequences (duplicates included) up to the depth over {SOFTWARE, USERNAME, PRIORITY, 0x7F00, 0xFF00, MESSAGE-INTEGRITY, MESSAGE-INTEGRITY-SHA256, FINGERPRINT} that the reference decoder accepts x methods {0,1,0xFFF}; type universe of 9 (those 8 + USE-CANDIDATE, never present); per message: supported = any subset of the present types + none/all of the absent ones, required = any subset of the present types + none/one/all of the absent ones; for messages of <= 2 attributes (method 1) all 2^9 x 2^9 supported x required subsets; every third configuration repeated with reversed lists whose entries are duplicated; requests with n = 1..=400 unsupported comprehension-required attributes (distinct / one type repeated / optional / mixed); requests with an attribute of 250..=260 / 508..=516 / 763 bytes in front of, between and behind the required types; requests with n = 1..=64 acceptable attributes and the required list naming the first / middle / last / all of them or an absent type; supported lists of every size class up to all 65 536 types (ascending, descending, all but one, everything twice, ladders around 24 / 256 / 4096 / 65 535 entries) x six required lists x three requests; unknown_attributes(request, list) called directly with lists of 0..=400 and 1000 types (distinct / repeating / mixed) and bad_request(request), 3 methods; comprehension_required for all 65536 types; distinct_nontrivial = request messages".into(),
        bounds: json!({"messages": n_msgs, "depth": depth, "configurations_per_message": "<= 2^k * 2 * 2^k * 3 for k present universe types; 262144 for messages of <= 2 attributes"}),
        assumptions: vec!["UNKNOWN-ATTRIBUTES is compared modulo repeats (the statement does not say whether a type present twice is listed twice)".into()],
        ..Default::default()
    }
}

pub fn judge(case: &Case, acc: &mut Acc) {
    acc.evaluations += 1;
    match case.op.as_str() {
        "comprehension" => {
            acc.validated += 1;
            let t = u16::from_be_bytes([case.data[0], case.data[1]]);
            let got = AttributeType::new(t).comprehension_required();
            if got != (t < 0x8000) {
                viol!(acc, P, "comprehension-required", case, "comprehension_required() is not 'type value < 0x8000'", format!("{}", t < 0x8000), format!("{got}"));
            }
            acc.outcome("type classified");
        }
        "police" => {
            let buf = &case.data;
            let (Ok(m), Ok(msg)) = (wire::decode(buf), Message::from_bytes(buf)) else {
                acc.outcome("skipped: not accepted (C02)");
                return;
            };
            if m.class != 0 {
                acc.outcome("skipped: not a request");
                return;
            }
            // exposure itself is C10's business: police over what the library exposes must equal policing
            // over the reference exposure; a message on which the two exposures differ is skipped here
            let (seq, _) = real::iterate(&msg, 0);
            let ref_vis: Vec<u16> = wire::exposed(&m.attrs).into_iter().map(|i| m.attrs[i].typ).collect();
            if seq.iter().map(|(t, _)| *t).collect::<Vec<_>>() != ref_vis {
                acc.outcome("skipped: exposure differs from the rule (C10)");
                return;
            }
            acc.validated += 1;
            // lists given explicitly (text = [supported, required] as hex u16 lists) or as universe masks
            // ("r:" + comma-separated hex items, an item a-b standing for every type from a to b in that order)
            let parse_list = |t: &str| -> Vec<u16> {
                if let Some(r) = t.strip_prefix("r:") {
                    let mut out = Vec::new();
                    for item in r.split(',').filter(|i| !i.is_empty()) {
                        let h = |x: &str| u16::from_str_radix(x, 16).expect("hex type");
                        match item.split_once('-') {
                            Some((a, b)) => {
                                let (a, b) = (h(a), h(b));
                                if a <= b {
                                    out.extend(a..=b);
                                } else {
                                    out.extend((b..=a).rev());
                                }
                            }
                            None => out.push(h(item)),
                        }
                    }
                    out
                } else {
                    crate::refimpl::crypto::unhex(t).chunks(2).map(|c| u16::from_be_bytes([c[0], c[1]])).collect()
                }
            };
            let (sup, req) = if case.text.len() == 2 { (parse_list(&case.text[0]), parse_list(&case.text[1])) } else { (subset(case.args[0]), subset(case.args[1])) };
            let want = police::verdict(&m, &sup, &req);
            let supt: Vec<AttributeType> = sup.iter().map(|t| AttributeType::new(*t)).collect();
            let reqt: Vec<AttributeType> = req.iter().map(|t| AttributeType::new(*t)).collect();
            let got = Message::check_attribute_types(&msg, &supt, &reqt);
            // the verdict is a function of the *sets*: reversed lists with every entry repeated
            // must give the same answer (compared as: none / bytes of the generated response)
            if case.text.len() != 2 && (case.args[0] + case.args[1]) % 3 == 0 {
                let mut sup2: Vec<AttributeType> = supt.iter().rev().copied().collect();
                sup2.extend(supt.iter().copied());
                let mut req2: Vec<AttributeType> = reqt.iter().rev().copied().collect();
                req2.extend(reqt.iter().copied());
                let again = Message::check_attribute_types(&msg, &sup2, &req2).map(|b| b.build());
                let first = got.as_ref().map(|b| b.build());
                let same = match (&first, &again) {
                    (None, None) => true,
                    (Some(a), Some(b)) => a == b,
                    _ => false,
                };
                if !same {
                    viol!(acc, P, "list-order-or-repeats-change-verdict", case, "the verdict changes when the supported / required lists are reversed and their entries repeated", format!("{:?}", first.map(|b| fmt_bytes(&b))), format!("{:?}", again.map(|b| fmt_bytes(&b))));
                }
            }
            match (&want, got) {
                (Police::Nothing, None) => acc.outcome("no error response"),
                (Police::Nothing, Some(b)) => {
                    acc.outcome("VIOLATION");
                    viol!(acc, P, "spurious-error", case, "an error response is generated although all comprehension-required types are supported and all required types are present", "None", fmt_bytes(&b.build()));
                }
                (w, None) => {
                    acc.outcome("VIOLATION");
                    viol!(acc, P, "missing-error", case, "no error response although the RFC verdict is an error", format!("{w:?}"), "None");
                }
                (w, Some(b)) => {
                    let bytes = b.build();
                    let want_code = if matches!(w, Police::BadRequest) { 400 } else { 420 };
                    let parsed_ref = wire::decode(&bytes);
                    let parsed = Message::from_bytes(&bytes);
                    let (Ok(rm), Ok(pm)) = (parsed_ref, parsed) else {
                        acc.outcome("VIOLATION");
                        viol!(acc, P, "response-does-not-parse", case, "the generated error response does not parse back", "parses under both parsers", fmt_bytes(&bytes));
                        return;
                    };
                    let ptid: u128 = pm.transaction_id().into();
                    if rm.class != 3 || rm.method != m.method || rm.tid != m.tid || real::class_num(pm.class()) != 3 || pm.method() != m.method || ptid != m.tid {
                        viol!(acc, P, "response-header", case, "the error response does not carry class error and the request's method and transaction id", format!("(3, {:#x}, {:#x})", m.method, m.tid), format!("({}, {:#x}, {:#x})", rm.class, rm.method, rm.tid));
                    }
                    match real::msg_attribute(&pm, Kind::ErrorCode, 0) {
                        Ok(crate::refimpl::attrs::Val::Error(code, _)) if code == want_code => {}
                        other => {
                            let clause = if want_code == 420 { "wrong-code/expected-420" } else { "wrong-code/expected-400" };
                            viol!(acc, P, clause, case, "the ERROR-CODE of the response is not the RFC verdict", format!("{want_code}"), format!("{other:?}"));
                        }
                    }
                    // ERROR-CODE on the wire per the reference too
                    match rm.attrs.iter().find(|a| a.typ == 0x0009) {
                        Some(a) if a.value.len() >= 4 && (a.value[2] & 7) as u16 * 100 + a.value[3] as u16 == want_code => {}
                        _ => viol!(acc, P, "wrong-code-on-wire", case, "ERROR-CODE on the wire is not the RFC verdict", format!("{want_code}"), "other"),
                    }
                    if let Police::Unknown(list) = w {
                        acc.outcome("420 unknown attributes");
                        let on_wire: Vec<u16> = rm.attrs.iter().find(|a| a.typ == 0x000A).map(|a| a.value.chunks(2).filter(|c| c.len() == 2).map(|c| u16::from_be_bytes([c[0], c[1]])).collect()).unwrap_or_default();
                        if dedup_keep_order(&on_wire) != dedup_keep_order(list) {
                            viol!(acc, P, "unknown-attributes-list", case, "UNKNOWN-ATTRIBUTES does not list exactly the unsupported comprehension-required types in message order", format!("{:04x?}", dedup_keep_order(list)), format!("{:04x?}", on_wire));
                        }
                    } else {
                        acc.outcome("400 bad request");
                    }
                }
            }
        }
        "direct" => {
            acc.validated += 1;
            let (method, n, shape) = (case.args[0] as u16, case.args[1] as usize, case.args[2]);
            let tid: u128 = 0x0D0E_0F10_1112_1314_1516_1718;
            let mut rb = wire::encode_header(0, method, tid, 0);
            wire::append_raw(&mut rb, 0x8022, b"client");
            let Ok(req) = Message::from_bytes(&rb) else {
                acc.outcome("skipped: not accepted (C02)");
                return;
            };
            let list: Vec<u16> = (0..n).map(|i| match shape {
                0 => 0x0100 + i as u16,
                1 => 0x0100 + (i % 3) as u16,
                _ => if i % 2 == 0 { 0x7F00 - i as u16 } else { 0x8100 + i as u16 },
            }).collect();
            let lt: Vec<AttributeType> = list.iter().map(|t| AttributeType::new(*t)).collect();
            let mut outs = vec![(Message::unknown_attributes(&req, &lt).build(), 420u16, "unknown_attributes")];
            if n == 0 {
                outs.push((Message::bad_request(&req).build(), 400, "bad_request"));
            }
            for (bytes, code, name) in outs {
                acc.outcome(if code == 420 { "direct 420 response" } else { "direct 400 response" });
                let (Ok(rm), Ok(pm)) = (wire::decode(&bytes), Message::from_bytes(&bytes)) else {
                    viol!(acc, P, "direct/response-does-not-parse", case, format!("the response built by {name} does not parse back"), "parses under both parsers", fmt_bytes(&bytes));
                    continue;
                };
                let ptid: u128 = pm.transaction_id().into();
                if rm.class != 3 || rm.method != method || rm.tid != tid || real::class_num(pm.class()) != 3 || pm.method() != method || ptid != tid {
                    viol!(acc, P, "direct/response-header", case, format!("the response built by {name} does not carry class error and the request's method and transaction id"), format!("(3, {method:#x}, {tid:#x})"), format!("({}, {:#x}, {:#x})", rm.class, rm.method, rm.tid));
                }
                match real::msg_attribute(&pm, Kind::ErrorCode, 0) {
                    Ok(crate::refimpl::attrs::Val::Error(c, _)) if c == code => {}
                    other => viol!(acc, P, "direct/wrong-code", case, format!("the ERROR-CODE of the response built by {name} does not read back as {code}"), format!("{code}"), format!("{other:?}")),
                }
                if code == 420 {
                    let on_wire: Vec<u16> = rm.attrs.iter().find(|a| a.typ == 0x000A).map(|a| a.value.chunks(2).filter(|c| c.len() == 2).map(|c| u16::from_be_bytes([c[0], c[1]])).collect()).unwrap_or_default();
                    if dedup_keep_order(&on_wire) != dedup_keep_order(&list) {
                        viol!(acc, P, "direct/unknown-attributes-list", case, "UNKNOWN-ATTRIBUTES of unknown_attributes(request, list) does not carry the list", format!("{:04x?}", dedup_keep_order(&list)), format!("{:04x?}", on_wire));
                    }
                }
            }
        }
        other => panic!("harness: unknown C16 op {other}"),
    }
}
