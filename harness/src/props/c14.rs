//! C14 — TCP framing buffer returns exactly the frames that were sent.
//! Exhaustive enumeration (no deduplication: the buffer's contents are not observable):
//! frame sequences x every chunking x pull schedules, against a reference framing model.

use crate::common::*;
use crate::props::judge_guarded;
use crate::viol;
use rayon::prelude::*;
use serde_json::json;
use stun_proto::agent::TcpBuffer;

const P: &str = "C14";

/// a case: text = operations "P:<hex>" (push) / "L" (pull); data = the frame sequence as sent
fn mk_case(stream: &[u8], cuts: u32, pulls: &[u8]) -> Case {
    // cuts: bit i set = split after byte i (i in 0..n-1); pulls[j]: policy after chunk j (0 none, 1 one pull, 2 pull until None then once more)
    let mut ops = Vec::new();
    let mut start = 0usize;
    let mut chunk_no = 0usize;
    let n = stream.len();
    for i in 0..n {
        let last = i + 1 == n;
        if last || (cuts >> i) & 1 == 1 {
            ops.push(format!("P:{}", crate::refimpl::crypto::hex(&stream[start..=i])));
            start = i + 1;
            match pulls.get(chunk_no).copied().unwrap_or(2) {
                0 => {}
                1 => ops.push("L".into()),
                _ => ops.push("D".into()), // drain: pull until None, then once more
            }
            chunk_no += 1;
        }
    }
    ops.push("D".into());
    Case { op: "tcp".into(), data: stream.to_vec(), args: vec![], text: ops }
}

fn frames_to_stream(frames: &[Vec<u8>]) -> Vec<u8> {
    let mut s = Vec::new();
    for f in frames {
        s.extend_from_slice(&(f.len() as u16).to_be_bytes());
        s.extend_from_slice(f);
    }
    s
}

/// reference: parse the next complete frame at `pos` of the bytes pushed so far
fn ref_next(pushed: &[u8], pos: usize) -> Option<(Vec<u8>, usize)> {
    if pushed.len() < pos + 2 {
        return None;
    }
    let l = ((pushed[pos] as usize) << 8) | pushed[pos + 1] as usize;
    if pushed.len() < pos + 2 + l {
        return None;
    }
    Some((pushed[pos + 2..pos + 2 + l].to_vec(), pos + 2 + l))
}

/// Deterministic frame (prefix + payload) of the "every length" family; cases name it by (len, seed)
/// instead of carrying up to 64 KiB of hex.
fn gen_frame(len: usize, seed: usize) -> Vec<u8> {
    let mut f = Vec::with_capacity(len + 2);
    f.extend_from_slice(&(len as u16).to_be_bytes());
    f.extend((0..len).map(|i| ((i.wrapping_mul(31) ^ seed.wrapping_mul(131) ^ (i >> 8)) % 253) as u8));
    f
}

pub fn judge(case: &Case, acc: &mut Acc) {
    acc.validated += 1;
    let _ambient = crate::ambient::scope();
    // new() and Default::default() are the same empty buffer
    let mut buf = if case.text.len() % 2 == 0 { TcpBuffer::new() } else { TcpBuffer::default() };
    let mut pushed: Vec<u8> = Vec::new();
    let mut pos = 0usize;
    let mut pulled = 0usize;
    let mut one_pull = |buf: &mut TcpBuffer, pushed: &Vec<u8>, pos: &mut usize, pulled: &mut usize, acc: &mut Acc| -> Option<bool> {
        acc.evaluations += 1;
        let got = buf.pull_data();
        let want = ref_next(pushed, *pos);
        match (got, want) {
            (None, None) => Some(false),
            (Some(g), Some((w, np))) => {
                if g != w {
                    viol!(acc, P, "frame-altered", case, "a pulled frame is not the next frame that was sent", fmt_bytes(&w), fmt_bytes(&g));
                    return None;
                }
                *pos = np;
                *pulled += 1;
                Some(true)
            }
            (Some(g), None) => {
                viol!(acc, P, "frame-from-incomplete-data", case, "pull returned a frame although no complete frame is buffered", "None", fmt_bytes(&g));
                None
            }
            (None, Some((w, _))) => {
                viol!(acc, P, "frame-withheld", case, "pull returned nothing although a complete frame is buffered", fmt_bytes(&w), "None");
                None
            }
        }
    };
    for op in &case.text {
        if let Some(h) = op.strip_prefix("P:") {
            let b = crate::refimpl::crypto::unhex(h);
            buf.push_data(&b);
            pushed.extend_from_slice(&b);
            acc.evaluations += 1;
        } else if let Some(q) = op.strip_prefix("Q:") {
            // Q:<len>:<seed>:<from>:<to> = push bytes [from, to) of gen_frame(len, seed)
            let f: Vec<usize> = q.split(':').map(|x| x.parse().unwrap()).collect();
            let fr = gen_frame(f[0], f[1]);
            let b = &fr[f[2].min(fr.len())..f[3].min(fr.len())];
            buf.push_data(b);
            pushed.extend_from_slice(b);
            acc.evaluations += 1;
        } else if let Some(q) = op.strip_prefix("R:") {
            // R:<count>:<len> = <count> frames of <len> bytes through this one buffer, each pushed in two
            // chunks and pulled at once (the stream is not kept: each frame is compared as it comes out)
            let f: Vec<usize> = q.split(':').map(|x| x.parse().unwrap()).collect();
            if pos != pushed.len() {
                panic!("harness: R needs an empty buffer");
            }
            for i in 0..f[0] {
                let fr = gen_frame(f[1], i);
                let cut = 1000.min(fr.len());
                buf.push_data(&fr[..cut]);
                acc.evaluations += 2;
                if fr.len() > cut {
                    if let Some(g) = buf.pull_data() {
                        viol!(acc, P, "frame-from-incomplete-data", case, format!("pull returned a frame although no complete frame is buffered (frame {i} of a long-lived stream, {} bytes through the buffer so far)", i * fr.len()), "None", fmt_bytes(&g[..g.len().min(32)]));
                        return;
                    }
                    buf.push_data(&fr[cut..]);
                }
                match buf.pull_data() {
                    Some(g) if g[..] == fr[2..] => {}
                    Some(g) => {
                        viol!(acc, P, "frame-altered", case, format!("frame {i} of a long-lived stream came out altered ({} bytes through the buffer so far)", i * fr.len()), fmt_bytes(&fr[2..fr.len().min(34)]), fmt_bytes(&g[..g.len().min(32)]));
                        return;
                    }
                    None => {
                        viol!(acc, P, "frame-withheld", case, format!("pull returned nothing although frame {i} of a long-lived stream is completely buffered ({} bytes through the buffer so far)", i * fr.len()), format!("a frame of {} bytes", f[1]), "None");
                        return;
                    }
                }
                if buf.pull_data().is_some() {
                    viol!(acc, P, "frame-from-incomplete-data", case, "pull returned a second frame from an empty buffer", "None", "Some");
                    return;
                }
                pulled += 1;
            }
        } else if let Some(secs) = op.strip_prefix("T:") {
            // the process clock (monotonic and wall) is this many seconds further on from here
            crate::ambient::clock_advance(std::time::Duration::from_secs(secs.parse().unwrap()));
        } else if op == "L" {
            if one_pull(&mut buf, &pushed, &mut pos, &mut pulled, acc).is_none() {
                return;
            }
        } else {
            loop {
                match one_pull(&mut buf, &pushed, &mut pos, &mut pulled, acc) {
                    None => return,
                    Some(true) => continue,
                    Some(false) => break,
                }
            }
            // once more: a pull that returned nothing must have left the buffer intact
            if one_pull(&mut buf, &pushed, &mut pos, &mut pulled, acc).is_none() {
                return;
            }
        }
    }
    // everything sent was pulled, nothing lost / merged / duplicated
    if pos != pushed.len() && ref_next(&pushed, pos).is_some() {
        viol!(acc, P, "frames-left-behind", case, "complete frames remain after the final drain", "all pulled", format!("{} bytes left", pushed.len() - pos));
    }
    acc.outcome(match pulled {
        0 => "0 frames pulled",
        1 => "1 frame pulled",
        2 => "2 frames pulled",
        _ => "3+ frames pulled",
    });
}

pub fn run(ctx: &Ctx) -> Report {
    let lens: [usize; 5] = [0, 1, 2, 3, 5];
    let max_stream = ctx.tier.pick(16usize, 21usize);
    // frame sequences of <= 3 frames
    let mut seqs: Vec<Vec<Vec<u8>>> = vec![vec![]];
    let mut level: Vec<Vec<Vec<u8>>> = vec![vec![]];
    let mut counter = 0u8;
    for _ in 0..3 {
        let mut next = Vec::new();
        for s in &level {
            for l in lens {
                let mut n = s.clone();
                let f: Vec<u8> = (0..l).map(|_| {
                    counter = counter.wrapping_add(1);
                    counter | 0x80
                }).collect();
                n.push(f);
                next.push(n);
            }
        }
        seqs.extend(next.iter().cloned());
        level = next;
    }
    let streams: Vec<Vec<u8>> = seqs.iter().map(|s| frames_to_stream(s)).filter(|s| !s.is_empty() && s.len() <= max_stream).collect();
    let n_streams = streams.len();
    let acc1 = streams
        .par_iter()
        .flat_map(|s| {
            let n = s.len();
            (0..(1u32 << (n - 1))).into_par_iter().map(move |cuts| (s, cuts))
        })
        .fold(Acc::default, |mut acc, (s, cuts)| {
            let chunks = cuts.count_ones() as usize + 1;
            // pull schedules: per-chunk choice exhaustive up to 5 chunks, uniform + alternating above
            let mut schedules: Vec<Vec<u8>> = Vec::new();
            if chunks <= 5 {
                let total = 3usize.pow(chunks as u32);
                for mut code in 0..total {
                    let mut v = Vec::with_capacity(chunks);
                    for _ in 0..chunks {
                        v.push((code % 3) as u8);
                        code /= 3;
                    }
                    schedules.push(v);
                }
            } else {
                schedules.push(vec![0; chunks]);
                schedules.push(vec![1; chunks]);
                schedules.push(vec![2; chunks]);
                schedules.push((0..chunks).map(|i| (i % 2) as u8).collect());
                schedules.push((0..chunks).map(|i| ((i + 1) % 3) as u8).collect());
            }
            for sch in schedules {
                let case = mk_case(s, cuts, &sch);
                acc.nontrivial += 1;
                if acc.samples.len() < 2 && cuts == 0b1011 && sch.len() == 4 {
                    acc.sample(case.brief());
                }
                judge_guarded(judge, &case, &mut acc);
                // the same with a zero-length chunk (two split points coinciding, a 0-byte read) pushed
                // before every chunk and at the end
                let mut e = case.clone();
                let mut ops = Vec::with_capacity(e.text.len() * 2);
                for o in &e.text {
                    if o.starts_with("P:") {
                        ops.push("P:".to_string());
                    }
                    ops.push(o.clone());
                }
                let last = ops.len() - 1;
                ops.insert(last, "P:".to_string());
                e.text = ops;
                judge_guarded(judge, &e, &mut acc);
                // the same with the process clock jumping between the chunks (a slow or paused peer;
                // the buffer has no time parameter, so whatever it did with time it would take from here)
                if chunks >= 2 && chunks <= 4 {
                    for secs in crate::ambient::CLOCK_STEPS_S {
                        let mut e = case.clone();
                        let mut ops = Vec::with_capacity(e.text.len() * 2);
                        for (i, o) in e.text.iter().enumerate() {
                            if i > 0 && (o.starts_with("P:") || o == "D") {
                                ops.push(format!("T:{secs}"));
                            }
                            ops.push(o.clone());
                        }
                        e.text = ops;
                        judge_guarded(judge, &e, &mut acc);
                    }
                }
            }
            acc
        })
        .reduce(Acc::default, |a, b| a.merge(b));
    // large frames: 65535, 65534, 256, 255, 0 bytes, split near the length prefix and near the end
    let mut big_cases = Vec::new();
    for lens in [vec![65535usize], vec![65534, 0, 256], vec![255, 65535, 1], vec![256, 255], vec![0, 0, 65535]] {
        let frames: Vec<Vec<u8>> = lens.iter().enumerate().map(|(i, l)| (0..*l).map(|j| (j as u8).wrapping_mul(3).wrapping_add(i as u8)).collect()).collect();
        let s = frames_to_stream(&frames);
        let first = lens[0] + 2;
        for split in [1usize, 2, 3, first.saturating_sub(1), first, first + 1, first + 2, first + 3, s.len() - 1] {
            if split == 0 || split >= s.len() {
                continue;
            }
            for pol in [1u8, 2] {
                let ops = vec![format!("P:{}", crate::refimpl::crypto::hex(&s[..split])), if pol == 1 { "L".into() } else { "D".into() }, format!("P:{}", crate::refimpl::crypto::hex(&s[split..])), "D".into()];
                big_cases.push(Case { op: "tcp".into(), data: vec![], args: vec![], text: ops });
            }
        }
        // byte by byte for the first 8 bytes, then the rest
        let mut ops: Vec<String> = (0..8.min(s.len())).map(|i| format!("P:{:02x}", s[i])).collect();
        ops.push("L".into());
        if s.len() > 8 {
            ops.push(format!("P:{}", crate::refimpl::crypto::hex(&s[8..])));
        }
        ops.push("D".into());
        big_cases.push(Case { op: "tcp".into(), data: vec![], args: vec![], text: ops });
    }
    // payloads that are (or look like) STUN messages, as they are in real use of this buffer: whole
    // reference-built messages, and the magic cookie at every payload offset 0..=8, in frames of 6..40
    // bytes, alone / followed by other frames, pushed in one piece, byte by byte, and split at every
    // position with a pull in between
    {
        use crate::refimpl::wire;
        let mut payloads: Vec<Vec<u8>> = Vec::new();
        let mut m = wire::encode_header(0, 1, 0x0102_0304_0506_0708_090A_0B0C, 0);
        payloads.push(m.clone());
        wire::append_raw(&mut m, 0x8022, b"stun");
        payloads.push(m.clone());
        wire::append_fp(&mut m);
        payloads.push(m.clone());
        for off in 0..=8usize {
            for total in [off + 4, off + 6, 18, 20, 24, 40] {
                if total < off + 4 {
                    continue;
                }
                for lead in [0x00u8, 0x01, 0xFF] {
                    let mut p = vec![lead; total];
                    if off >= 2 {
                        p[0] = 0;
                        p[1] = 4; // a small "declared length" in front of the cookie
                    }
                    p[off..off + 4].copy_from_slice(&[0x21, 0x12, 0xA4, 0x42]);
                    payloads.push(p);
                }
            }
        }
        payloads.sort();
        payloads.dedup();
        for p in &payloads {
            for tail in [vec![], vec![vec![1u8, 2, 3]], vec![vec![], vec![9u8; 30]]] {
                let mut frames = vec![p.clone()];
                frames.extend(tail);
                let st = frames_to_stream(&frames);
                // one piece
                big_cases.push(Case { op: "tcp".into(), data: vec![], args: vec![], text: vec![format!("P:{}", crate::refimpl::crypto::hex(&st)), "D".into()] });
                // byte by byte, pulling after every byte
                let mut ops: Vec<String> = Vec::new();
                for b in &st {
                    ops.push(format!("P:{b:02x}"));
                    ops.push("L".into());
                }
                ops.push("D".into());
                big_cases.push(Case { op: "tcp".into(), data: vec![], args: vec![], text: ops });
                // every split in two, with and without a pull in between
                for cut in 1..st.len() {
                    for mid in ["L", "D", ""] {
                        let mut ops = vec![format!("P:{}", crate::refimpl::crypto::hex(&st[..cut]))];
                        if !mid.is_empty() {
                            ops.push(mid.to_string());
                        }
                        ops.push(format!("P:{}", crate::refimpl::crypto::hex(&st[cut..])));
                        ops.push("D".into());
                        big_cases.push(Case { op: "tcp".into(), data: vec![], args: vec![], text: ops });
                    }
                }
            }
        }
    }
    // every frame length 0..=65535 (a length prefix that happens to read as something else - CR LF,
    // a STUN type, a TLS record type - is one particular length): the frame between two small ones,
    // pushed whole, and with a pull after the bare prefix / one byte into the prefix / mid-payload
    let len_step = 1usize;
    let every_len: Vec<Case> = (0..=65535usize)
        .step_by(len_step)
        .flat_map(|len| {
            let total = len + 2;
            let mut v = Vec::new();
            let lead = "P:00021122".to_string();
            let tail = "P:000133".to_string();
            // whole
            v.push(vec![lead.clone(), format!("Q:{len}:{len}:0:{total}"), tail.clone(), "D".into()]);
            // prefix alone, pull, rest
            v.push(vec![format!("Q:{len}:7:0:2"), "L".into(), format!("Q:{len}:7:2:{total}"), "D".into(), tail.clone(), "D".into()]);
            if len % 4 == 2 || len < 300 {
                // split inside the prefix and in the middle of the payload, pulling in between
                v.push(vec![lead.clone(), "D".into(), format!("Q:{len}:3:0:1"), "L".into(), format!("Q:{len}:3:1:{}", 2 + len / 2), "L".into(), format!("Q:{len}:3:{}:{total}", 2 + len / 2), tail.clone(), "D".into()]);
            }
            v.into_iter().map(|ops| Case { op: "tcp".into(), data: vec![], args: vec![], text: ops }).collect::<Vec<_>>()
        })
        .collect();
    let acc_len = crate::props::sweep(every_len.into_par_iter(), judge);
    // one long-lived buffer: more than 2^32 bytes (thorough: 2^33) through a single TcpBuffer, in frames
    // of 65535 / 1200 / 37 bytes (a 32-bit count of bytes or frames kept per buffer wraps on the way)
    let life: Vec<Case> = {
        let over = ctx.tier.pick(1usize, 2usize);
        vec![
            Case { op: "tcp".into(), data: vec![], args: vec![], text: vec![format!("R:{}:65535", over * 65_537 + 3), "D".into()] },
            Case { op: "tcp".into(), data: vec![], args: vec![], text: vec![format!("R:{}:1200", over * 3_573_500), "D".into()] },
            Case { op: "tcp".into(), data: vec![], args: vec![], text: vec![format!("R:{}:37", ctx.tier.pick(20_000_000usize, 120_000_000usize)), "D".into()] },
            Case { op: "tcp".into(), data: vec![], args: vec![], text: vec![format!("R:{}:0", ctx.tier.pick(20_000_000usize, 70_000_000usize)), "D".into()] },
        ]
    };
    let acc_len = acc_len.merge(crate::props::sweep(life.into_par_iter(), judge));
    // long streams (~450 KB, 250 frames with lengths from every size class) pushed in fixed-size
    // chunks under four pull policies: thresholds of an implementation (lazy compaction, capacity
    // shrinking, cursor wrap) are crossed with data still buffered
    {
        let classes: [usize; 14] = [0, 1, 2, 255, 256, 257, 1000, 1459, 1460, 1461, 4095, 4096, 9000, 40000];
        let mut frames: Vec<Vec<u8>> = Vec::new();
        let mut x: u32 = 12345;
        for i in 0..250usize {
            x = x.wrapping_mul(1_103_515_245).wrapping_add(12345);
            let l = classes[(x >> 16) as usize % if i % 10 == 9 { 14 } else { 12 }];
            frames.push((0..l).map(|j| (j as u8).wrapping_mul(7).wrapping_add(i as u8)).collect());
        }
        let stream = frames_to_stream(&frames);
        for chunk in [3usize, 97, 1460, 4096, 16_384, 65_536, 100_000] {
            if chunk < 97 && stream.len() > 60_000 {
                // tiny chunks only over a prefix of the stream (the operation list would be huge)
            }
            let limit = if chunk < 97 { 40_000.min(stream.len()) } else { stream.len() };
            for policy in 0..4u8 {
                let mut ops: Vec<String> = Vec::new();
                let mut n = 0usize;
                let mut off = 0usize;
                while off < limit {
                    let end = (off + chunk).min(limit);
                    ops.push(format!("P:{}", crate::refimpl::crypto::hex(&stream[off..end])));
                    off = end;
                    n += 1;
                    match policy {
                        0 => ops.push("D".into()),
                        1 => ops.push("L".into()),
                        2 if n % 3 == 0 => ops.push("D".into()),
                        _ => {}
                    }
                }
                ops.push("D".into());
                big_cases.push(Case { op: "tcp".into(), data: vec![], args: vec![chunk as i64, policy as i64], text: ops });
            }
        }
    }
    let n_big = big_cases.len() as u64;
    let mut acc2 = crate::props::sweep(big_cases.into_par_iter(), judge);
    acc2.nontrivial += n_big;
    let mut acc = acc1.merge(acc2).merge(acc_len);
    // thread teardown: the same push / pull programs from a thread-local destructor (child process)
    crate::teardown::judge(P, "tcp", &mut acc);
    crate::teardown::callsite_sweep(P, "tcp", &mut acc);
    // allocation failure inside push_data / pull_data, one allocation at a time (child processes; alloc.rs)
    crate::teardown::alloc_probe(P, &mut acc);
    Report {
        acc,
        exhaustive: true,
        rule: format!("(thread teardown probe: 8 chunkings of four frames pushed and pulled in the body of a thread and again from a thread-local destructor at its exit, in a child process) (each split into 2..=4 chunks also with the process clock - the harness' own clock_gettime - jumping 1 s / 7 s / 61 min / 50 days between the chunks) all sequences of <= 3 frames with lengths from {{0,1,2,3,5}} (distinct counter contents) whose stream is <= {max_stream} bytes x every chunking (all 2^(n-1) split patterns) x pull schedules (per-chunk choice of none / one pull / pull until None then once more: exhaustive up to 5 chunks, 5 patterns above); plus frames of 65535, 65534, 256, 255, 0 bytes split around the length prefix and the frame end; more than 2^32 bytes through one long-lived buffer in frames of 65535 / 1200 bytes, 2*10^7 frames of 37 and of 0 bytes; every frame length 0..=65535 (whole between two small frames; the bare prefix first; split inside the prefix and mid-payload); payloads that are STUN messages or carry the magic cookie at every offset 0..=8 (frames of 4..40 bytes, with following frames; one piece, byte by byte, every two-way split); a ~450 KB stream of 250 frames (lengths from 14 size classes, 0..40000) pushed in chunks of 3 / 97 / 1460 / 4096 / 16384 / 65536 / 100000 bytes under 4 pull policies; evaluations = push/pull calls, distinct_nontrivial = operation sequences"),
        bounds: json!({"frame_sequences": n_streams, "max_stream_bytes": max_stream, "dedup": "none (TcpBuffer's Debug hides its contents)"}),
        assumptions: vec![],
        ..Default::default()
    }
}
