//! C19 — message type and transaction id fields are encoded bijectively per RFC 8489 §5/§6.
//! Fully exhaustive over the 16-bit type field and the 4x4096 (class, method) pairs.

use crate::common::*;
use crate::props::sweep;
use crate::real;
use crate::refimpl::wire;
use crate::viol;
use rayon::prelude::*;
use serde_json::json;
use std::collections::HashSet;
use stun_types::message::*;

const P: &str = "C19";

fn tid_cases(ctx: &Ctx) -> Vec<u128> {
    let mut v: Vec<u128> = vec![
        0,
        1,
        (1u128 << 96) - 1,
        1u128 << 96,
        (1u128 << 96) + 1,
        u128::MAX,
        0x2112_A442_2112_A442_2112_A442,
        0x2112_A442_2112_A442_2112_A442_2112_A442,
        (0x2112_A442u128) << 96,
        ((ctx.seeded(19) as u128) << 64) | ctx.seeded(20) as u128,
    ];
    for i in 0..128 {
        v.push(1u128 << i); // walking one
        v.push(!(1u128 << i)); // walking zero
    }
    // byte lanes: every byte of the 128-bit integer takes all 256 values against three backgrounds
    let seeded = ((ctx.seeded(21) as u128) << 64) | ctx.seeded(22) as u128;
    for bg in [0u128, u128::MAX, seeded] {
        for lane in 0..16 {
            for val in 0..=255u128 {
                v.push((bg & !(0xFFu128 << (8 * lane))) | (val << (8 * lane)));
            }
        }
    }
    // adjacent 16-bit windows at every bit offset (shift / word-boundary slips)
    for off in 0..=112 {
        for w in [0xFFFFu128, 0x8001, 0x00FF, 0xFF00, 0x5A5A] {
            v.push(w << off);
        }
    }
    v.sort();
    v.dedup();
    v
}

pub fn run(ctx: &Ctx) -> Report {
    let mut cases: Vec<Case> = Vec::new();
    for t in 0..=0xFFFFu32 {
        cases.push(Case::new("type_field", vec![(t >> 8) as u8, t as u8]));
    }
    for c in 0..4 {
        for m in 0..4096 {
            cases.push(Case::new("class_method", vec![]).args(&[c, m]));
        }
    }
    for t in tid_cases(ctx) {
        cases.push(Case::new("tid", t.to_be_bytes().to_vec()));
    }
    // bodies beyond the 16-bit length field (the length cannot be right there, the type and the
    // transaction id still must be)
    for c in 0..4 {
        for m in [0i64, 1, 2, 4, 6, 8, 0x100, 0xFFE, 0xFFF] {
            cases.push(Case::new("oversize", vec![]).args(&[c, m]));
        }
    }
    let n_cases = cases.len() as u64;
    let mut acc = sweep(cases.into_par_iter(), judge);

    // global clause: the 16384 accepted type values map to 16384 distinct (class, method) pairs
    let mut pairs = HashSet::new();
    let mut accepted = 0u64;
    for t in 0..=0xFFFFu16 {
        if let Ok(mt) = MessageType::from_bytes(&t.to_be_bytes()) {
            accepted += 1;
            pairs.insert((real::class_num(mt.class()), mt.method()));
        }
    }
    acc.evaluations += 1;
    if accepted != 16384 || pairs.len() != 16384 {
        let c = Case::new("distinct_pairs", vec![]);
        viol!(acc, P, "not-bijective", &c, "accepted type values do not map one-to-one onto (class, method) pairs", "16384 accepted values, 16384 distinct pairs", format!("{accepted} accepted, {} distinct", pairs.len()));
    }
    // every id of a long run of generate() calls on one thread fits in 96 bits and survives the wire:
    // 2^24 + 2^16 calls (thorough: 2^32 + 2^16), so that a counter or state kept per thread is taken
    // across the 2^24 (2^32) boundary.  The random part is observed, not enumerated.
    let n_gen: i64 = if ctx.tier == Tier::Thorough { (1i64 << 32) + (1 << 16) } else { (1i64 << 24) + (1 << 16) };
    crate::props::judge_guarded(judge, &Case::new("generate", vec![]).args(&[n_gen]), &mut acc);
    acc.nontrivial = n_cases;
    Report {
        acc,
        exhaustive: true,
        rule: "every 16-bit type-field value (decoded alone and followed by 1 / 18 / 26 / 1200 bytes of six kinds); every (class, method) pair 4x4096 (also as the header of messages carrying one attribute of each of 8 kinds, or an application attribute whose value length changes between add_attribute and build, built directly and after into_owned); transaction ids: walking one/zero over 128 bits, every byte lane x 256 values x 3 backgrounds, 16-bit windows at every bit offset, boundary patterns; each case is distinct by construction".into(),
        bounds: json!({"type_field_values": 65536, "class_method_pairs": 16384, "tids": "~13 000 (see rule)", "generate_observations": "2^24 + 2^16 (thorough 2^32 + 2^16) consecutive calls on one thread"}),
        assumptions: vec!["TransactionId::generate(): only the masking constructor it goes through is enumerated; RNG output is observed, not explored".into()],
        ..Default::default()
    }
}

pub fn judge(case: &Case, acc: &mut Acc) {
    acc.evaluations += 1;
    acc.validated += 1;
    match case.op.as_str() {
        "type_field" => {
            let t = ((case.data[0] as u16) << 8) | case.data[1] as u16;
            let r = MessageType::from_bytes(&case.data);
            let must_accept = t & 0xC000 == 0;
            match r {
                Ok(mt) => {
                    acc.outcome("type accepted");
                    if !must_accept {
                        viol!(acc, P, "accepts-top-bits", case, "a type field with a top bit set was accepted", "Err(NotStun)", format!("{mt:?}"));
                        return;
                    }
                    let (c, m) = wire::split_type(t);
                    let (rc, rm) = (real::class_num(mt.class()), mt.method());
                    if (rc, rm) != (c, m) {
                        viol!(acc, P, "decode-interleaving", case, "class/method decoded from the type field differ from RFC 8489 §5", format!("class {c} method {m:#x}"), format!("class {rc} method {rm:#x}"));
                    }
                    if mt.to_bytes() != case.data {
                        viol!(acc, P, "type-reencode", case, "to_bytes of a decoded type differs from the input", crate::refimpl::crypto::hex(&case.data), crate::refimpl::crypto::hex(&mt.to_bytes()));
                    }
                    if mt.is_response() != (c >= 2) || !mt.has_class(real::class_of(c)) || !mt.has_method(m) {
                        viol!(acc, P, "type-predicates", case, "is_response/has_class/has_method disagree with the decoded class/method", "consistent", "inconsistent");
                    }
                    let _ = format!("{mt} {mt:?}");
                }
                Err(e) => {
                    acc.outcome("type refused");
                    let pe: real::PErr = e.into();
                    if must_accept {
                        viol!(acc, P, "refuses-valid-type", case, "a type field with clear top bits was refused", "Ok", format!("{pe:?}"));
                    } else if pe != real::PErr::NotStun {
                        viol!(acc, P, "wrong-refusal", case, "refusal of a non-STUN type field is not NotStun", "NotStun", format!("{pe:?}"));
                    }
                }
            }
            // the decoder is a function of the 16-bit field alone: handed a longer slice (a whole datagram of
            // some protocol, a STUN header, an RFC 3489 message without the cookie) it answers the same
            let short = MessageType::from_bytes(&case.data).map(|m| m.to_bytes()).map_err(real::PErr::from);
            for tail in [&[0u8; 1][..], &[0u8; 18][..], &[0xFFu8; 18][..], &[0, 0, 0x21, 0x12, 0xA4, 0x42, 1, 2, 3, 4, 5, 6, 7, 8, 9, 10, 11, 12][..], &[0, 8, 0x21, 0x12, 0xA4, 0x43, 1, 2, 3, 4, 5, 6, 7, 8, 9, 10, 11, 12, 0x80, 0x22, 0, 1, 0x41, 0, 0, 0][..], &[0x47u8; 1200][..]] {
                let mut long = case.data.clone();
                long.extend_from_slice(tail);
                let got = MessageType::from_bytes(&long).map(|m| m.to_bytes()).map_err(real::PErr::from);
                let got2 = MessageType::try_from(&long[..]).map(|m| m.to_bytes()).map_err(real::PErr::from);
                if got != short || got2 != short {
                    viol!(acc, P, "type-depends-on-following-bytes", case, format!("MessageType::from_bytes / try_from of the same type field followed by {} more bytes answers differently", tail.len()), format!("{short:?}"), format!("{got:?} / {got2:?}"));
                    break;
                }
            }
            // a datagram whose type field has a top bit set is refused as not STUN by the whole parser as
            // well, whatever its bytes 2..4 say about a length (RTP, RTCP, DTLS and ChannelData packets on a
            // shared socket carry sequence numbers and lengths of their own there)
            if !must_accept {
                for (declared, body) in [(0u16, 0usize), (8, 0), (0, 8), (8, 8), (0xFFFF, 0), (4, 1180), (1180, 1180), (12, 8)] {
                    let mut d = vec![case.data[0], case.data[1]];
                    d.extend_from_slice(&declared.to_be_bytes());
                    d.extend_from_slice(&[0x21, 0x12, 0xA4, 0x42, 1, 2, 3, 4, 5, 6, 7, 8, 9, 10, 11, 12]);
                    d.extend((0..body).map(|i| (i * 5) as u8));
                    let got = Message::from_bytes(&d).map(|_| ()).map_err(real::PErr::from);
                    let got_h = MessageHeader::from_bytes(&d).map(|_| ()).map_err(real::PErr::from);
                    if got != Err(real::PErr::NotStun) || got_h != Err(real::PErr::NotStun) {
                        viol!(acc, P, "non-stun-datagram", case, format!("a datagram of {} bytes whose type field has a top bit set (bytes 2..4 = {declared:#06x})", d.len()), "Err(NotStun) from Message::from_bytes and MessageHeader::from_bytes", format!("{got:?} / {got_h:?}"));
                        break;
                    }
                }
            }
            let via_tryfrom = MessageType::try_from(&case.data[..]).is_ok();
            if via_tryfrom != must_accept {
                viol!(acc, P, "tryfrom-differs", case, "TryFrom<&[u8]> disagrees with the top-bit rule", format!("{must_accept}"), format!("{via_tryfrom}"));
            }
        }
        "class_method" => {
            let (c, m) = (case.args[0] as u8, case.args[1] as u16);
            acc.outcome("class/method encoded");
            let mt = MessageType::from_class_method(real::class_of(c), m);
            let want = wire::join_type(c, m);
            let mut two = [0u8; 2];
            mt.write_into(&mut two);
            let got = u16::from_be_bytes(two);
            if got != want {
                viol!(acc, P, "encode-interleaving", case, "type field differs from the RFC 8489 §5 interleaving", format!("{want:#06x}"), format!("{got:#06x}"));
            }
            // into the front of a longer buffer (a header laid out by hand): the first two bytes, nothing else
            for n in [3usize, 4, 20] {
                let mut longer = vec![0xA5u8; n];
                let r = crate::common::guarded(|| mt.write_into(&mut longer));
                if r.is_err() || longer[..2] != two || longer[2..].iter().any(|b| *b != 0xA5) {
                    viol!(acc, P, "write_into-longer-destination", case, format!("MessageType::write_into a destination of {n} bytes does not put the type field into its first two bytes and leave the rest alone"), crate::refimpl::crypto::hex(&two), format!("{:?} {}", r.err().map(|p| p.message), crate::refimpl::crypto::hex(&longer)));
                    break;
                }
            }
            if mt.to_bytes() != two {
                viol!(acc, P, "to_bytes-vs-write_into", case, "to_bytes and write_into disagree", "equal", "different");
            }
            if real::class_num(mt.class()) != c || mt.method() != m {
                viol!(acc, P, "class-method-roundtrip", case, "class()/method() do not return what was put in", format!("({c},{m:#x})"), format!("({},{:#x})", real::class_num(mt.class()), mt.method()));
            }
            match MessageType::from_bytes(&two) {
                Ok(back) if back == mt => {}
                other => viol!(acc, P, "bytes-roundtrip", case, "from_bytes(to_bytes(t)) != t", format!("{mt:?}"), format!("{other:?}")),
            }
            // the header fields do not depend on what the message carries: one attribute of each kind
            // (typed ERROR-CODE, raw 0x0009, SOFTWARE, XOR-MAPPED-ADDRESS, UNKNOWN-ATTRIBUTES, a raw
            // unknown type), then integrity and fingerprint, on builders of this (class, method)
            {
                use stun_types::attribute::*;
                let tidv: u128 = 0x0F0E_0D0C_0B0A_0908_0706_0504;
                let ec = ErrorCode::new(438, "Stale Nonce").unwrap();
                let sw = Software::new("x").unwrap();
                let xa = XorMappedAddress::new("192.0.2.1:3478".parse().unwrap(), tidv.into());
                let ua = UnknownAttributes::new(&[0x7F00.into()]);
                let creds: stun_types::message::MessageIntegrityCredentials = stun_types::message::ShortTermCredentials::new("pw".to_owned()).into();
                // (variants 8..=11: an application attribute whose value the application changes between
                // add_attribute and build - 3 -> 8, 8 -> 3, 0 -> 40, 40 -> 0 bytes)
                let late = crate::engine_in::prog::MutAttr::default();
                for which in 0..12u8 {
                    let mut b = real::builder(c, m, tidv);
                    let (before, after) = [(3u16, 8u16), (8, 3), (0, 40), (40, 0)][(which as usize).saturating_sub(8) % 4];
                    late.len.store(before, std::sync::atomic::Ordering::SeqCst);
                    let r = match which {
                        8..=11 => b.add_attribute(&late).map_err(|e| format!("{e:?}")),
                        0 => b.add_attribute(&ec).map_err(|e| format!("{e:?}")),
                        1 => b.add_raw_attribute(RawAttribute::new(0x0009.into(), &[0, 0, 4, 1, b'x'])).map_err(|e| format!("{e:?}")),
                        2 => b.add_attribute(&sw).map_err(|e| format!("{e:?}")),
                        3 => b.add_attribute(&xa).map_err(|e| format!("{e:?}")),
                        4 => b.add_attribute(&ua).map_err(|e| format!("{e:?}")),
                        5 => b.add_raw_attribute(RawAttribute::new(0xC0DE.into(), &[1, 2, 3])).map_err(|e| format!("{e:?}")),
                        6 => b.add_message_integrity(&creds, stun_types::message::IntegrityAlgorithm::Sha1).map_err(|e| format!("{e:?}")),
                        _ => b.add_message_integrity(&creds, stun_types::message::IntegrityAlgorithm::Sha256).and_then(|_| b.add_fingerprint()).map_err(|e| format!("{e:?}")),
                    };
                    if r.is_err() {
                        continue;
                    }
                    if which >= 8 {
                        let _ = b.byte_len();
                        late.len.store(after, std::sync::atomic::Ordering::SeqCst);
                    }
                    let owned = b.clone().into_owned();
                    for (name, bytes) in [("build", b.build()), ("into_owned+build", owned.build())] {
                        if bytes.len() < 20 || bytes[0..2] != two || bytes[4..8] != [0x21, 0x12, 0xA4, 0x42] || bytes[8..20] != tidv.to_be_bytes()[4..16] {
                            viol!(acc, P, "header-depends-on-attributes", case, format!("the header of a built message changed with the attribute it carries (variant {which}, {name})"), format!("{} .... 2112a442 {:024x}", crate::refimpl::crypto::hex(&two), tidv), fmt_bytes(&bytes[..bytes.len().min(20)]));
                        }
                    }
                    if !b.has_class(real::class_of(c)) {
                        viol!(acc, P, "builder-class-depends-on-attributes", case, format!("has_class of the builder changed with the attribute it carries (variant {which})"), format!("class {c}"), "another class");
                    }
                }
            }
            // through a whole message header
            let b = real::builder(c, m, 7).build();
            if b.len() != 20 || b[0..2] != two {
                viol!(acc, P, "header-type-bytes", case, "bytes 0..2 of a built message are not the type field", crate::refimpl::crypto::hex(&two), fmt_bytes(&b));
            } else {
                match Message::from_bytes(&b) {
                    Ok(msg) => {
                        if real::class_num(msg.class()) != c || msg.method() != m || msg.get_type() != mt {
                            viol!(acc, P, "message-type-readback", case, "Message::class/method/get_type differ from what was built", format!("({c},{m:#x})"), format!("({},{:#x})", real::class_num(msg.class()), msg.method()));
                        }
                    }
                    Err(e) => viol!(acc, P, "built-header-rejected", case, "a built empty message does not parse", "Ok", format!("{e:?}")),
                }
                // the convenience predicates and response builders go through the same fields
                if let Ok(msg) = Message::from_bytes(&b) {
                    let mut ok = msg.has_method(m) && msg.is_response() == (c >= 2) && msg.has_class(real::class_of(c));
                    for other in 0..4u8 {
                        if other != c && msg.has_class(real::class_of(other)) {
                            ok = false;
                        }
                    }
                    if m != 0 && msg.has_method(m ^ 1) {
                        ok = false;
                    }
                    let bld = real::builder(c, m, 7);
                    if !bld.has_class(real::class_of(c)) {
                        ok = false;
                    }
                    if !ok {
                        viol!(acc, P, "message-predicates", case, "has_class / has_method / is_response of a message (or builder) disagree with its type field", "consistent with (class, method)", "inconsistent");
                    }
                    if c == 0 {
                        // builder_request(method): a request of that method under a fresh transaction id
                        let rq = Message::builder_request(m).build();
                        let want = wire::join_type(0, m).to_be_bytes();
                        if rq.len() != 20 || rq[0..2] != want || rq[2..4] != [0, 0] || rq[4..8] != [0x21, 0x12, 0xA4, 0x42] {
                            viol!(acc, P, "builder_request-header", case, "builder_request(method) does not serialise a request header of that method", format!("{} 0000 2112a442 <id>", crate::refimpl::crypto::hex(&want)), fmt_bytes(&rq));
                        }
                        // the canned error responses go through the same fields
                        for (resp, code) in [(Message::bad_request(&msg).build(), 400u16), (Message::unknown_attributes(&msg, &[0x7F00.into()]).build(), 420)] {
                            let want = wire::join_type(3, m).to_be_bytes();
                            if resp.len() < 20 || resp[0..2] != want || resp[8..20] != b[8..20] {
                                viol!(acc, P, "error-response-type", case, format!("the canned {code} response does not carry the request's method and transaction id"), crate::refimpl::crypto::hex(&want), fmt_bytes(&resp));
                            }
                        }
                        for (resp, rc) in [(Message::builder_success(&msg).build(), 2u8), (Message::builder_error(&msg).build(), 3u8)] {
                            let want = wire::join_type(rc, m).to_be_bytes();
                            if resp.len() != 20 || resp[0..2] != want || resp[8..20] != b[8..20] {
                                viol!(acc, P, "response-builder-type", case, "builder_success / builder_error do not carry the request's method and transaction id under the RFC interleaving", crate::refimpl::crypto::hex(&want), fmt_bytes(&resp));
                            }
                        }
                    }
                }
            }
        }
        "generate" => {
            let n = case.args[0];
            acc.outcome_n("generate() observed (RNG observation, not enumeration)", n as u64);
            let mut prev: u128 = u128::MAX;
            for i in 0..n {
                let id = TransactionId::generate();
                let t: u128 = id.into();
                if t >> 96 != 0 {
                    viol!(acc, P, "generate-wide", case, "TransactionId::generate() produced an id wider than 96 bits", "< 2^96", format!("{t:#x} at call {i} of this thread"));
                    break;
                }
                if t == prev {
                    viol!(acc, P, "generate-repeats", case, "two consecutive TransactionId::generate() calls returned the same id", "different ids", format!("{t:#x} at calls {} and {i}", i - 1));
                    break;
                }
                prev = t;
                // every 4096th id (and the ones around powers of two of the call count) through a header
                if i % 4096 == 0 || (i & (i + 1)) == 0 || (i & (i - 1).max(0)) == 0 {
                    let b = Message::builder(MessageType::from_class_method(real::class_of(0), 1), id).build();
                    let want = &t.to_be_bytes()[4..16];
                    if b.len() != 20 || &b[8..20] != want {
                        viol!(acc, P, "generate-wire", case, "a generated id does not appear unchanged in the header of a message built with it", crate::refimpl::crypto::hex(want), fmt_bytes(&b));
                        break;
                    }
                }
            }
        }
        "oversize" => {
            let (c, m) = (case.args[0] as u8, case.args[1] as u16);
            acc.outcome("oversize body");
            let tidv: u128 = 0x8001_0203_0405_0607_0809_0A0B;
            for total in [70_000usize, 140_000] {
                let mut b = real::builder(c, m, tidv);
                let blob = vec![0x33u8; 30_000];
                let mut n = 0u16;
                let mut size = 0usize;
                while size < total {
                    b.add_raw_attribute(stun_types::attribute::RawAttribute::new((0xC100 + n).into(), &blob)).unwrap();
                    n += 1;
                    size += 30_004;
                }
                let built = b.build();
                let mut dest = vec![0u8; built.len()];
                let w = b.write_into(&mut dest);
                let want = wire::join_type(c, m).to_be_bytes();
                for (how, bytes) in [("build", &built), ("write_into", &dest)] {
                    if bytes.len() < 20 || bytes[0..2] != want || bytes[4..8] != [0x21, 0x12, 0xA4, 0x42] || bytes[8..20] != tidv.to_be_bytes()[4..16] {
                        viol!(acc, P, "oversize-body-header", case, format!("{how}() of a message with a body beyond 64 KiB writes a wrong type field / cookie / transaction id"), format!("{} 2112a442 {}", crate::refimpl::crypto::hex(&want), crate::refimpl::crypto::hex(&tidv.to_be_bytes()[4..16])), crate::refimpl::crypto::hex(&bytes[..20.min(bytes.len())]));
                    }
                }
                let _ = w;
            }
        }
        "tid" => {
            let mut a = [0u8; 16];
            a.copy_from_slice(&case.data);
            let x = u128::from_be_bytes(a);
            let mask = (1u128 << 96) - 1;
            acc.outcome("transaction id");
            let t = TransactionId::from(x);
            let back: u128 = t.into();
            if back != x & mask {
                viol!(acc, P, "tid-mask", case, "conversion from a wider integer does not keep the low 96 bits", format!("{:#x}", x & mask), format!("{back:#x}"));
            }
            let _ = format!("{t} {t:?}");
            // ids that differ in any of the 96 bits are different ids (Eq / Hash), ids that differ
            // only above bit 95 are the same id
            {
                use std::collections::HashSet;
                let mut set: HashSet<TransactionId> = HashSet::new();
                set.insert(t);
                for bit in 0..96 {
                    let u = TransactionId::from(x ^ (1u128 << bit));
                    if u == t || set.contains(&u) {
                        viol!(acc, P, "tid-equality", case, "two transaction ids that differ in one of their 96 bits compare (or hash) equal", "different", format!("equal with bit {bit} flipped"));
                        break;
                    }
                }
                let same = TransactionId::from(x ^ (1u128 << 100));
                if same != t || !set.contains(&same) {
                    viol!(acc, P, "tid-equality", case, "ids equal in their low 96 bits do not compare (or hash) equal", "equal", "different");
                }
            }
            for class in [0u8, 2] {
                let b = real::builder(class, 1, x).build();
                let want_tail = &(x & mask).to_be_bytes()[4..16];
                if b.len() != 20 || b[4..8] != [0x21, 0x12, 0xA4, 0x42] || &b[8..20] != want_tail {
                    viol!(acc, P, "tid-placement", case, "cookie at 4..8 / id big-endian at 8..20 violated", format!("2112a442 {}", crate::refimpl::crypto::hex(want_tail)), fmt_bytes(&b));
                    continue;
                }
                match (Message::from_bytes(&b), MessageHeader::from_bytes(&b)) {
                    (Ok(m), Ok(h)) => {
                        let mt: u128 = m.transaction_id().into();
                        let ht: u128 = h.transaction_id().into();
                        if mt != x & mask || ht != x & mask {
                            viol!(acc, P, "tid-readback", case, "transaction id read back differs", format!("{:#x}", x & mask), format!("message {mt:#x} header {ht:#x}"));
                        }
                        let bt: u128 = real::builder(class, 1, x).transaction_id().into();
                        if bt != x & mask {
                            viol!(acc, P, "tid-builder-getter", case, "MessageBuilder::transaction_id differs", format!("{:#x}", x & mask), format!("{bt:#x}"));
                        }
                    }
                    (a, b2) => viol!(acc, P, "tid-message-rejected", case, "a built message does not parse", "Ok", format!("{:?} / {:?}", a.err(), b2.err())),
                }
            }
        }
        other => panic!("harness: unknown C19 op {other}"),
    }
}
