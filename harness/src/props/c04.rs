//! C04 — integrity: sealed messages verify, anything else does not.
//! Engine IN, fault enumeration: every single-bit flip and every byte substitution of the covered
//! range of every sealed buffer, alternative keys, truncated SHA-256 values, unsealed bodies.

use crate::common::*;
use crate::engine_in::prog::{self, Op, Prog};
use crate::props::judge_guarded;
use crate::real::{self, PErr};
use crate::refimpl::attrs::Kind;
use crate::refimpl::wire::{self, Creds};
use crate::viol;
use rayon::prelude::*;
use serde_json::json;
use stun_types::message::Message;

const P: &str = "C04";

pub fn creds_text(c: &Creds) -> String {
    match c {
        Creds::Short(p) => format!("S:{p}"),
        Creds::Long { user, realm, pass } => format!("L:{user}\u{1f}{realm}\u{1f}{pass}"),
    }
}

pub fn creds_parse(s: &str) -> Creds {
    if let Some(p) = s.strip_prefix("S:") {
        Creds::Short(p.to_string())
    } else {
        let parts: Vec<&str> = s[2..].split('\u{1f}').collect();
        Creds::Long { user: parts[0].into(), realm: parts[1].into(), pass: parts[2].into() }
    }
}

/// near-miss keys for credentials `c`
fn alternatives(c: &Creds) -> Vec<Creds> {
    let mut v = vec![Creds::Short("other".into()), Creds::Short("".into()), Creds::Long { user: "x".into(), realm: "y".into(), pass: "z".into() }];
    match c {
        Creds::Short(p) => {
            v.push(Creds::Short(format!("{p} ")));
            v.push(Creds::Short(p.to_uppercase()));
            v.push(Creds::Short(format!("{p}\0")));
            v.push(Creds::Short(p.chars().rev().collect()));
            v.push(Creds::Long { user: "user".into(), realm: "realm".into(), pass: p.clone() });
            v.push(Creds::Long { user: "".into(), realm: "".into(), pass: p.clone() });
            if !p.is_empty() {
                v.push(Creds::Short(p[..p.len() - p.chars().last().unwrap().len_utf8()].to_string()));
            }
            // keys sharing a prefix of the size of a digest / of the HMAC block (RFC 2104: a key
            // longer than the block is hashed, never cut)
            for n in [16usize, 20, 32, 63, 64, 65, 128] {
                if p.len() > n && p.is_char_boundary(n) {
                    v.push(Creds::Short(p[..n].to_string()));
                    v.push(Creds::Short(format!("{}#", &p[..n])));
                }
            }
            v.push(Creds::Short(format!("{p}x")));
        }
        Creds::Long { user, realm, pass } => {
            v.push(Creds::Short(pass.clone()));
            v.push(Creds::Long { user: realm.clone(), realm: user.clone(), pass: pass.clone() });
            v.push(Creds::Long { user: user.clone(), realm: realm.clone(), pass: format!("{pass} ") });
            v.push(Creds::Long { user: user.to_uppercase(), realm: realm.clone(), pass: pass.clone() });
            v.push(Creds::Long { user: user.clone(), realm: format!("{realm}."), pass: pass.clone() });
            v.push(Creds::Long { user: format!("{user}:"), realm: realm.clone(), pass: pass.clone() });
            v.push(Creds::Short(format!("{user}:{realm}:{pass}")));
        }
    }
    // normalisation near-misses: a derivation that trims, unquotes, case-folds or otherwise
    // "cleans" one of the parts makes the cleaned and the original credentials collide
    let clean = |x: &str| -> Vec<String> {
        let mut o = vec![x.trim().to_string(), x.trim_matches('"').to_string(), x.trim_matches('\'').to_string(), x.to_lowercase(), x.to_uppercase(), x.trim_end_matches('.').to_string(), x.replace(' ', ""), format!("\"{x}\""), format!(" {x}"), format!("{x}\n"), x.replace('\u{e9}', "e")];
        // Unicode near-misses (string-preparation profiles map or fold these): spaces of other kinds,
        // composed vs decomposed characters, width variants, a soft hyphen / zero-width joiner inside
        for (a, b) in [(" ", "\u{a0}"), ("\u{a0}", " "), (" ", "\u{3000}"), ("\u{3000}", " "), ("\u{2003}", " "), ("\u{e9}", "e\u{301}"), ("e\u{301}", "\u{e9}"), ("\u{e4}", "a\u{308}"), ("a", "\u{ff41}"), ("-", "\u{2010}"), ("s", "\u{17f}")] {
            if x.contains(a) {
                o.push(x.replace(a, b));
            }
        }
        if !x.is_empty() {
            let mid = x.char_indices().nth(x.chars().count() / 2).map(|(i, _)| i).unwrap_or(0);
            o.push(format!("{}\u{ad}{}", &x[..mid], &x[mid..]));
            o.push(format!("{}\u{200d}{}", &x[..mid], &x[mid..]));
        }
        o.retain(|y| y != x);
        o
    };
    match c {
        Creds::Short(p) => {
            for q in clean(p) {
                v.push(Creds::Short(q));
            }
        }
        Creds::Long { user, realm, pass } => {
            for q in clean(user) {
                v.push(Creds::Long { user: q, realm: realm.clone(), pass: pass.clone() });
            }
            for q in clean(realm) {
                v.push(Creds::Long { user: user.clone(), realm: q, pass: pass.clone() });
            }
            for q in clean(pass) {
                v.push(Creds::Long { user: user.clone(), realm: realm.clone(), pass: q });
            }
        }
    }
    // keys that collide by construction (user:realm:pass is ambiguous when parts contain ':') and
    // credentials equal to the original are not alternatives
    let k = c.key();
    v.retain(|a| a.key() != k);
    v
}

fn bodies() -> Vec<Vec<Op>> {
    vec![
        vec![],
        vec![Op::Typed(Kind::Software, b"a".to_vec())],
        vec![Op::Typed(Kind::Software, b"abc".to_vec())],
        vec![Op::Typed(Kind::Username, b"evtj:h6vY".to_vec())],
        vec![Op::Raw(0xFF00, vec![1, 2, 3, 4, 5])],
        vec![Op::Typed(Kind::Username, b"u".to_vec()), Op::Typed(Kind::Realm, b"re".to_vec())],
        vec![Op::Typed(Kind::UnknownAttributes, vec![0, 6]), Op::Typed(Kind::Priority, vec![0, 0, 1, 2])],
        vec![Op::Raw(0x7F00, vec![]), Op::Typed(Kind::Nonce, b"nonce-1".to_vec())],
        // the attributes of the RFC 8489 long-term credential flow: what a message says about password
        // algorithms does not change the key the property pins (MD5(user:realm:password)); seed C04-o
        vec![Op::Typed(Kind::Username, b"user".to_vec()), Op::Typed(Kind::Realm, b"realm.example".to_vec()), Op::Typed(Kind::Nonce, b"obMatJos2AAACf//499k954d6OL34oL9FSTvy64sA".to_vec()), Op::Typed(Kind::PasswordAlgorithm, vec![0, 2, 0, 0])],
        vec![Op::Typed(Kind::Userhash, (1..=32).collect()), Op::Typed(Kind::PasswordAlgorithm, vec![0, 1, 0, 0]), Op::Typed(Kind::PasswordAlgorithms, vec![0, 1, 0, 0, 0, 2, 0, 0])],
    ]
}

pub fn run(ctx: &Ctx) -> Report {
    let creds = prog::creds_alphabet();
    let tid: u128 = ((ctx.seeded(40) as u128) << 24 | 0x55) & ((1u128 << 96) - 1);
    // sealed buffers: (buffer, creds, description)
    let mut sealed: Vec<(Vec<u8>, Creds, String)> = Vec::new();
    let mut unsealed: Vec<Vec<u8>> = Vec::new();
    for (bi, body) in bodies().iter().enumerate() {
        for with_fp in [false, true] {
            // unsealed
            let mut ops = body.clone();
            if with_fp {
                ops.push(Op::Fp);
            }
            if let Ok(b) = crate::props::c03::build_prog(&Prog { class: (bi % 4) as u8, method: 1, tid, ops }) {
                unsealed.push(b.bytes);
            }
            for (ci, c) in creds.iter().enumerate() {
                for seal in [vec![Op::Sha1(ci as u8)], vec![Op::Sha256(ci as u8)], vec![Op::Sha1(ci as u8), Op::Sha256(ci as u8)]] {
                    // (1) by the real builder
                    let mut ops = body.clone();
                    ops.extend(seal.clone());
                    if with_fp {
                        ops.push(Op::Fp);
                    }
                    let p = Prog { class: (bi % 4) as u8, method: 1, tid, ops };
                    if let Ok(b) = crate::props::c03::build_prog(&p) {
                        if b.results.iter().all(|r| r.is_ok()) {
                            sealed.push((b.bytes, c.clone(), format!("builder body{bi} {} fp={with_fp}", seal.iter().map(|o| o.to_text()).collect::<Vec<_>>().join("+"))));
                        }
                    }
                    // the same program serialised with write_into() into a buffer that holds other
                    // bytes already, as built and after into_owned() (what goes on the wire must be
                    // what was sealed, whichever serialisation path the caller uses)
                    if ci < 2 {
                        let mut outs: Vec<Vec<u8>> = Vec::new();
                        let n = p.ops.len();
                        let _ = prog::execute(&p, |i, _, b| {
                            if i + 1 == n {
                                for owned in [false, true] {
                                    let bb = if owned { b.clone().into_owned() } else { b.clone() };
                                    let mut dest = vec![0xA5u8; bb.byte_len() + 7];
                                    if let Ok(w) = bb.write_into(&mut dest) {
                                        dest.truncate(w);
                                        outs.push(dest);
                                    }
                                }
                            }
                        });
                        for o in outs {
                            sealed.push((o, c.clone(), format!("builder body{bi} write_into a used buffer")));
                        }
                    }
                }
            }
        }
    }
    // (1d) sealing after what may have happened on this thread before: a panic caught inside each of the
    // library's serialising calls (unwinding through them), an unrelated message sealed, an application
    // attribute that seals an inner message of its own while the outer one is sealed
    for pre in [vec![Op::Poison(8)], vec![Op::Poison(9)], vec![Op::Poison(10)], vec![Op::Poison(11)], vec![Op::Poison(12)], vec![Op::Elsewhere(0)], vec![Op::Nested(0)], vec![Op::Nested(1)], vec![Op::Elsewhere(1), Op::CustomLazy(2)]] {
        for (ci, c) in creds.iter().enumerate().take(3) {
            for seal in [vec![Op::Sha1(ci as u8)], vec![Op::Sha256(ci as u8)], vec![Op::Sha1(ci as u8), Op::Sha256(ci as u8)]] {
                for with_fp in [false, true] {
                    let mut ops = pre.clone();
                    ops.extend(bodies()[1].clone());
                    ops.extend(seal.clone());
                    if with_fp {
                        ops.push(Op::Fp);
                    }
                    let p = Prog { class: 0, method: 1, tid, ops };
                    if let Ok(b) = crate::props::c03::build_prog(&p) {
                        if b.results.iter().all(|r| r.is_ok()) {
                            sealed.push((b.bytes, c.clone(), format!("after {} fp={with_fp}", pre.iter().map(|o| o.to_text()).collect::<Vec<_>>().join("+"))));
                        }
                    }
                }
            }
        }
    }
    // (1c) cross product of the dimensions the families above vary one at a time: class x method x
    // credentials x sealing x fingerprint x two bodies, by the real builder ("light": original, bit
    // flips of the type / length field and of the integrity attributes, alternative HMAC values and keys)
    for class in 0..4u8 {
        for method in [0u16, 1, 0x0FFF] {
            for (ci, c) in creds.iter().enumerate() {
                for seal in [vec![Op::Sha1(ci as u8)], vec![Op::Sha256(ci as u8)], vec![Op::Sha1(ci as u8), Op::Sha256(ci as u8)]] {
                    for with_fp in [false, true] {
                        for body in [0usize, 3, 7] {
                            let mut ops = bodies()[body].clone();
                            ops.extend(seal.clone());
                            if with_fp {
                                ops.push(Op::Fp);
                            }
                            let p = Prog { class, method, tid: tid ^ ((class as u128) << 90), ops };
                            if let Ok(b) = crate::props::c03::build_prog(&p) {
                                if b.results.iter().all(|r| r.is_ok()) {
                                    sealed.push((b.bytes, c.clone(), format!("cross class{class} method{method:#x} body{body} fp={with_fp}")));
                                }
                            }
                        }
                    }
                }
            }
        }
    }
    // (2) by the reference serialiser: truncated SHA-256 values and orders the builder refuses
    let mut ref_sealed: Vec<(Vec<u8>, Creds, String)> = Vec::new();
    for c in creds.iter().take(2) {
        let key = c.key();
        for n in [12usize, 16, 18, 20, 24, 28, 32, 36] {
            for lead in [false, true] {
                let mut b = wire::encode_msg(0, 1, tid, &[(0x8022, b"abc".to_vec())]);
                if lead {
                    wire::append_mi(&mut b, &key);
                }
                // n > 32 cannot be produced by the helper; emulate by appending bytes to a full value
                if n <= 32 {
                    wire::append_mi256(&mut b, &key, n);
                } else {
                    let off = b.len();
                    let mut h = crate::refimpl::crypto::hmac_sha256(&key, &wire::hmac_input(&b, off, n)).to_vec();
                    h.extend(vec![0u8; n - 32]);
                    wire::append_raw(&mut b, wire::MI256, &h);
                }
                // the same followed by a FINGERPRINT (seed C04-n: a 24-byte SHA-256 value + FINGERPRINT leaves
                // as many bytes as a full SHA-256 attribute in last position)
                let mut bf = b.clone();
                wire::append_fp(&mut bf);
                ref_sealed.push((b, c.clone(), format!("reference MI256/{n} lead_mi={lead}")));
                ref_sealed.push((bf, c.clone(), format!("reference MI256/{n} lead_mi={lead} + FP")));
            }
        }
        // MI256 before MI (builder refuses this order), both correct
        let mut b = wire::encode_msg(2, 1, tid, &[(0x0006, b"u".to_vec())]);
        wire::append_mi256(&mut b, &key, 32);
        wire::append_mi(&mut b, &key);
        wire::append_fp(&mut b);
        ref_sealed.push((b, c.clone(), "reference MI256 then MI then FP".into()));
        // mixed correctness
        let mut b = wire::encode_msg(0, 1, tid, &[]);
        wire::append_mi(&mut b, b"some other key");
        wire::append_mi256(&mut b, &key, 32);
        ref_sealed.push((b, c.clone(), "reference MI(wrong key) then MI256(correct)".into()));
        let mut b = wire::encode_msg(0, 1, tid, &[]);
        wire::append_mi(&mut b, &key);
        wire::append_mi256(&mut b, b"some other key", 32);
        ref_sealed.push((b, c.clone(), "reference MI(correct) then MI256(wrong key)".into()));
    }
    // (2b) decorated credentials (quotes, blanks, trailing dot, mixed case, non-ASCII, other kinds of spaces, composed / decomposed and width variants in each part) with their cleaned, folded and re-spelled forms as alternative keys; key-length sweep: short-term passwords of every length 0..=140 (around the digest sizes
    // and the 64-byte HMAC block) and long-term credentials with long parts, sealed by the real
    // builder and by the reference serialiser
    let mut sweep_creds: Vec<Creds> = Vec::new();
    for len in 0..=140usize {
        let pw: String = (0..len).map(|i| (b'a' + ((i * 7 + len) % 26) as u8) as char).collect();
        sweep_creds.push(Creds::Short(pw));
    }
    for len in [0usize, 1, 30, 63, 64, 65, 100, 200] {
        let part = |salt: usize| -> String { (0..len).map(|i| (b'A' + ((i * 3 + salt) % 26) as u8) as char).collect() };
        sweep_creds.push(Creds::Long { user: part(1), realm: part(2), pass: part(3) });
        sweep_creds.push(Creds::Long { user: "u".into(), realm: "r".into(), pass: part(4) });
    }
    // decorated parts: quotes, surrounding blanks, trailing dot, mixed case, non-ASCII
    for d in ["\"quoted\"", "'single'", " padded ", "Trailing.", "MiXeD", "caf\u{e9}", "a b", "tab\t", "\"", "\"\"", "no\u{a0}break", "ideo\u{3000}graphic", "em\u{2003}space", "cafe\u{301}", "\u{ff41}bc", "soft\u{ad}hyphen", "stra\u{df}e", "\u{17f}harp",
        // texts that look like an already-derived key or an encoded secret (a "convenience" that takes
        // them literally changes the key)
        "0x000102030405060708090a0b0c0d0e0f", "0X000102030405060708090A0B0C0D0E0F", "000102030405060708090a0b0c0d0e0f", "0x000102030405060708090a0b0c0d0e0f101112131415161718191a1b1c1d1e1f",
        "md5:000102030405060708090a0b0c0d0e0f", "AAECAwQFBgcICQoLDA0ODw==", "base64:AAECAwQFBgcICQoLDA0ODw==", "{MD5}AAECAwQFBgcICQoLDA0ODw==", "$1$salt$hash", "%70%61%73%73", "pass\\x00word", "0x", "0"] {
        sweep_creds.push(Creds::Short(d.to_string()));
        sweep_creds.push(Creds::Long { user: d.to_string(), realm: "realm".into(), pass: "pass".into() });
        sweep_creds.push(Creds::Long { user: "user".into(), realm: d.to_string(), pass: "pass".into() });
        sweep_creds.push(Creds::Long { user: "user".into(), realm: "realm".into(), pass: d.to_string() });
    }
    for c in &sweep_creds {
        let key = c.key();
        let rc = real::creds(c);
        for algo in 0..3u8 {
            // by the reference serialiser
            let mut b = wire::encode_msg(0, 1, tid, &[(0x8022, b"ab".to_vec())]);
            if algo != 1 {
                wire::append_mi(&mut b, &key);
            }
            if algo != 0 {
                wire::append_mi256(&mut b, &key, 32);
            }
            ref_sealed.push((b, c.clone(), format!("reference key sweep algo{algo}")));
            // by the real builder
            let sw = stun_types::attribute::Software::new("ab").unwrap();
            let mut mb = real::builder(0, 1, tid);
            mb.add_attribute(&sw).unwrap();
            if algo != 1 {
                mb.add_message_integrity(&rc, stun_types::message::IntegrityAlgorithm::Sha1).unwrap();
            }
            if algo != 0 {
                mb.add_message_integrity(&rc, stun_types::message::IntegrityAlgorithm::Sha256).unwrap();
            }
            sealed.push((mb.build(), c.clone(), format!("builder key sweep algo{algo}")));
        }
    }
    // interleavings: operation A under credentials X stopped at each of its tracing points while
    // operation B under credentials Y runs to completion on another thread (engine_in::preempt)
    let mut inter: Vec<Case> = Vec::new();
    for ak in 0..4i64 {
        for ac in [0i64, 3] {
            let ca = il_creds(ac);
            let (n_points, _) = crate::engine_in::preempt::count_points(|| il_op(ak, &ca));
            for k in 0..n_points {
                for (bk, bc) in [(0i64, 1i64), (1, 1), (2, 1), (2, 2), (0, 4), (2, 4), (3, 1), (2, 0)] {
                    inter.push(Case::new("interleave", vec![]).args(&[k as i64, ak, ac, bk, bc]));
                }
            }
        }
    }
    let n_inter = inter.len();
    // one at a time: the scheduler stops a thread at a time and nothing else should run the library
    let mut acc_inter = Acc::default();
    for c in &inter {
        judge_guarded(judge, c, &mut acc_inter);
    }
    let n_sealed = sealed.len() + ref_sealed.len();
    let thorough = ctx.tier == Tier::Thorough;
    let mut all: Vec<(Vec<u8>, Creds, String, bool)> = sealed.into_iter().map(|(b, c, d)| (b, c, d, true)).collect();
    all.extend(ref_sealed.into_iter().map(|(b, c, d)| (b, c, d, false)));
    let acc1 = all
        .par_iter()
        .enumerate()
        .fold(Acc::default, |mut acc, (i, (buf, c, desc, by_builder))| {
            let ct = creds_text(c);
            let base = Case::new("validate", buf.clone()).text(&[&ct, "original"]);
            if i % 97 == 0 {
                acc.sample(json!({"what": desc, "case": base.brief()}));
            }
            acc.nontrivial += 1;
            judge_guarded(judge, &base, &mut acc);
            // covered range: header through the end of the last integrity attribute
            let Ok(m) = wire::decode(buf) else { return acc };
            let end = m.attrs.iter().filter(|a| wire::is_integrity(a.typ)).map(|a| a.end()).max().unwrap_or(20);
            // whoever can alter a message can also recompute the (unkeyed) FINGERPRINT behind the
            // integrity attributes: every corrupted buffer of a fingerprinted message is judged as it
            // is (the parser refuses it on the CRC) and once more with the CRC made right again, so
            // that the verdict is the integrity check's
            let fp_off = m.attrs.last().filter(|a| a.typ == wire::FP && a.offset >= end).map(|a| a.offset);
            let refp = |b: &[u8]| -> Option<Vec<u8>> {
                let fo = fp_off?;
                if b.len() < fo + 8 {
                    return None;
                }
                let v = wire::fingerprint_value(b, fo).to_be_bytes();
                if b[fo + 4..fo + 8] == v {
                    return None;
                }
                let mut b2 = b.to_vec();
                b2[fo + 4..fo + 8].copy_from_slice(&v);
                Some(b2)
            };
            // (3b) every pair of bit flips inside the value of an integrity attribute (a comparison that
            // accumulates differences instead of OR-ing them lets two coordinated flips cancel)
            if desc.starts_with("builder body0 ") || desc.starts_with("builder body1 ") {
                for a in m.attrs.iter().filter(|a| wire::is_integrity(a.typ)) {
                    let (v0, nbits) = (a.offset + 4, a.len * 8);
                    for i in 0..nbits {
                        for j in i + 1..nbits {
                            let mut b = buf.clone();
                            b[v0 + i / 8] ^= 0x80 >> (i % 8);
                            b[v0 + j / 8] ^= 0x80 >> (j % 8);
                            judge_guarded(judge, &mutant_case(buf, b, &ct, "bitpair"), &mut acc);
                        }
                    }
                }
            }
            // (3) single-bit flips and all byte substitutions
            let light = desc.starts_with("cross ");
            let in_integrity = |pos: usize| m.attrs.iter().any(|a| wire::is_integrity(a.typ) && pos >= a.offset && pos < a.end());
            for pos in 0..end {
                if light && !(pos < 4 || in_integrity(pos)) {
                    continue;
                }
                for bit in 0..8 {
                    let mut b = buf.clone();
                    b[pos] ^= 1 << bit;
                    if let Some(b2) = refp(&b) {
                                judge_guarded(judge, &mutant_case(buf, b2, &ct, "bitflip"), &mut acc);
                            }
                            judge_guarded(judge, &mutant_case(buf, b, &ct, "bitflip"), &mut acc);
                }
                for v in 0..=255u8 {
                    if light || v == buf[pos] || (v ^ buf[pos]).count_ones() == 1 {
                        continue;
                    }
                    let mut b = buf.clone();
                    b[pos] = v;
                    if let Some(b2) = refp(&b) {
                                judge_guarded(judge, &mutant_case(buf, b2, &ct, "bytesub"), &mut acc);
                            }
                            judge_guarded(judge, &mutant_case(buf, b, &ct, "bytesub"), &mut acc);
                }
            }
            if thorough && *by_builder && i % 7 == 0 {
                // pairs: a length-field bit together with any other bit of the covered range
                for lb in 0..16 {
                    for pos in 4..end {
                        for bit in 0..8 {
                            let mut b = buf.clone();
                            b[2 + lb / 8] ^= 1 << (lb % 8);
                            b[pos] ^= 1 << bit;
                            if let Some(b2) = refp(&b) {
                                judge_guarded(judge, &mutant_case(buf, b2, &ct, "pair"), &mut acc);
                            }
                            judge_guarded(judge, &mutant_case(buf, b, &ct, "pair"), &mut acc);
                        }
                    }
                }
            }
            // (3b) plausible *alternative* HMAC values in each integrity attribute (a validator that
            // accepts a second computation "for interoperability" shows here): HMAC over the buffer
            // with the length field as transmitted, with the length excluding the attribute, over
            // the whole message, without the header, or with the other hash truncated
            {
                let key = c.key();
                for a in m.attrs.iter().filter(|a| wire::is_integrity(a.typ)) {
                    let off = a.offset;
                    let mut inputs: Vec<Vec<u8>> = Vec::new();
                    inputs.push(buf[..off].to_vec()); // length field as on the wire
                    let mut x = buf[..off].to_vec();
                    wire::set_len(&mut x, off - 20); // length excluding the integrity attribute
                    inputs.push(x);
                    let mut x = buf[..off].to_vec();
                    wire::set_len(&mut x, off + 4 + 32 - 20);
                    inputs.push(x);
                    inputs.push(buf.to_vec()); // everything
                    inputs.push(buf[20..off].to_vec()); // body only
                    let mut x = wire::hmac_input(buf, off, a.len);
                    x.truncate(off.min(x.len()));
                    x.extend_from_slice(&[0u8; 4]);
                    inputs.push(x); // padded with zeros (RFC 3489bis-style 64-byte padding idea, shortened)
                    for inp in inputs {
                        let alt: Vec<u8> = if a.typ == wire::MI {
                            crate::refimpl::crypto::hmac_sha1(&key, &inp).to_vec()
                        } else {
                            crate::refimpl::crypto::hmac_sha256(&key, &inp)[..a.len.min(32)].to_vec()
                        };
                        if alt.len() == a.len && alt[..] != a.value[..] {
                            let mut b = buf.clone();
                            b[off + 4..off + 4 + a.len].copy_from_slice(&alt);
                            if let Some(b2) = refp(&b) {
                                judge_guarded(judge, &mutant_case(buf, b2, &ct, "bytesub"), &mut acc);
                            }
                            judge_guarded(judge, &mutant_case(buf, b, &ct, "bytesub"), &mut acc);
                        }
                    }
                    // the other hash function under the same key
                    let cross: Vec<u8> = if a.typ == wire::MI {
                        crate::refimpl::crypto::hmac_sha256(&key, &wire::hmac_input(buf, off, a.len))[..20].to_vec()
                    } else {
                        let mut h = crate::refimpl::crypto::hmac_sha1(&key, &wire::hmac_input(buf, off, a.len)).to_vec();
                        h.resize(a.len, 0);
                        h
                    };
                    if cross.len() == a.len && cross[..] != a.value[..] {
                        let mut b = buf.clone();
                        b[off + 4..off + 4 + a.len].copy_from_slice(&cross);
                        if let Some(b2) = refp(&b) {
                                judge_guarded(judge, &mutant_case(buf, b2, &ct, "bytesub"), &mut acc);
                            }
                            judge_guarded(judge, &mutant_case(buf, b, &ct, "bytesub"), &mut acc);
                    }
                }
            }
            // (3c) CRC-preserving forgeries of fingerprinted messages: one covered byte changed and the
            // last four bytes in front of the FINGERPRINT (the tail of the HMAC) chosen so that the CRC,
            // and with it the FINGERPRINT value, stays what it was - no key needed
            if let Some(fo) = fp_off {
                if fo >= 28 && buf.len() == fo + 8 {
                    let target = crate::refimpl::crypto::crc32_fast(&buf[..fo]);
                    let positions: Vec<usize> = (0..fo - 4).filter(|p| *p == 1 || (8..20).contains(p) || *p >= 20).step_by(3).take(24).collect();
                    for pos in positions {
                        let mut b = buf.clone();
                        b[pos] ^= 0x10;
                        let (head, _) = b.split_at_mut(fo);
                        if force_crc(head, fo - 4, target) {
                            judge_guarded(judge, &mutant_case(buf, b, &ct, "crc-preserving"), &mut acc);
                        }
                    }
                }
            }
            // (4) alternative keys
            for a in alternatives(c) {
                judge_guarded(judge, &Case::new("validate", buf.clone()).text(&[&creds_text(&a), "altkey"]), &mut acc);
            }
            acc
        })
        .reduce(Acc::default, |a, b| a.merge(b));
    // (5) unsealed bodies under every credential
    let mut acc2 = Acc::default();
    for b in &unsealed {
        for c in &creds {
            judge_guarded(judge, &Case::new("validate", b.clone()).text(&[&creds_text(c), "unsealed"]), &mut acc2);
        }
    }
    let mut acc = acc1.merge(acc2).merge(acc_inter);
    // thread teardown: parse / validate / inspect of sealed, corrupted and truncated buffers in the body
    // of a thread and again from a thread-local destructor at its exit (child process)
    crate::teardown::judge(P, "parser", &mut acc);
    crate::teardown::callsite_sweep(P, "parser", &mut acc);
    crate::teardown::callsite_sweep(P, "builder", &mut acc);
    let _ = n_inter;
    Report {
        acc,
        exhaustive: true,
        rule: "10 bodies (two with the attributes of the long-term credential flow: PASSWORD-ALGORITHM SHA-256 / MD5, PASSWORD-ALGORITHMS, USERHASH, REALM, NONCE) x fingerprint yes/no x 8 credentials x {SHA-1, SHA-256, both} sealed by the real builder (plus the cross product 4 classes x 3 methods x 8 credentials x 3 sealings x fingerprint x 3 bodies with a reduced fault set: bit flips of the type / length field and of the integrity attributes, alternative HMAC values and keys) (build(), and write_into() a used buffer before / after into_owned()); reference-serialised messages with SHA-256 truncated to 12..36 bytes, MI256-before-MI order and mixed correctness; on each: every single-bit flip and every byte value at every position from offset 0 through the end of the last integrity attribute, plausible alternative HMAC values in each integrity attribute (other length fields, other ranges, the other hash), every corrupted buffer of a fingerprinted message also with its FINGERPRINT recomputed, CRC-preserving forgeries (a covered byte changed and the tail of the HMAC chosen so that the FINGERPRINT value stays), each corrupted copy validated right after its original, up to 25 near-miss keys (case, trailing space / NUL, prefixes of 16/20/32/63/64/65/128 bytes, other credential kind, swapped parts); decorated credentials (quotes, blanks, trailing dot, mixed case, non-ASCII in each part) with their cleaned forms as alternative keys; key-length sweep: short-term passwords of every length 0..=140 and long-term credentials with parts of 0..200 bytes x {SHA-1, SHA-256, both} x {builder, reference serialiser}; unsealed bodies x 8 credentials; single-preemption interleavings: validate (SHA-1 + FINGERPRINT, SHA-256), seal and parse under long- and short-term credentials stopped at every tracing point of the library while one of eight other operations under other credentials runs to completion on another thread; distinct_nontrivial = sealed buffers".into(),
        bounds: json!({"sealed_buffers": n_sealed, "unsealed": unsealed.len(), "faults": if thorough { "single bit, all byte values, length-bit x any-bit pairs" } else { "single bit, all byte values" }}),
        assumptions: vec!["HMAC-SHA1/SHA-256 collision resistance (no forgery that needs to break the MAC is explored)".into(), "keys outside the alternative-key alphabet are not explored".into()],
        ..Default::default()
    }
}

/// A corrupted copy `b` of the sealed message `orig`; the case records the original value of every
/// changed byte (up to 32 of them) so that the judgement can parse and validate the original first,
/// as a receiver of a retransmission would have, and the corrupted copy afterwards.
fn mutant_case(orig: &[u8], b: Vec<u8>, ct: &str, tag: &str) -> Case {
    let mut args = Vec::new();
    if orig.len() == b.len() && orig.len() <= 4096 {
        for (i, (x, y)) in orig.iter().zip(b.iter()).enumerate() {
            if x != y {
                args.push(i as i64);
                args.push(*x as i64);
            }
        }
        if args.len() > 64 {
            args.clear();
        }
    }
    Case::new("validate", b).text(&[ct, tag]).args(&args)
}

/// Solves for the 4 bytes at `q..q+4` of `p` such that CRC-32(p) becomes `target` (CRC-32 is affine
/// in those 32 bits, and for the last four bytes of the buffer the system is regular).
fn force_crc(p: &mut [u8], q: usize, target: u32) -> bool {
    let crc = |d: &[u8]| crate::refimpl::crypto::crc32_fast(d);
    let base = crc(p);
    let mut rows: Vec<(u32, u32)> = Vec::with_capacity(32); // (delta, which bit)
    for bit in 0..32usize {
        p[q + bit / 8] ^= 1 << (bit % 8);
        let d = crc(p) ^ base;
        p[q + bit / 8] ^= 1 << (bit % 8);
        rows.push((d, 1u32 << bit));
    }
    // Gaussian elimination over GF(2): express want = base ^ target as a combination of the deltas
    let mut want = base ^ target;
    let mut pick: u32 = 0;
    let mut basis: Vec<(u32, u32)> = Vec::new();
    for (mut d, mut m) in rows {
        for (bd, bm) in &basis {
            if d & (bd & bd.wrapping_neg()) != 0 {
                d ^= bd;
                m ^= bm;
            }
        }
        if d != 0 {
            basis.push((d, m));
        }
    }
    for (bd, bm) in &basis {
        if want & (bd & bd.wrapping_neg()) != 0 {
            want ^= bd;
            pick ^= bm;
        }
    }
    if want != 0 {
        return false;
    }
    for bit in 0..32usize {
        if pick >> bit & 1 == 1 {
            p[q + bit / 8] ^= 1 << (bit % 8);
        }
    }
    crc(p) == target
}

/// Credentials and operations of the interleaving family (engine_in::preempt).
fn il_creds(i: i64) -> Creds {
    match i {
        0 => Creds::Long { user: "alice".into(), realm: "example.org".into(), pass: "pw-alice".into() },
        1 => Creds::Long { user: "bob".into(), realm: "example.org".into(), pass: "pw-bob".into() },
        2 => Creds::Long { user: "alice".into(), realm: "example.org".into(), pass: "another".into() },
        3 => Creds::Short("short-one".into()),
        _ => Creds::Short("short-two".into()),
    }
}

/// One operation under credentials `c`: 0 validate a SHA-1 + FINGERPRINT message, 1 validate a SHA-256
/// message, 2 seal with the builder (SHA-1, SHA-256, FINGERPRINT) and compare with the reference bytes,
/// 3 parse a fingerprinted message.  Returns a description of what went wrong, if anything.
fn il_op(kind: i64, c: &Creds) -> Option<String> {
    let key = c.key();
    let tid: u128 = 0x0101_0202_0303_0404_0505_0606 ^ (key.len() as u128);
    match kind {
        0 | 1 => {
            let mut b = wire::encode_msg(2, 1, tid, &[(0x8022, b"interleave".to_vec())]);
            if kind == 0 {
                wire::append_mi(&mut b, &key);
                wire::append_fp(&mut b);
            } else {
                wire::append_mi256(&mut b, &key, 32);
            }
            match Message::from_bytes(&b) {
                Err(e) => Some(format!("parse failed: {e:?}")),
                Ok(m) => match m.validate_integrity(&real::creds(c)) {
                    Ok(_) => None,
                    Err(e) => Some(format!("validate_integrity of a correctly sealed message: {e:?}")),
                },
            }
        }
        2 => {
            let rc = real::creds(c);
            let mut mb = real::builder(0, 1, tid);
            let sw = stun_types::attribute::Software::new("interleave").unwrap();
            mb.add_attribute(&sw).unwrap();
            if mb.add_message_integrity(&rc, stun_types::message::IntegrityAlgorithm::Sha1).is_err() || mb.add_message_integrity(&rc, stun_types::message::IntegrityAlgorithm::Sha256).is_err() || mb.add_fingerprint().is_err() {
                return Some("sealing refused".into());
            }
            let got = mb.build();
            let mut want = wire::encode_msg(0, 1, tid, &[(0x8022, b"interleave".to_vec())]);
            wire::append_mi(&mut want, &key);
            wire::append_mi256(&mut want, &key, 32);
            wire::append_fp(&mut want);
            if got == want {
                None
            } else {
                Some(format!("sealed bytes differ from the reference: {}", fmt_bytes(&got)))
            }
        }
        _ => {
            let mut b = wire::encode_msg(1, 1, tid, &[(0x0006, key.clone())]);
            wire::append_fp(&mut b);
            Message::from_bytes(&b).err().map(|e| format!("parse of a fingerprinted message failed: {e:?}"))
        }
    }
}

pub fn judge(case: &Case, acc: &mut Acc) {
    acc.evaluations += 1;
    if case.op == "interleave" {
        // args: k (tracing point of A at which B runs), A kind, A credentials, B kind, B credentials
        let (k, ak, ac, bk, bc) = (case.args[0] as usize, case.args[1], case.args[2], case.args[3], case.args[4]);
        acc.validated += 1;
        acc.outcome("interleaving at a tracing point");
        let ca = il_creds(ac);
        let cb = il_creds(bc);
        let (ra, rb) = crate::engine_in::preempt::interleave(k, || il_op(ak, &ca), move || il_op(bk, &cb));
        if let Some(w) = ra {
            viol!(acc, P, "interleaving/preempted-operation", case, format!("an operation under credentials #{ac} that was preempted at its tracing point {k} by an operation under credentials #{bc} on another thread went wrong"), "the result it gives alone", w);
        }
        if let Some(Some(w)) = rb {
            viol!(acc, P, "interleaving/preempting-operation", case, format!("an operation under credentials #{bc} that ran while another thread was stopped at tracing point {k} of an operation under credentials #{ac} went wrong"), "the result it gives alone", w);
        }
        return;
    }
    let buf = &case.data;
    let c = creds_parse(&case.text[0]);
    let tag = case.text.get(1).map(|s| s.as_str()).unwrap_or("?");
    let key = c.key();
    // the uncorrupted original is parsed and validated first (what a memo of "the last message that
    // validated" would have been filled with)
    if !case.args.is_empty() {
        let mut orig = buf.clone();
        for pv in case.args.chunks(2) {
            if let [p, v] = pv {
                if (*p as usize) < orig.len() {
                    orig[*p as usize] = *v as u8;
                }
            }
        }
        if let Ok(m0) = Message::from_bytes(&orig) {
            let _ = m0.validate_integrity(&real::creds(&c));
        }
    }
    let msg = match Message::from_bytes(buf) {
        Ok(m) => m,
        Err(_) => {
            acc.outcome("rejected by the parser");
            return;
        }
    };
    acc.validated += 1;
    let got = msg.validate_integrity(&real::creds(&c)).map(real::alg_num).map_err(PErr::from);
    let reference = wire::decode(buf);
    // classification by the reference
    let (present, correct): (Vec<&wire::RefAttr>, Vec<&wire::RefAttr>) = match &reference {
        Ok(m) => {
            let pres: Vec<&wire::RefAttr> = wire::exposed(&m.attrs).into_iter().map(|i| &m.attrs[i]).filter(|a| wire::is_integrity(a.typ)).collect();
            let cor = pres.iter().copied().filter(|a| wire::integrity_ok(buf, a, &key)).collect();
            (pres, cor)
        }
        Err(_) => (vec![], vec![]),
    };
    match got {
        Ok(alg) => {
            let fine_lenient = reference.is_ok() && correct.iter().any(|a| a.typ == alg);
            // single faults of a buffer that was sealed correctly under every algorithm it carries:
            // "after changing any byte up to and including the integrity attribute ... fails
            // validation" — for a message sealed with both algorithms that covers both attributes,
            // so a success is admissible only if no exposed integrity attribute was damaged
            let faulted = matches!(tag, "bitflip" | "bytesub" | "pair" | "bitpair" | "crc-preserving");
            let fine = fine_lenient && (!faulted || correct.len() == present.len());
            if fine_lenient && !fine {
                acc.outcome("VIOLATION: validates although an integrity attribute was corrupted");
                viol!(acc, P, &format!("validates-with-corrupted-integrity-attribute/{tag}"), case, "validate_integrity succeeds although one of the integrity attributes of the sealed message was corrupted (only the other one is verified)", "parser rejection or a validation error", format!("Ok({alg:#06x}); reference: {} integrity attribute(s) exposed, {} still correct", present.len(), correct.len()));
            } else if fine {
                acc.outcome("validates (attribute present and correct per reference)");
            } else {
                acc.outcome("VIOLATION: validates although not correctly sealed");
                let clause = if reference.is_err() { format!("validates-malformed/{tag}") } else if present.iter().any(|a| a.typ == alg) { format!("validates-wrong-hmac/{tag}") } else { format!("reports-absent-algorithm/{tag}") };
                viol!(acc, P, &clause, case, "validate_integrity succeeds on a buffer that is not correctly sealed for these credentials", "parser rejection or a validation error", format!("Ok({alg:#06x}); reference: {}", match &reference { Ok(_) => format!("{} integrity attribute(s) exposed, {} correct", present.len(), correct.len()), Err(e) => format!("not well-formed ({})", e.why) }));
            }
        }
        Err(e) => {
            if reference.is_ok() && !present.is_empty() && correct.len() == present.len() {
                acc.outcome("VIOLATION: correctly sealed message fails");
                viol!(acc, P, &format!("sealed-fails/{tag}"), case, "validation fails although every integrity attribute present is correct for these credentials", "Ok(algorithm)", format!("{e:?}"));
            } else if reference.is_ok() && m_has_no_integrity(&reference) {
                if matches!(e, PErr::MissingAttribute(_)) {
                    acc.outcome("no integrity attribute: reported missing");
                } else {
                    acc.outcome("VIOLATION: missing integrity not reported as missing");
                    viol!(acc, P, "missing-not-reported", case, "a message without an integrity attribute is not reported as missing one", "MissingAttribute", format!("{e:?}"));
                }
            } else {
                acc.outcome("fails validation");
            }
        }
    }
}

fn m_has_no_integrity(r: &Result<wire::RefMsg, wire::Reject>) -> bool {
    match r {
        Ok(m) => !m.attrs.iter().any(|a| wire::is_integrity(a.typ)),
        Err(_) => false,
    }
}
