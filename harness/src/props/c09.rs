//! C09 — FINGERPRINT is the RFC CRC; corrupting a fingerprinted message gets it rejected.
//! Engine IN, fault enumeration: all single-bit flips, all single-byte substitutions and all
//! bursts up to 32 bits of every fingerprinted message of the family; judged by the reference.

use crate::common::*;
use crate::engine_in::prog::{Op, Prog};
use crate::props::judge_guarded;
use crate::real;
use crate::refimpl::attrs::Kind;
use crate::refimpl::wire;
use crate::viol;
use rayon::prelude::*;
use serde_json::json;
use stun_types::message::Message;

const P: &str = "C09";

fn family(ctx: &Ctx) -> Vec<Vec<u8>> {
    let tid: u128 = ((ctx.seeded(90) as u128) << 20 | 0x9) & ((1u128 << 96) - 1);
    let mut bodies: Vec<Vec<Op>> = vec![
        vec![],
        vec![Op::Typed(Kind::Software, b"s".to_vec())],
        vec![Op::Typed(Kind::Software, b"stun".to_vec()), Op::Typed(Kind::Priority, vec![1, 2, 3, 4])],
        vec![Op::Raw(0xFF00, vec![9, 8, 7]), Op::Typed(Kind::Username, b"ab".to_vec()), Op::Typed(Kind::UseCandidate, vec![])],
        vec![Op::Typed(Kind::XorMappedAddress, vec![0, 1, 0xA1, 0x47, 0xE1, 0x12, 0xA6, 0x43])],
        vec![Op::Raw(0x7F00, vec![]), Op::Raw(0xFF01, vec![0xFF; 6])],
        vec![Op::Typed(Kind::ErrorCode, vec![0, 0, 4, 1, b'n', b'o'])],
        // larger messages: the FINGERPRINT sits beyond offset 255 / 1023
        vec![Op::Typed(Kind::Software, vec![b'L'; 251]), Op::Typed(Kind::Username, b"user".to_vec())],
        // values that read as a FINGERPRINT / integrity attribute header or as a whole STUN message
        // (a relayed message inside DATA), word-aligned and not: whatever locates the trailing
        // FINGERPRINT or the covered range by looking at the bytes shows here
        vec![Op::Raw(0x0013, {
            let mut inner = wire::encode_header(0, 1, 0x0A0B_0C0D_0E0F_1011_1213_1415, 0);
            wire::append_raw(&mut inner, 0x0006, b"ab");
            wire::append_fp(&mut inner);
            inner
        }), Op::Raw(0x0012, vec![0, 1, 0x21, 0x12, 0x21 ^ 10, 0x12, 0xA4, 0x43])],
        vec![Op::Raw(0xFF03, vec![0x80, 0x28, 0x00, 0x04, 1, 2, 3, 4, 0x00, 0x08, 0x00, 0x14, 0x00, 0x1C, 0x00, 0x20]), Op::Raw(0xFF04, vec![0xEE, 0x80, 0x28, 0x00, 0x04, 9, 9, 9, 9])],
    ];
    if ctx.tier == Tier::Thorough {
        bodies.push(vec![Op::Typed(Kind::Nonce, vec![b'n'; 700]), Op::Typed(Kind::Realm, vec![b'r'; 333]), Op::Raw(0xFF02, vec![0x5A; 41])]);
    }
    let seals: Vec<Vec<Op>> = vec![vec![Op::Fp], vec![Op::Sha1(0), Op::Fp], vec![Op::Sha256(0), Op::Fp], vec![Op::Sha1(0), Op::Sha256(0), Op::Fp]];
    let mut out = Vec::new();
    for (i, b) in bodies.iter().enumerate() {
        for s in &seals {
            for class in 0u8..4 {
                let mut ops = b.clone();
                ops.extend(s.clone());
                if let Ok(built) = crate::props::c03::build_prog(&Prog { class, method: (i as u16) + 1, tid, ops }) {
                    if built.results.iter().all(|r| r.is_ok()) {
                        out.push(built.bytes);
                    }
                }
            }
        }
    }
    out
}

pub fn run(ctx: &Ctx) -> Report {
    let msgs = family(ctx);
    let full_w = ctx.tier.pick(10usize, 14usize);
    let n_msgs = msgs.len();
    let acc = msgs
        .par_iter()
        .enumerate()
        .flat_map(|(i, m)| {
            // split each message's burst space by start byte for parallelism
            (0..m.len()).into_par_iter().map(move |byte| (i, m, byte))
        })
        .fold(Acc::default, |mut acc, (i, m, byte)| {
            if byte == 0 {
                acc.nontrivial += 1;
                let case = Case::new("builder_value", m.clone());
                if i % 11 == 0 {
                    acc.sample(case.brief());
                }
                judge_guarded(judge, &case, &mut acc);
            }
            // all single-byte substitutions (covers all single-bit flips of this byte)
            for v in 0..=255u8 {
                if v != m[byte] {
                    let mut b = m.clone();
                    b[byte] = v;
                    judge_guarded(judge, &mutant_case(m, b, "bytesub"), &mut acc);
                }
            }
            // plausible *alternative* values in the CRC field (an implementation accepting a second
            // value "for interoperability" shows here): byte-swapped, complemented, without the XOR
            // constant, rotated, CRC over other ranges / without the length rewrite
            if byte == 0 {
                if let Ok(dm) = wire::decode(m) {
                    if let Some(fp) = dm.attrs.iter().find(|a| a.typ == wire::FP) {
                        let off = fp.offset;
                        let v = u32::from_be_bytes([m[off + 4], m[off + 5], m[off + 6], m[off + 7]]);
                        for a in alt_crc_values(m, off) {
                            if a != v {
                                let mut b = m.clone();
                                b[off + 4..off + 8].copy_from_slice(&a.to_be_bytes());
                                judge_guarded(judge, &mutant_case(m, b, "alt-crc"), &mut acc);
                            }
                        }
                    }
                }
            }
            // bursts starting at each bit of this byte
            let nbits = m.len() * 8;
            for sb in byte * 8..byte * 8 + 8 {
                for w in 2..=32usize {
                    if sb + w > nbits {
                        break;
                    }
                    // patterns: both end bits set; interior exhaustive up to full_w, else 3 shapes
                    let interior = w - 2;
                    let pats: Vec<u64> = if w <= full_w {
                        (0..(1u64 << interior)).collect()
                    } else {
                        vec![(1u64 << interior) - 1, 0, 0x5555_5555_5555_5555 & ((1u64 << interior) - 1)]
                    };
                    for p in pats {
                        let pattern: u64 = 1 | (p << 1) | (1u64 << (w - 1));
                        let mut b = m.clone();
                        for k in 0..w {
                            if pattern >> k & 1 == 1 {
                                let bit = sb + k;
                                b[bit / 8] ^= 0x80 >> (bit % 8);
                            }
                        }
                        judge_guarded(judge, &mutant_case(m, b, "burst"), &mut acc);
                    }
                }
            }
            acc
        })
        .reduce(Acc::default, |a, b| a.merge(b));
    // large fingerprinted messages (FINGERPRINT starting at 65 516 .. 65 544 and around 256 / 4 096 /
    // 32 768): builder value, acceptance of the valid message, and a stated subset of corruptions —
    // every bit of the header and of the CRC value, one bit in every 509th byte, every byte value in
    // the length field and the CRC value, the alternative CRC values
    let mut acc = acc;
    let big_fp_offsets: Vec<usize> = (65_516..=65_544).step_by(4).chain([252usize, 256, 4092, 4096, 32_764, 32_768]).collect();
    let big: Vec<Vec<u8>> = big_fp_offsets
        .iter()
        .flat_map(|off| {
            let mut v = Vec::new();
            for class in [0u8, 3] {
                let fill = off - 20 - 4;
                let mut bld = real::builder(class, 0x0FFE, ((1u128 << 95) | 5) & ((1u128 << 96) - 1));
                let val: Vec<u8> = (0..fill).map(|i| (i * 31 % 251) as u8).collect();
                if bld.add_raw_attribute(stun_types::attribute::RawAttribute::new(0x8032.into(), &val)).is_ok() && bld.add_fingerprint().is_ok() {
                    v.push(bld.build());
                }
            }
            v
        })
        .collect();
    // fingerprinted messages with many attributes (n = 48, 63..=66, 100, 129, 257, 1025 small attributes of
    // distinct types, plain and behind MESSAGE-INTEGRITY): the builder's value, acceptance, and every bit
    // of the header, of the first three attributes, of the attributes around every 32nd and of the last
    // five attributes and the CRC value
    let many: Vec<Vec<u8>> = [48usize, 63, 64, 65, 66, 100, 129, 257, 1025]
        .iter()
        .flat_map(|n| {
            let mut v = Vec::new();
            for with_mi in [false, true] {
                let mut bld = real::builder(if with_mi { 2 } else { 0 }, 0x008, 0x0C0C_0D0D_0E0E_0F0F_1010_1111);
                for i in 0..*n {
                    let val = [(i >> 8) as u8, i as u8, 0x5A];
                    bld.add_raw_attribute(stun_types::attribute::RawAttribute::new((0xC100 + i as u16).into(), &val[..i % 4]).into_owned()).unwrap();
                }
                if with_mi {
                    let creds: stun_types::message::MessageIntegrityCredentials = stun_types::message::ShortTermCredentials::new("many".to_owned()).into();
                    bld.add_message_integrity(&creds, stun_types::message::IntegrityAlgorithm::Sha1).unwrap();
                }
                bld.add_fingerprint().unwrap();
                v.push(bld.build());
            }
            v
        })
        .collect();
    let acc_many = many
        .par_iter()
        .fold(Acc::default, |mut a, m| {
            a.nontrivial += 1;
            judge_guarded(judge, &Case::new("builder_value", m.clone()), &mut a);
            let n = m.len();
            let mut positions: Vec<usize> = (0..44.min(n)).collect();
            if let Ok(dm) = wire::decode(m) {
                for (i, at) in dm.attrs.iter().enumerate() {
                    if i % 32 <= 1 || i % 32 == 31 || i + 6 > dm.attrs.len() {
                        positions.extend(at.offset..at.end().min(n));
                    }
                }
            }
            positions.sort();
            positions.dedup();
            for p in positions {
                for bit in 0..8 {
                    let mut b = m.clone();
                    b[p] ^= 1 << bit;
                    judge_guarded(judge, &mutant_case(m, b, "bitflip-many"), &mut a);
                }
            }
            a
        })
        .reduce(Acc::default, |a, b| a.merge(b));
    acc = acc.merge(acc_many);
    let acc_big = big
        .par_iter()
        .fold(Acc::default, |mut a, m| {
            a.nontrivial += 1;
            judge_guarded(judge, &Case::new("builder_value", m.clone()), &mut a);
            let n = m.len();
            let mut positions: Vec<usize> = (0..20).collect();
            positions.extend((20..n - 8).step_by(509));
            positions.extend(n - 12..n);
            for p in positions {
                for bit in 0..8 {
                    let mut b = m.clone();
                    b[p] ^= 1 << bit;
                    judge_guarded(judge, &mutant_case(m, b, "bitflip-large"), &mut a);
                }
            }
            for p in [2usize, 3, n - 4, n - 3, n - 2, n - 1] {
                for v in 0..=255u8 {
                    if v != m[p] {
                        let mut b = m.clone();
                        b[p] = v;
                        judge_guarded(judge, &mutant_case(m, b, "bytesub-large"), &mut a);
                    }
                }
            }
            a
        })
        .reduce(Acc::default, |a, b| a.merge(b));
    acc = acc.merge(acc_big);
    // builder value for typed text attributes of every length 0..=763 (USERNAME 0..=513) followed by a
    // FINGERPRINT, typed and after into_owned(): the value must be the RFC CRC and the parser must agree
    let mut lens: Vec<Case> = Vec::new();
    for len in 0..=763usize {
        for k in [Kind::Software, Kind::Realm, Kind::Nonce, Kind::Username] {
            if k == Kind::Username && len > 513 {
                continue;
            }
            for own in [false, true] {
                let mut ops = vec![Op::Typed(k, vec![b'a' + (len % 26) as u8; len])];
                if own {
                    ops.push(Op::IntoOwned);
                }
                ops.push(Op::Fp);
                if let Ok(built) = crate::props::c03::build_prog(&Prog { class: 0, method: 1, tid: 77, ops }) {
                    if built.results.iter().all(|r| r.is_ok()) {
                        lens.push(Case::new("builder_value", built.bytes));
                    }
                }
            }
        }
    }
    let n_lens = lens.len() as u64;
    let mut acc_l = crate::props::sweep(lens.into_par_iter(), judge);
    acc_l.nontrivial += n_lens;
    acc = acc.merge(acc_l);
    // the builder's FINGERPRINT after a caught panic elsewhere in the process (Op::Poison): still the RFC CRC
    let mut poisoned: Vec<Case> = Vec::new();
    for k in 0..5u8 {
        for body in [vec![], vec![Op::Typed(Kind::Software, b"stun".to_vec())], vec![Op::Typed(Kind::Username, b"ab".to_vec()), Op::Sha1(0)], vec![Op::Raw(0xFF00, vec![9, 8, 7]), Op::Sha256(0)]] {
            let mut ops = vec![Op::Poison(k)];
            ops.extend(body);
            ops.push(Op::Fp);
            poisoned.push(Prog { class: k % 4, method: 1, tid: 0x7172_7374_7576_7778_797A_7B7C, ops }.to_case("builder_prog"));
        }
    }
    // an application attribute that leaves its padding to the destination (the crate's documentation example
    // does), behind a longer attribute whose bytes are not zero: the builder's FINGERPRINT is the CRC of what
    // build() emits, zero padding included (seed C09-o: the CRC streamed through a scratch buffer that is
    // never cleared between attributes)
    for l in 0..=11u16 {
        for first in [vec![Op::Typed(Kind::Software, vec![b'Z'; 40])], vec![Op::Raw(0xFF00, vec![0xFF; 23])], vec![Op::CustomLazy(21)], vec![Op::Typed(Kind::Username, vec![b'u'; 17]), Op::Raw(0x7F00, vec![0xA5; 3])]] {
            for seal in [vec![], vec![Op::Sha1(0)], vec![Op::Sha256(1)], vec![Op::Sha1(1), Op::Sha256(0)]] {
                for tail in [vec![], vec![Op::Raw(0xFF01, vec![1])]] {
                    let mut ops = first.clone();
                    ops.push(Op::CustomLazy(l));
                    ops.extend(tail.clone());
                    ops.extend(seal.clone());
                    ops.push(Op::Fp);
                    poisoned.push(Prog { class: (l % 4) as u8, method: 1, tid: 0x7172_7374_7576_7778_797A_7B7D, ops }.to_case("builder_prog"));
                }
            }
        }
    }
    acc = acc.merge(crate::props::sweep(poisoned.into_par_iter(), judge));
    Report {
        acc,
        exhaustive: true,
        rule: format!("(each corrupted copy is parsed right after its uncorrupted original) 10 bodies (one of ~300 bytes, two whose values read as sealing-attribute headers or carry a relayed fingerprinted message; thorough: one more of ~1150 bytes) x 4 sealing combinations ending in FINGERPRINT x 4 classes, built by the real builder; on each: the builder's CRC value vs the reference relation; every single-byte substitution (255 per byte, includes all single-bit flips); every burst of width 2..=32 at every start bit with both end bits set (all interior patterns up to width {full_w}, 3 shapes above); ~20 plausible alternative CRC values (byte-swapped, complemented, without the XOR constant, rotated, over other ranges or length fields); large messages with the FINGERPRINT starting at 65516..=65544 and around 256 / 4096 / 32768 x 2 classes with a stated subset of corruptions (every bit of the header, of the last 12 bytes and of every 509th byte, every value of the length-field and CRC bytes); the builder value after a caught panic elsewhere in the process (an application attribute panicking inside add_fingerprint / add_message_integrity / build / write_into / into_owned); the builder value for typed text attributes of every length 0..=763 followed by a FINGERPRINT (typed and after into_owned()); distinct_nontrivial = fingerprinted messages"),
        bounds: json!({"messages": n_msgs, "burst_exhaustive_width": full_w, "burst_max_width": 32}),
        assumptions: vec!["mutants the reference decoder accepts (FINGERPRINT dissolved into other well-formed attributes) fall under C02, not C09".into()],
        ..Default::default()
    }
}

/// Values a FINGERPRINT at offset `off` of `m` might carry under a plausible mistake or leniency:
/// byte-swapped, complemented, without the XOR constant, rotated, CRC over other ranges or with the
/// length field set otherwise.
pub fn alt_crc_values(m: &[u8], off: usize) -> Vec<u32> {
    let v = u32::from_be_bytes([m[off + 4], m[off + 5], m[off + 6], m[off + 7]]);
    let crc = |d: &[u8]| crate::refimpl::crypto::crc32_fast(d);
    let mut alts: Vec<u32> = vec![v.swap_bytes(), !v, v ^ wire::FP_XOR, v.rotate_left(8), v.rotate_left(16), v.rotate_left(24), v.reverse_bits(), crc(&m[..off]) ^ wire::FP_XOR, crc(&m[..off]), crc(&m[..off + 4]) ^ wire::FP_XOR, crc(&m[20..off]) ^ wire::FP_XOR, crc(&m[2..off]) ^ wire::FP_XOR, crc(&m[4..off]) ^ wire::FP_XOR, crc(&m[8..off]) ^ wire::FP_XOR, 0, 0xFFFF_FFFF, wire::FP_XOR];
    // CRC with the length field set to other plausible values
    for l in [off - 20, off + 4 - 20, m.len() - 20 + 4, 0] {
        let mut pre = m[..off].to_vec();
        wire::set_len(&mut pre, l);
        alts.push(crc(&pre) ^ wire::FP_XOR);
        alts.push(crc(&pre));
    }
    alts
}

/// A corrupted copy `b` of the fingerprinted message `m`; the case also records the original value
/// of every changed byte, so that the judgement can parse the original first (a receiver normally
/// has: retransmissions are byte-identical) and the corrupted copy afterwards, on its own.
fn mutant_case(m: &[u8], b: Vec<u8>, tag: &str) -> Case {
    let mut args = Vec::new();
    if m.len() == b.len() && m.len() <= 2048 {
        for (i, (x, y)) in m.iter().zip(b.iter()).enumerate() {
            if x != y {
                args.push(i as i64);
                args.push(*x as i64);
            }
        }
    }
    Case::new("mutant", b).text(&[tag]).args(&args)
}

pub fn judge(case: &Case, acc: &mut Acc) {
    acc.evaluations += 1;
    let buf = &case.data;
    if case.op == "builder_prog" {
        // a builder program (possibly with Op::Poison): build it, then judge its bytes as a builder value
        let p = Prog::from_case(case);
        match crate::props::c03::build_prog(&p) {
            Ok(built) if built.results.iter().all(|r| r.is_ok()) => {
                let mut inner = Case::new("builder_value", built.bytes);
                inner.text = case.text.clone();
                let mut local = Acc::default();
                judge(&inner, &mut local);
                // re-home the findings on the program, so that the replay runs the program again
                for (_, (mut v, n)) in std::mem::take(&mut local.violations) {
                    v.replay = crate::props::in_replay(case);
                    for _ in 0..n {
                        acc.violation(v.clone());
                    }
                }
                let rest = std::mem::take(&mut local);
                let a0 = std::mem::take(acc);
                *acc = a0.merge(rest);
            }
            _ => acc.outcome("builder program not runnable"),
        }
        return;
    }
    match case.op.as_str() {
        "builder_value" => {
            acc.validated += 1;
            match wire::decode(buf) {
                Ok(m) => {
                    let Some(fp) = m.attrs.iter().find(|a| a.typ == wire::FP) else {
                        viol!(acc, P, "builder-no-fingerprint", case, "add_fingerprint() did not put a FINGERPRINT on the wire", "FINGERPRINT last", "absent");
                        return;
                    };
                    if fp.end() != buf.len() {
                        viol!(acc, P, "builder-fingerprint-not-last", case, "FINGERPRINT is not the last attribute", "last", format!("ends at {} of {}", fp.end(), buf.len()));
                    }
                    acc.outcome("builder value = CRC-32(prefix, length covering FP) ^ 0x5354554e");
                    if Message::from_bytes(buf).is_err() {
                        viol!(acc, P, "parser-refuses-correct-fingerprint", case, "the parser refuses a correctly fingerprinted message", "Ok", "Err");
                    }
                }
                Err(e) => {
                    acc.outcome("VIOLATION: builder fingerprint wrong");
                    viol!(acc, P, "builder-value", case, "the FINGERPRINT appended by the builder does not satisfy the RFC relation", "CRC-32/ISO-HDLC(prefix with length covering FP) ^ 0x5354554e", format!("reference: {}", e.why));
                }
            }
        }
        "mutant" => {
            let tag = case.text.first().map(|s| s.as_str()).unwrap_or("?");
            // the uncorrupted original goes through the parser first
            if !case.args.is_empty() && case.args.len() <= 64 {
                let mut orig = buf.clone();
                for pv in case.args.chunks(2) {
                    if let [p, v] = pv {
                        if (*p as usize) < orig.len() {
                            orig[*p as usize] = *v as u8;
                        }
                    }
                }
                let _ = Message::from_bytes(&orig);
            }
            match wire::decode(buf) {
                Ok(_) => acc.outcome("mutant is itself well-formed (C02)"),
                Err(r) => {
                    acc.validated += 1;
                    match Message::from_bytes(buf) {
                        Err(_) => acc.outcome("corrupted: rejected"),
                        Ok(msg) => {
                            if r.excess_only {
                                // C02 admits acceptance of the declared part if the excess is never interpreted
                                let declared = 20 + wire::be16(&buf[2..4]);
                                let m = wire::decode(&buf[..declared]).unwrap();
                                let (seq, _) = real::iterate(&msg, 0);
                                let allowed: Vec<(u16, Vec<u8>)> = wire::exposed(&m.attrs).into_iter().map(|i| (m.attrs[i].typ, m.attrs[i].value.clone())).collect();
                                if seq.len() <= allowed.len() && seq.iter().zip(allowed.iter()).all(|(a, b)| a == b) {
                                    acc.outcome("length lowered: declared part accepted, excess ignored");
                                    return;
                                }
                            }
                            acc.outcome("VIOLATION: corrupted buffer accepted");
                            let field = if buf.len() >= 4 && r.why.contains("declared length") { "length-field" } else { "body" };
                            viol!(acc, P, &format!("corrupted-accepted/{field}/{tag}"), case, format!("a corrupted fingerprinted buffer was accepted ({})", r.why), "Err", "Ok");
                        }
                    }
                }
            }
        }
        other => panic!("harness: unknown C09 op {other}"),
    }
}
