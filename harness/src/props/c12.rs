//! C12 — all serialisation paths produce identical bytes.

use crate::common::*;
use crate::engine_in::prog::{self, Op, Prog};
use crate::engine_in::values;
use crate::props::c03;
use crate::props::judge_guarded;
use crate::real;
use crate::refimpl::attrs::{self, Kind, Val};
use crate::refimpl::wire;
use crate::viol;
use rayon::prelude::*;
use serde_json::json;
use stun_types::attribute::*;
use stun_types::message::StunWriteError;

const P: &str = "C12";

pub fn run(ctx: &Ctx) -> Report {
    // (a) attribute values: all kinds x encode-side values; raw attributes of every length
    let mut cases: Vec<Case> = Vec::new();
    for k in attrs::ALL_KINDS {
        for (v, t) in values::encode_values(k, ctx.seeded(12)) {
            cases.push(Case::new("attr", v).text(&[k.name(), &format!("{t:x}")]));
        }
    }
    for k in attrs::ALL_KINDS {
        for (v, t) in values::lane_walk(k, ctx.seeded(13)) {
            cases.push(Case::new("attr", v).text(&[k.name(), &format!("{t:x}")]));
        }
    }
    // values obtained by decoding: every decode-side value of the small kinds, and for ERROR-CODE every class
    // byte x number byte (the decoder accepts reserved bits) x three reasons
    for k in attrs::ALL_KINDS {
        if k == Kind::ErrorCode {
            continue;
        }
        for v in values::decode_values(k, Tier::Quick).into_iter().filter(|v| v.len() <= 40).step_by(ctx.tier.pick(3, 1)) {
            cases.push(Case::new("parsed", v).text(&[k.name()]));
        }
    }
    for class in 0..=255u8 {
        for number in (0..=255u8).step_by(ctx.tier.pick(5, 1)) {
            for reason in [&b""[..], b"r", b"reason phrase"] {
                for hi in [[0u8, 0], [0xFF, 0xFF], [0, 0x80]] {
                    let mut v = vec![hi[0], hi[1], class, number];
                    v.extend_from_slice(reason);
                    cases.push(Case::new("parsed", v).text(&["ERROR-CODE"]));
                }
            }
        }
    }
    for len in 0..=763usize {
        let v: Vec<u8> = (0..len).map(|i| (i * 3 + 1) as u8).collect();
        cases.push(Case::new("raw", v.clone()).args(&[0xFF00]));
        if len % 64 < 5 {
            cases.push(Case::new("raw", v).args(&[0x0006]));
        }
    }
    let n_attr = cases.len();
    // (b) builders: the C03 family (a subset in quick)
    let tid0: u128 = ((ctx.seeded(5) as u128) << 16 | 0xABCD) & c03::MASK96;
    let alpha = c03::attr_alphabet(tid0);
    let lists = c03::attr_lists(&alpha, ctx.tier.pick(3, 3));
    for (i, l) in lists.iter().enumerate() {
        for s in c03::sealings(0) {
            let mut ops = l.clone();
            ops.extend(s);
            // the same program with the builder looked at (byte_len / build / write_into) after every
            // operation, and, for every eighth list, looked at once at each single position
            let mut all = Vec::new();
            for o in &ops {
                all.push(o.clone());
                all.push(Op::Measure);
            }
            cases.push(Prog { class: (i % 4) as u8, method: 1, tid: tid0, ops: all }.to_case("builder"));
            if i % 8 == 0 {
                for pos in 0..=ops.len() {
                    let mut one = ops.clone();
                    one.insert(pos, Op::Measure);
                    cases.push(Prog { class: (i % 4) as u8, method: 1, tid: tid0, ops: one }.to_case("builder"));
                }
            }
            cases.push(Prog { class: (i % 4) as u8, method: 1, tid: tid0, ops }.to_case("builder"));
        }
    }
    // pairs of attributes with odd lengths (padding between attributes) and into_owned/clone interleaved
    for a in [1usize, 2, 3, 5] {
        for b in [0usize, 1, 3, 6] {
            let ops = vec![Op::Typed(Kind::Software, vec![b'a'; a]), Op::IntoOwned, Op::Raw(0xFF00, vec![7; b]), Op::Clone, Op::Typed(Kind::Username, vec![b'u'; a + b]), Op::Sha1(1), Op::IntoOwned, Op::Sha256(1), Op::Fp];
            cases.push(Prog { class: 0, method: 1, tid: tid0, ops }.to_case("builder"));
        }
    }
    for len in (0..=763usize).step_by(ctx.tier.pick(7, 1)) {
        let ops = vec![Op::Typed(Kind::Realm, vec![b'r'; len]), Op::Fp];
        cases.push(Prog { class: 1, method: 2, tid: tid0, ops }.to_case("builder"));
    }
    // application attributes (a dyn AttributeWrite of the application's own) with values from 0 to
    // 1100 bytes, around 4096 and of 65 000 bytes, alone / fingerprinted / after clone + into_owned
    for l in (0..=1100u16).chain([4092, 4093, 4096, 4097, 65_000]) {
        if l > 16 && l < 1000 && l % ctx.tier.pick(17, 1) != 0 {
            continue;
        }
        for ops in [vec![Op::Custom(l)], vec![Op::Custom(l), Op::Fp], vec![Op::Typed(Kind::Software, b"sw".to_vec()), Op::Custom(l), Op::Clone, Op::IntoOwned, Op::Sha1(0)]] {
            cases.push(Prog { class: (l % 4) as u8, method: 1, tid: tid0, ops }.to_case("builder"));
        }
    }
    // an application attribute whose value changes between add_attribute and serialisation
    for a in [0u16, 1, 3, 4, 5, 8, 12, 200, 1017] {
        for b in [0u16, 1, 3, 4, 5, 8, 12, 200, 1017] {
            for ops in [vec![Op::AppMut(a), Op::Mutate(b)], vec![Op::AppMut(a), Op::Measure, Op::Mutate(b)], vec![Op::Typed(Kind::Software, b"sw".to_vec()), Op::AppMut(a), Op::Measure, Op::Mutate(b), Op::Fp], vec![Op::AppMut(a), Op::Fork, Op::Fp, Op::Measure, Op::Swap, Op::Mutate(b)]] {
                cases.push(Prog { class: (a % 4) as u8, method: 1, tid: tid0, ops }.to_case("builder"));
            }
        }
    }
    let n_all = cases.len();
    let acc = cases
        .into_par_iter()
        .enumerate()
        .fold(Acc::default, |mut acc, (i, case)| {
            if i % 1789 == 3 {
                acc.sample(case.brief());
            }
            judge_guarded(judge, &case, &mut acc);
            acc
        })
        .reduce(Acc::default, |a, b| a.merge(b));
    Report {
        acc,
        exhaustive: true,
        rule: "typed values obtained by decoding (every short decode-side value of every kind; ERROR-CODE with every class byte x number byte x reserved bytes) serialised again through every path; every encode-side value and every representable byte-lane-walk value of all 19 attribute types and raw attributes of every length 0..=763, each written into destinations of every size 0..=padded+16 (and its header alone through write_header / write_header_unchecked into destinations of 0..=8 bytes) (encodings above 96 bytes: every size in 0..=40 and within 40 bytes of the needed size, every 61st in between); builders of the C03 family (+ application attributes of 0..=1100, ~4096 and 65 000 bytes, + an application attribute whose value changes after add_attribute, + a sibling clone kept and serialised, + interleaved into_owned/clone; + the builder measured and serialised after every operation / at each single position), each written into destinations of every size 0..=len+16; distinct_nontrivial = value/builder cases that could be constructed".into(),
        bounds: json!({"attribute_value_cases": n_attr, "builder_cases": n_all - n_attr, "dest_sizes": "0..=needed+16"}),
        assumptions: vec![],
        ..Default::default()
    }
}

fn too_small(e: &StunWriteError) -> Option<(usize, usize)> {
    match e {
        StunWriteError::TooSmall { expected, actual } => Some((*expected, *actual)),
        _ => None,
    }
}

/// write `w` into destinations of every size and compare with `want`
fn attr_paths(acc: &mut Acc, case: &Case, w: &dyn AttributeWrite, want: &[u8], label: &str) {
    let needed = want.len();
    let raw_bytes = w.to_raw().to_bytes();
    let via_from: Vec<u8> = Vec::<u8>::from(w.to_raw());
    if via_from != raw_bytes {
        viol!(acc, P, &format!("vec-from-raw/{label}"), case, "Vec::<u8>::from(RawAttribute) differs from RawAttribute::to_bytes()", fmt_bytes(&raw_bytes), fmt_bytes(&via_from));
    }
    if raw_bytes != want {
        viol!(acc, P, &format!("to_raw-bytes/{label}"), case, "to_raw().to_bytes() is not the reference encoding (type, value length, value, zero padding)", fmt_bytes(want), fmt_bytes(&raw_bytes));
    }
    if w.padded_len() != needed {
        viol!(acc, P, &format!("padded_len/{label}"), case, "padded_len() is not the length of the encoding", format!("{needed}"), format!("{}", w.padded_len()));
    }
    // destinations of 64 KiB and more (a datagram-sized scratch buffer): 65535, 65536, 65536 + needed - 1,
    // 131072 and 1 MiB, for every 32nd case (the size check must not be done in 16 bits)
    if (needed + want.iter().map(|b| *b as usize).sum::<usize>()) % 32 == 0 {
        for size in [65_535usize, 65_536, 65_536 + needed.saturating_sub(1), 131_072, 1 << 20] {
            let mut dest = vec![0xAAu8; size];
            match w.write_into(&mut dest) {
                Ok(n) if n == needed && dest[..needed] == want[..] && dest[needed..].iter().all(|b| *b == 0xAA) => {}
                other => {
                    viol!(acc, P, &format!("write-into-large-destination/{label}"), case, format!("write_into a destination of {size} bytes does not give the reference encoding"), fmt_bytes(want), format!("{other:?}"));
                    break;
                }
            }
        }
    }
    // the destination at the other residues of its address modulo 4 (a transmit buffer behind a
    // 2-byte length prefix): the same bytes
    {
        let mut buf = vec![0xAAu8; needed + 8];
        let a0 = buf.as_ptr() as usize;
        for r in 1..4usize {
            let s0 = (0..8usize).find(|s| (a0 + s) % 4 == r).unwrap();
            for b in buf.iter_mut() {
                *b = 0xAA;
            }
            match w.write_into(&mut buf[s0..s0 + needed]) {
                Ok(n) if n == needed && buf[s0..s0 + needed] == want[..] && buf[..s0].iter().all(|b| *b == 0xAA) && buf[s0 + needed..].iter().all(|b| *b == 0xAA) => {}
                other => {
                    viol!(acc, P, &format!("write-depends-on-alignment/{label}"), case, format!("write_into a destination whose address is {r} modulo 4 does not give the reference encoding (or touches bytes outside the destination)"), fmt_bytes(want), format!("{other:?} {}", fmt_bytes(&buf[s0..s0 + needed])));
                    break;
                }
            }
        }
    }
    // the header-only encoder (a writer that sends header, value and padding separately): 4 bytes are
    // all it needs, whatever the length of the value
    for size in (0..=8usize).chain([needed, needed + 3]) {
        let mut dest = vec![0xAAu8; size];
        acc.evaluations += 1;
        let r = w.write_header(&mut dest);
        let ok = if size >= 4 { matches!(r, Ok(4)) && dest[..4] == want[..4] && dest[4..].iter().all(|b| *b == 0xAA) } else { r.as_ref().err().and_then(too_small) == Some((4, size)) && dest.iter().all(|b| *b == 0xAA) };
        if !ok {
            viol!(acc, P, &format!("write_header/{label}"), case, format!("write_header into a destination of {size} bytes"), if size >= 4 { format!("Ok(4), {} then untouched bytes", fmt_bytes(&want[..4])) } else { format!("TooSmall {{ expected: 4, actual: {size} }}, destination untouched") }, format!("{r:?} {}", fmt_bytes(&dest)));
            break;
        }
        if size >= 4 {
            let mut d2 = vec![0xAAu8; size];
            let n = w.write_header_unchecked(&mut d2);
            if n != 4 || d2 != dest {
                viol!(acc, P, &format!("write_header/{label}"), case, "write_header_unchecked differs from write_header", fmt_bytes(&dest), format!("{n} {}", fmt_bytes(&d2)));
                break;
            }
        }
    }
    // every destination size for encodings up to 96 bytes; above that every size in 0..=40 and within
    // 40 bytes of the needed size, and every 61st in between (what matters is on which side of the
    // needed size, of the header and of the padding a destination falls)
    let sizes: Vec<usize> = if needed <= 96 { (0..=needed + 16).collect() } else { (0..=40).chain((41..needed - 40).step_by(61)).chain(needed - 40..=needed + 16).collect() };
    for size in sizes {
        let mut dest = vec![0xAAu8; size];
        acc.evaluations += 1;
        match w.write_into(&mut dest) {
            Err(e) => {
                if size >= needed {
                    viol!(acc, P, &format!("write-refused/{label}"), case, format!("write_into a destination of {size} bytes fails although {needed} suffice"), "Ok", format!("{e:?}"));
                } else if too_small(&e) != Some((needed, size)) {
                    viol!(acc, P, &format!("too-small-counts/{label}"), case, "write_into a short destination reports the wrong sizes", format!("TooSmall {{ expected: {needed}, actual: {size} }}"), format!("{e:?}"));
                }
                if dest.iter().any(|b| *b != 0xAA) {
                    viol!(acc, P, &format!("failed-write-touches/{label}"), case, "a failed write_into modified the destination", "untouched", fmt_bytes(&dest));
                }
            }
            Ok(n) => {
                if size < needed {
                    viol!(acc, P, &format!("short-write-accepted/{label}"), case, format!("write_into a destination of {size} bytes succeeded although {needed} are needed"), "Err(TooSmall)", format!("Ok({n})"));
                } else {
                    if n != needed || dest[..needed] != want[..] {
                        let pad_only = n == needed && dest[..4 + (w.length() as usize)] == want[..4 + (w.length() as usize)];
                        let clause = if pad_only { format!("in-place-padding/{label}") } else { format!("in-place-bytes/{label}") };
                        viol!(acc, P, &clause, case, "writing in place differs from to_raw().to_bytes() / the reference encoding", format!("Ok({needed}) {}", fmt_bytes(want)), format!("Ok({n}) {}", fmt_bytes(&dest[..needed.min(dest.len())])));
                    }
                    if dest[needed..].iter().any(|b| *b != 0xAA) {
                        viol!(acc, P, &format!("writes-beyond-length/{label}"), case, "bytes beyond the reported length were modified", "untouched", fmt_bytes(&dest[needed..]));
                    }
                }
            }
        }
    }
}

pub fn judge(case: &Case, acc: &mut Acc) {
    acc.validated += 1;
    match case.op.as_str() {
        "attr" => {
            let k = Kind::from_name(&case.text[0]).unwrap();
            let tid = u128::from_str_radix(&case.text[1], 16).unwrap();
            let Some(val) = attrs::fields_lenient(k, &case.data) else {
                acc.evaluations += 1;
                acc.outcome("attr: not representable");
                return;
            };
            let pv = match (k, val.clone()) {
                (Kind::XorMappedAddress, Val::Addr(a)) => Val::Addr(attrs::xor_addr(a, tid)),
                (_, v) => v,
            };
            let Ok(typed) = real::construct(k, &pv, tid) else {
                acc.evaluations += 1;
                acc.outcome("attr: constructor refused");
                return;
            };
            if attrs::encode(k, &val).len() > 0xFFFF - 4 {
                return;
            }
            acc.nontrivial += 1;
            acc.outcome("attr: all destination sizes");
            let want = wire::encode_attr(k.code(), &attrs::encode(k, &val), 0);
            attr_paths(acc, case, typed.as_write(), &want, k.name());
        }
        "parsed" => {
            // a typed value obtained by decoding wire bytes (possibly a non-canonical encoding the decoder
            // accepts: reserved bits set, ...) and serialised again: every path gives the same bytes - those of
            // to_raw() - with the padded length, the value length declared and zero padding
            let k = Kind::from_name(&case.text[0]).unwrap();
            let r = RawAttribute::new(AttributeType::new(k.code()), &case.data);
            let Ok(typed) = real::from_raw_typed(k, &r) else {
                acc.evaluations += 1;
                acc.outcome("parsed: refused by the decoder");
                return;
            };
            let w = typed.as_write();
            let want = w.to_raw().to_bytes();
            let vlen = w.to_raw().value.len();
            if want.len() != 4 + (vlen + 3) / 4 * 4 || want[2..4] != (vlen as u16).to_be_bytes() || want[4 + vlen..].iter().any(|b| *b != 0) {
                viol!(acc, P, &format!("parsed-value-layout/{}", k.name()), case, "to_raw().to_bytes() of a decoded value is not type | value length | value | zero padding", "well-formed attribute", fmt_bytes(&want));
                return;
            }
            acc.nontrivial += 1;
            acc.outcome("parsed value: all destination sizes");
            attr_paths(acc, case, w, &want, k.name());
        }
        "raw" => {
            let t = case.args[0] as u16;
            let r = RawAttribute::new(AttributeType::new(t), &case.data);
            let want = wire::encode_attr(t, &case.data, 0);
            acc.nontrivial += 1;
            acc.outcome("raw: all destination sizes");
            attr_paths(acc, case, &r, &want, "raw");
            let owned = r.clone().into_owned();
            if owned.to_bytes() != want || owned.value[..] != r.value[..] || owned.get_type() != r.get_type() {
                viol!(acc, P, "raw-into-owned", case, "RawAttribute::into_owned changes the attribute", fmt_bytes(&want), fmt_bytes(&owned.to_bytes()));
            }
        }
        "builder" => {
            let p = Prog::from_case(case);
            let n = p.ops.len();
            let mut obs: Option<(Vec<u8>, usize, Vec<u8>, Vec<u8>, Vec<(usize, Result<usize, String>, Vec<u8>)>)> = None;
            let mut refused = false;
            let do_obs = |b: &stun_types::message::MessageBuilder| {
                let built = b.build();
                let len = built.len();
                let cl = b.clone().build();
                let ow = b.clone().into_owned().build();
                let mut writes = Vec::new();
                // programs that look at the builder in mid-construction (Measure) repeat a program that
                // is also run plain with every size: for them the sizes around the header and the end
                // destinations of 64 KiB and more for every 16th builder
                if (len + n) % 16 == 0 {
                    for size in [65_535usize, 65_536, 65_536 + len - 1, 131_072, 1 << 20] {
                        let mut dest = vec![0xAAu8; size];
                        let r = b.write_into(&mut dest).map_err(|e| match too_small(&e) {
                            Some((e1, a1)) => format!("TooSmall({e1},{a1}) for a destination of {size} bytes"),
                            None => format!("{e:?}"),
                        });
                        // judged below like a destination of len + 16 bytes (its first len + 16 bytes)
                        dest.truncate(len + 16);
                        writes.push((len + 16, r, dest));
                    }
                }
                let measured = p.ops.iter().any(|o| matches!(o, Op::Measure));
                let sizes: Vec<usize> = if measured || len > 1500 { (0..=len + 16).filter(|s| *s <= 1 || (19..=21).contains(s) || *s + 5 >= len).collect() } else { (0..=len + 16).collect() };
                for size in sizes {
                    let mut dest = vec![0xAAu8; size];
                    let r = b.write_into(&mut dest).map_err(|e| match too_small(&e) {
                        Some((e1, a1)) => format!("TooSmall({e1},{a1})"),
                        None => format!("{e:?}"),
                    });
                    writes.push((size, r, dest));
                }
                (built, b.byte_len(), cl, ow, writes)
            };
            if n == 0 {
                let b = real::builder(p.class, p.method, p.tid);
                obs = Some(do_obs(&b));
            } else {
                let r = prog::execute(&p, |i, r, b| {
                    if r.is_err() {
                        refused = true;
                    }
                    if i + 1 == n {
                        obs = Some(do_obs(b));
                    }
                });
                if r.is_err() {
                    acc.evaluations += 1;
                    acc.outcome("builder: a typed value is refused by its constructor");
                    return;
                }
            }
            if refused {
                acc.evaluations += 1;
                acc.outcome("builder: program contains a refused operation (C11)");
                return;
            }
            let (built, byte_len, cl, ow, writes) = obs.unwrap();
            acc.nontrivial += 1;
            acc.outcome("builder: all destination sizes");
            let len = built.len();
            if byte_len != len {
                viol!(acc, P, "byte_len-vs-build", case, "byte_len() differs from build().len()", format!("{len}"), format!("{byte_len}"));
            }
            if cl != built {
                viol!(acc, P, "clone-build", case, "clone().build() differs from build()", fmt_bytes(&built), fmt_bytes(&cl));
            }
            if ow != built {
                viol!(acc, P, "into_owned-build", case, "into_owned().build() differs from build()", fmt_bytes(&built), fmt_bytes(&ow));
            }
            for (size, r, dest) in writes {
                acc.evaluations += 1;
                match r {
                    Ok(nw) => {
                        if size < len {
                            viol!(acc, P, "builder-short-write-accepted", case, format!("write_into({size} bytes) succeeded although {len} are needed"), "Err(TooSmall)", format!("Ok({nw})"));
                        } else {
                            if nw != len || dest[..len] != built[..] {
                                viol!(acc, P, "builder-write_into-bytes", case, "write_into gives other bytes than build()", format!("Ok({len}) {}", fmt_bytes(&built)), format!("Ok({nw}) {}", fmt_bytes(&dest[..len.min(dest.len())])));
                            }
                            if dest[len..].iter().any(|b| *b != 0xAA) {
                                viol!(acc, P, "builder-writes-beyond-length", case, "write_into touched bytes beyond the reported length", "untouched", fmt_bytes(&dest[len..]));
                            }
                        }
                    }
                    Err(e) => {
                        if size >= len {
                            viol!(acc, P, "builder-write-refused", case, format!("write_into({size} bytes) fails although {len} suffice"), "Ok", e.clone());
                        } else if e != format!("TooSmall({len},{size})") {
                            viol!(acc, P, "builder-too-small-counts", case, "write_into a short buffer reports the wrong sizes", format!("TooSmall({len},{size})"), e.clone());
                        }
                        if dest.iter().any(|b| *b != 0xAA) {
                            viol!(acc, P, "builder-failed-write-touches", case, "a failed write_into wrote into the destination", "untouched", fmt_bytes(&dest));
                        }
                    }
                }
            }
        }
        other => panic!("harness: unknown C12 op {other}"),
    }
}
