//! C08 — each built-in attribute decodes exactly the RFC encodings and round-trips.
//! Engine IN over the value space of each of the 19 types; three-valued reference verdict.

use crate::common::*;
use crate::engine_in::values;
use crate::props::judge_guarded;
use crate::real::{self, PErr};
use crate::refimpl::attrs::{self, Kind, Val, Verdict, ALL_KINDS};
use crate::viol;
use rayon::prelude::*;
use serde_json::json;
use stun_types::attribute::*;

const P: &str = "C08";
const TID: u128 = 0x0102_0304_0506_0708_090A_0B0C;

fn tid_of(case: &Case) -> u128 {
    case.text.get(1).map(|s| u128::from_str_radix(s, 16).unwrap()).unwrap_or(TID)
}

pub fn run(ctx: &Ctx) -> Report {
    let max_short = ctx.tier.pick(2usize, 3usize);
    // (a) all short values x all kinds
    let n_short: u64 = (0..=max_short).map(|l| 256u64.pow(l as u32)).sum();
    let acc_a = ALL_KINDS
        .par_iter()
        .flat_map(|k| (0..n_short).into_par_iter().map(move |i| (*k, i)))
        .fold(Acc::default, |mut acc, (k, mut i)| {
            let mut len = 0usize;
            let mut span = 1u64;
            while i >= span {
                i -= span;
                len += 1;
                span *= 256;
            }
            let data: Vec<u8> = (0..len).map(|j| (i >> (8 * (len - 1 - j))) as u8).collect();
            let case = Case::new("decode", data).args(&[k.code() as i64]).text(&[k.name()]);
            judge_guarded(judge, &case, &mut acc);
            acc
        })
        .reduce(Acc::default, |a, b| a.merge(b));
    // (b) lengths 0..=800 x patterns + type-specific parts; (c) wrong type codes; (d) encode side
    let uni = values::type_universe();
    let seed = ctx.seeded(8);
    let acc_b = ALL_KINDS
        .par_iter()
        .map(|k| {
            let mut acc = Acc::default();
            let vals = values::decode_values(*k, ctx.tier);
            for (i, v) in vals.iter().enumerate() {
                let case = Case::new("decode", v.clone()).args(&[k.code() as i64]).text(&[k.name()]);
                if i == vals.len() / 2 {
                    acc.sample(case.brief());
                }
                judge_guarded(judge, &case, &mut acc);
            }
            // wrong type: a value that the right type would accept, under every other type code
            let good = values::encode_values(*k, seed);
            for t in &uni {
                for (v, _) in good.iter().take(3) {
                    let case = Case::new("decode", v.clone()).args(&[*t as i64]).text(&[k.name()]);
                    judge_guarded(judge, &case, &mut acc);
                }
            }
            for (i, (v, tid)) in good.iter().enumerate() {
                let case = Case::new("encode", v.clone()).text(&[k.name(), &format!("{tid:x}")]);
                if i == good.len() / 3 {
                    acc.sample(case.brief());
                }
                judge_guarded(judge, &case, &mut acc);
            }
            // byte-lane walk around valid base encodings, both directions
            for (v, tid) in values::lane_walk(*k, seed) {
                let t = format!("{tid:x}");
                judge_guarded(judge, &Case::new("decode", v.clone()).args(&[k.code() as i64]).text(&[k.name(), &t]), &mut acc);
                judge_guarded(judge, &Case::new("encode", v).text(&[k.name(), &t]), &mut acc);
            }
            acc
        })
        .reduce(Acc::default, |a, b| a.merge(b));
    // (c) the other constructors: ErrorCode::builder(code) with and without a reason for every code
    // 0..=1100 (accepted exactly for 300..=699, code preserved, encoding decodes to the same value),
    // Userhash::compute over pairs of the text alphabet (SHA-256 of user ":" realm, RFC 8489 14.4)
    let mut helper_cases: Vec<Case> = (0..=1100i64).map(|c| Case::new("errorcode-builder", vec![]).args(&[c]).text(&["ERROR-CODE"])).collect();
    let texts: Vec<Vec<u8>> = values::encode_values(Kind::Username, seed).into_iter().map(|(v, _)| v).filter(|v| v.len() <= 64 && std::str::from_utf8(v).is_ok()).collect();
    for u in &texts {
        for r in texts.iter().step_by(3) {
            let mut d = (u.len() as u16).to_be_bytes().to_vec();
            d.extend_from_slice(u);
            d.extend_from_slice(r);
            helper_cases.push(Case::new("userhash-compute", d).text(&["USERHASH"]));
        }
    }
    let acc_c = crate::props::sweep(helper_cases.into_par_iter(), judge);
    let mut acc = acc_a.merge(acc_b).merge(acc_c);
    acc.nontrivial = acc.evaluations; // every generated (kind, type code, value) triple is distinct by construction
    Report {
        acc,
        exhaustive: true,
        rule: "per attribute type: all values of length <= bound; lengths 0..=800 x content patterns (UTF-8 complete/cut/invalid); all 65536 ERROR-CODE class/number pairs x 8 reasons; all 256 family bytes x 7 lengths; algorithm word lists; every type code of the universe as wrong type; encode side over constructible values; byte-lane walk (every byte position x all 256 values) around 2-8 valid base encodings per type, decode and encode side; ErrorCode::builder for every code 0..=1100 x 4 reasons; Userhash::compute over pairs of the text alphabet".into(),
        bounds: json!({"short_values_max_len": max_short, "kinds": 19, "pattern_lengths": "0..=800"}),
        assumptions: vec!["DON'T-CARE regions (DESIGN.md C08) are executed for panics only".into()],
        ..Default::default()
    }
}

fn plain(k: Kind, v: Val, tid: u128) -> Val {
    match (k, v) {
        (Kind::XorMappedAddress, Val::Addr(a)) => Val::Addr(attrs::xor_addr(a, tid)),
        (_, v) => v,
    }
}

pub fn judge(case: &Case, acc: &mut Acc) {
    acc.evaluations += 1;
    acc.validated += 1;
    let k = Kind::from_name(&case.text[0]).expect("kind");
    let tid = tid_of(case);
    match case.op.as_str() {
        "decode" => {
            let code = case.args[0] as u16;
            let raw = RawAttribute::new(AttributeType::new(code), &case.data);
            let real = real::from_raw_typed(k, &raw);
            let tf = real::try_from_ok(k, &raw);
            if tf != real.is_ok() {
                viol!(acc, P, "from_raw-vs-try_from", case, "from_raw and TryFrom disagree", format!("{}", real.is_ok()), format!("{tf}"));
            }
            // the same value at the other three residues of its memory address modulo 4 (a message
            // parsed in place behind a 2-byte TCP length prefix, in a ring buffer ...): the decoding is a
            // function of the bytes, not of where they lie
            {
                let first = real.as_ref().map(|t| real::typed_fields(t, tid)).map_err(|e| e.clone());
                let len = case.data.len();
                let mut buf = vec![0xEEu8; len + 8];
                let a0 = buf.as_ptr() as usize;
                for r in 1..4usize {
                    let s0 = (0..8usize).find(|s| (a0 + s) % 4 == r).unwrap();
                    buf[s0..s0 + len].copy_from_slice(&case.data);
                    let v = &buf[s0..s0 + len];
                    let raw_r = RawAttribute::new(AttributeType::new(code), v);
                    let got = real::from_raw_typed(k, &raw_r).map(|t| real::typed_fields(&t, tid));
                    if got != first {
                        viol!(acc, P, &format!("decode-depends-on-alignment/{}", k.name()), case, format!("the same value decodes differently when it lies at an address that is {} modulo 4", v.as_ptr() as usize % 4), format!("{first:?}"), format!("{got:?}"));
                        break;
                    }
                }
            }
            if code != k.code() {
                match real {
                    Err(PErr::WrongAttributeImplementation) => acc.outcome("wrong type refused"),
                    Err(e) => {
                        acc.outcome("VIOLATION: wrong type, other error");
                        viol!(acc, P, "wrong-type-cause", case, "a raw attribute of another type is refused with another cause", "WrongAttributeImplementation", format!("{e:?}"));
                    }
                    Ok(_) => {
                        acc.outcome("VIOLATION: wrong type accepted");
                        viol!(acc, P, "wrong-type-accepted", case, "a raw attribute of another type was decoded", "Err(WrongAttributeImplementation)", "Ok");
                    }
                }
                return;
            }
            match (attrs::decode(k, &case.data), real) {
                (Verdict::Accept(want), Ok(t)) => {
                    acc.outcome("accepted");
                    let got = real::typed_fields(&t, tid);
                    let want_plain = plain(k, want.clone(), tid);
                    if got != want_plain {
                        viol!(acc, P, &format!("fields/{}", k.name()), case, "decoded fields differ from the encoded ones", format!("{want_plain:?}"), format!("{got:?}"));
                    }
                    if k == Kind::UnknownAttributes {
                        if let Val::List(l) = &want {
                            for probe in [0x0006u16, 0x7F00, 0x1011, 0xFFFF] {
                                if real::unknown_has(&raw, probe).ok() != Some(l.contains(&probe)) {
                                    viol!(acc, P, "unknown-attributes-has", case, "UnknownAttributes::has_attribute disagrees with the list", format!("{}", l.contains(&probe)), "other");
                                }
                            }
                        }
                    }
                    // re-encode: type, length, bytes = canonical reference encoding; stable under decode/encode
                    let canon = attrs::encode(k, &want);
                    let r = t.as_write().to_raw();
                    if r.get_type().value() != k.code() || r.length() as usize != canon.len() || r.value[..] != canon[..] {
                        viol!(acc, P, &format!("reencode/{}", k.name()), case, "re-encoding a decoded value is not the canonical RFC encoding", format!("{:#06x} {}", k.code(), fmt_bytes(&canon)), format!("{:#06x} {}", r.get_type().value(), fmt_bytes(&r.value)));
                    } else {
                        let again = real::from_raw_typed(k, &r).map(|t2| (real::typed_fields(&t2, tid), t2.as_write().to_raw().value.to_vec()));
                        if again != Ok((want_plain, canon)) {
                            viol!(acc, P, "reencode-unstable", case, "encode(decode(encode(decode(x)))) != encode(decode(x))", "stable", format!("{again:?}"));
                        }
                    }
                    let _ = t.display();
                }
                (Verdict::Accept(want), Err(e)) => {
                    acc.outcome("VIOLATION: valid encoding refused");
                    viol!(acc, P, &format!("refuses-valid/{}", k.name()), case, "an RFC-valid encoding was refused", format!("Ok({want:?})"), format!("{e:?}"));
                }
                (Verdict::Reject(why), Ok(t)) => {
                    acc.outcome("VIOLATION: invalid encoding accepted");
                    viol!(acc, P, &format!("accepts-invalid/{}", k.name()), case, format!("an encoding the RFC does not allow was accepted ({why})"), "Err", format!("Ok({:?})", real::typed_fields(&t, tid)));
                }
                (Verdict::Reject(_), Err(_)) => acc.outcome("refused"),
                (Verdict::DontCare(_), r) => {
                    acc.outcome(if r.is_ok() { "don't-care region: accepted" } else { "don't-care region: refused" });
                    if let Ok(t) = r {
                        let _ = t.display();
                        let _ = t.as_write().to_raw();
                    }
                }
            }
        }
        "encode" => {
            let Some(val) = attrs::fields_lenient(k, &case.data) else {
                acc.outcome("encode: value not representable");
                return;
            };
            let pv = plain(k, val.clone(), tid);
            let typed = match real::construct(k, &pv, tid) {
                Ok(t) => t,
                Err(_) => {
                    acc.outcome("encode: constructor refused");
                    if matches!(attrs::decode(k, &case.data), Verdict::Accept(_)) {
                        // not demanded by the statement (only accepted values must round-trip); counted
                        acc.outcome("encode: constructor refused an RFC-valid value (not charged)");
                    }
                    return;
                }
            };
            acc.outcome("encode: constructed");
            if k == Kind::PasswordAlgorithms && case.data.is_empty() {
                acc.outcome("encode: empty PASSWORD-ALGORITHMS (don't-care)");
                return;
            }
            let canon = attrs::encode(k, &val);
            let w = typed.as_write();
            let r = w.to_raw();
            if r.get_type().value() != k.code() || w.get_type().value() != k.code() {
                viol!(acc, P, &format!("type-code/{}", k.name()), case, "encoded attribute carries the wrong type code", format!("{:#06x}", k.code()), format!("{:#06x}", r.get_type().value()));
            }
            if r.length() as usize != canon.len() || w.length() as usize != canon.len() || r.value[..] != canon[..] {
                viol!(acc, P, &format!("wire-layout/{}", k.name()), case, "encoded value is not the RFC wire layout", format!("len {} {}", canon.len(), fmt_bytes(&canon)), format!("len {}/{} {}", r.length(), w.length(), fmt_bytes(&r.value)));
            }
            let mut want_bytes = crate::refimpl::wire::encode_attr(k.code(), &canon, 0);
            let got_bytes = r.to_bytes();
            if got_bytes != want_bytes {
                viol!(acc, P, &format!("wire-bytes/{}", k.name()), case, "RawAttribute::to_bytes is not type|length|value|zero padding", fmt_bytes(&want_bytes), fmt_bytes(&got_bytes));
            }
            // the in-place writer, into a buffer that held other bytes before (a reused send buffer): the
            // same type | length | value | zero padding, nothing beyond
            {
                let mut dirty = vec![0xA5u8; want_bytes.len() + 5];
                let r2 = w.write_into(&mut dirty);
                if !matches!(r2, Ok(n) if n == want_bytes.len()) || dirty[..want_bytes.len()] != want_bytes[..] || dirty[want_bytes.len()..].iter().any(|b| *b != 0xA5) {
                    viol!(acc, P, &format!("wire-bytes-in-place/{}", k.name()), case, "write_into a buffer that held other bytes does not give type|length|value|zero padding (or touches bytes beyond)", fmt_bytes(&want_bytes), format!("{r2:?} {}", fmt_bytes(&dirty)));
                }
            }
            // the header-only encoder: type code and value length into four bytes, whatever follows
            for size in [4usize, 5, 8, want_bytes.len() + 3] {
                let mut hd = vec![0xA5u8; size];
                let r3 = w.write_header(&mut hd);
                if !matches!(r3, Ok(4)) || hd[..4] != want_bytes[..4] || hd[4..].iter().any(|b| *b != 0xA5) {
                    viol!(acc, P, &format!("wire-header/{}", k.name()), case, format!("write_header into {size} bytes does not give the type code and the value length (or touches bytes beyond the four)"), fmt_bytes(&want_bytes[..4]), format!("{r3:?} {}", fmt_bytes(&hd)));
                    break;
                }
            }
            want_bytes.clear();
            if real::typed_fields(&typed, tid) != pv {
                viol!(acc, P, &format!("getter/{}", k.name()), case, "getters of a constructed value do not return what was put in", format!("{pv:?}"), format!("{:?}", real::typed_fields(&typed, tid)));
            }
            let in_limit = !matches!(attrs::decode(k, &case.data), Verdict::Reject(_));
            if !in_limit {
                // the constructor accepted a value beyond the documented limit (e.g. ErrorCode::new
                // does not bound the reason): outside "every in-limit value", not charged
                acc.outcome("encode: constructed an out-of-limit value (round trip not demanded)");
                return;
            }
            match real::from_raw_typed(k, &r) {
                Ok(back) => {
                    if real::typed_fields(&back, tid) != pv {
                        viol!(acc, P, &format!("roundtrip/{}", k.name()), case, "decode(encode(v)) != v", format!("{pv:?}"), format!("{:?}", real::typed_fields(&back, tid)));
                    }
                }
                Err(e) => {
                    acc.outcome("VIOLATION: constructed value not decodable");
                    viol!(acc, P, &format!("roundtrip-refused/{}", k.name()), case, "a value the constructor accepted does not decode", format!("Ok({pv:?})"), format!("{e:?}"));
                }
            }
            let _ = typed.display();
        }
        "errorcode-builder" => {
            use stun_types::attribute::ErrorCode;
            let code = case.args[0] as u16;
            for reason in [None, Some(""), Some("because"), Some("caf\u{e9} \u{2603}")] {
                let b = match reason {
                    None => ErrorCode::builder(code).build(),
                    Some(r) => ErrorCode::builder(code).reason(r).build(),
                };
                match b {
                    Err(_) if !(300..=699).contains(&code) => acc.outcome("builder: out-of-range code refused"),
                    Err(e) => viol!(acc, P, "errorcode-builder-refuses", case, "ErrorCode::builder refuses a code in 300..=699", "Ok", format!("{e:?}")),
                    Ok(_) if !(300..=699).contains(&code) => viol!(acc, P, "errorcode-builder-accepts", case, "ErrorCode::builder accepts a code outside 300..=699", "Err", "Ok"),
                    Ok(e) => {
                        acc.outcome("builder: constructed");
                        let want_reason = reason.map(|r| r.to_string());
                        if e.code() != code || want_reason.as_ref().is_some_and(|r| r != e.reason()) {
                            viol!(acc, P, "errorcode-builder-value", case, "ErrorCode::builder does not keep the code / reason it was given", format!("({code}, {want_reason:?})"), format!("({}, {:?})", e.code(), e.reason()));
                        }
                        let raw = e.to_raw().value.to_vec();
                        let mut want = vec![0, 0, (code / 100) as u8, (code % 100) as u8];
                        want.extend_from_slice(e.reason().as_bytes());
                        if raw != want {
                            viol!(acc, P, "errorcode-builder-wire", case, "an ERROR-CODE made by the builder does not encode per RFC 8489 14.8", fmt_bytes(&want), fmt_bytes(&raw));
                        }
                        match ErrorCode::from_raw(&RawAttribute::new(AttributeType::new(0x0009), &raw)) {
                            Ok(back) if back.code() == code && back.reason() == e.reason() => {}
                            other => viol!(acc, P, "errorcode-builder-roundtrip", case, "an ERROR-CODE made by the builder does not decode to itself", format!("({code}, {:?})", e.reason()), format!("{other:?}")),
                        }
                    }
                }
            }
        }
        "userhash-compute" => {
            use stun_types::attribute::Userhash;
            let ul = u16::from_be_bytes([case.data[0], case.data[1]]) as usize;
            let user = std::str::from_utf8(&case.data[2..2 + ul]).unwrap();
            let realm = std::str::from_utf8(&case.data[2 + ul..]).unwrap();
            let mut input = user.as_bytes().to_vec();
            input.push(b':');
            input.extend_from_slice(realm.as_bytes());
            let want = crate::refimpl::crypto::sha256(&input);
            let got = Userhash::compute(user, realm);
            acc.outcome("userhash computed");
            if got[..] != want[..] {
                viol!(acc, P, "userhash-compute", case, "Userhash::compute is not SHA-256(username \":\" realm) (RFC 8489 14.4)", crate::refimpl::crypto::hex(&want), crate::refimpl::crypto::hex(&got));
            }
            let a = Userhash::new(got);
            if a.hash() != &got {
                viol!(acc, P, "userhash-new", case, "Userhash::new does not keep the hash", crate::refimpl::crypto::hex(&got), crate::refimpl::crypto::hex(a.hash()));
            }
        }
        other => panic!("harness: unknown C08 op {other}"),
    }
}
