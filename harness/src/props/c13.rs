//! C13 — XOR-MAPPED-ADDRESS returns the address that was put in (RFC 8489 §14.2).

use crate::common::*;
use crate::props::judge_guarded;
use crate::refimpl::attrs::{self, Kind, Val};
use crate::viol;
use rayon::prelude::*;
use serde_json::json;
use std::net::{IpAddr, Ipv4Addr, Ipv6Addr, SocketAddr};
use std::sync::atomic::{AtomicU64, Ordering};
use stun_types::attribute::*;

const P: &str = "C13";
const MASK96: u128 = (1u128 << 96) - 1;

/// Returns the clause that failed, if any.  `deep` adds the wire round trip through bytes and
/// (IPv6) the 96 single-bit-different transaction ids.
/// "the address that was put in": IP address and port.  The zone and flow label of an IPv6 socket
/// address are local to the host and not part of the RFC 8489 encoding; whether they come back as
/// given or as zero is left open, but they never change the address, the port or the wire value.
fn same_addr(back: SocketAddr, a: SocketAddr) -> bool {
    let plain = |x: SocketAddr| matches!(x, SocketAddr::V6(v) if v.scope_id() != 0 || v.flowinfo() != 0);
    if plain(a) {
        back.ip() == a.ip() && back.port() == a.port()
    } else {
        back == a
    }
}

fn xma_check(a: SocketAddr, t: u128, deep: bool, wide: u128) -> Option<(&'static str, String, String)> {
    if deep {
        // every operation is preceded, on the same thread, by the same operation under related
        // transaction ids (and another address): a memo or cache keyed on part of the id, or on the
        // id alone, would hand the stale result to the operation that is judged
        for t2 in [t ^ (1u128 << 95), t ^ (1u128 << 64), t ^ (1u128 << 63), t ^ 1, !t & MASK96] {
            let other = SocketAddr::new(if a.is_ipv4() { IpAddr::V6(Ipv6Addr::from([0x20, 1, 2, 3, 4, 5, 6, 7, 8, 9, 10, 11, 12, 13, 14, 15])) } else { a.ip() }, a.port() ^ 0x5555);
            let y = XorMappedAddress::new(a, (t2 | wide).into());
            let _ = y.addr((t2 | wide).into());
            let z = XorMappedAddress::new(other, (t2 | wide).into());
            let _ = z.addr((t2 | wide).into());
            let x = XorMappedAddress::new(a, (t | wide).into());
            if !same_addr(x.addr((t | wide).into()), a) {
                return Some(("addr-roundtrip-after-related-id", format!("{a}"), format!("{} after an operation under id {t2:#x}", x.addr((t | wide).into()))));
            }
            let want_wire = attrs::encode(Kind::XorMappedAddress, &Val::Addr(attrs::xor_addr(a, t)));
            if x.to_raw().value[..] != want_wire[..] {
                return Some(("wire-encoding-after-related-id", crate::refimpl::crypto::hex(&want_wire), format!("{} after an operation under id {t2:#x}", crate::refimpl::crypto::hex(&x.to_raw().value))));
            }
            if a.is_ipv6() && y.addr((t | wide).into()) == a && t2 != t {
                return Some(("v6-other-tid-same-address", "a different address".into(), format!("same address under id {t2:#x} and {t:#x}")));
            }
        }
    }
    let x = XorMappedAddress::new(a, (t | wide).into());
    let back = x.addr((t | wide).into());
    if !same_addr(back, a) {
        return Some(("addr-roundtrip", format!("{a}"), format!("{back}")));
    }
    let want_wire = attrs::encode(Kind::XorMappedAddress, &Val::Addr(attrs::xor_addr(a, t)));
    let raw = x.to_raw();
    if raw.value[..] != want_wire[..] || raw.get_type().value() != 0x0020 {
        return Some(("wire-encoding", crate::refimpl::crypto::hex(&want_wire), crate::refimpl::crypto::hex(&raw.value)));
    }
    if !deep {
        return None;
    }
    let mut dest = vec![0xAAu8; 4 + want_wire.len()];
    match x.write_into(&mut dest) {
        Ok(n) if n == dest.len() && dest[4..] == want_wire[..] && dest[0..2] == [0x00, 0x20] && dest[2..4] == (want_wire.len() as u16).to_be_bytes() => {}
        other => return Some(("wire-encoding-in-place", crate::refimpl::crypto::hex(&want_wire), format!("{other:?} {}", crate::refimpl::crypto::hex(&dest)))),
    }
    let bytes = raw.to_bytes();
    let parsed = match RawAttribute::from_bytes(&bytes) {
        Ok(p) => p,
        Err(e) => return Some(("wire-trip", "parses".into(), format!("{e:?}"))),
    };
    match XorMappedAddress::from_raw(&parsed) {
        Ok(y) => {
            if !same_addr(y.addr((t | wide).into()), a) {
                return Some(("wire-trip", format!("{a}"), format!("{}", y.addr((t | wide).into()))));
            }
            if y != x {
                return Some(("wire-trip-eq", "equal attribute".into(), format!("{y:?} vs {x:?}")));
            }
        }
        Err(e) => return Some(("wire-trip", format!("{a}"), format!("{e:?}"))),
    }
    // through a whole message: the attribute last (what a plain Binding response looks like) and followed
    // by SOFTWARE; the message parses and the typed lookup returns the address
    for last in [true, false] {
        let id = (t | wide).into();
        let mut b = stun_types::message::Message::builder(stun_types::message::MessageType::from_class_method(stun_types::message::MessageClass::Success, 1), id);
        let sw = Software::new("s").unwrap();
        if b.add_attribute(&x).is_err() || (!last && b.add_attribute(&sw).is_err()) {
            return Some(("message-trip", "attribute accepted by the builder".into(), "refused".into()));
        }
        let bytes = b.build();
        match stun_types::message::Message::from_bytes(&bytes).map_err(|e| format!("{e:?}")).and_then(|m| m.attribute::<XorMappedAddress>().map(|y| y.addr(id)).map_err(|e| format!("{e:?}"))) {
            Ok(back) if same_addr(back, a) => {}
            other => return Some(("message-trip", format!("{a}"), format!("{other:?} (attribute {} in a success response)", if last { "last" } else { "followed by SOFTWARE" }))),
        }
    }
    // decode of the reference encoding
    let r = RawAttribute::new(AttributeType::new(0x0020), &want_wire);
    match XorMappedAddress::from_raw(&r) {
        Ok(y) if same_addr(y.addr((t | wide).into()), a) => {}
        other => return Some(("decode-reference-wire", format!("{a}"), format!("{:?}", other.map(|y| y.addr((t | wide).into()))))),
    }
    if a.is_ipv6() {
        for bit in 0..96 {
            let t2 = (t & MASK96) ^ (1u128 << bit);
            if x.addr((t2 | wide).into()) == a {
                return Some(("v6-other-tid-same-address", "a different address".into(), format!("same address under tid bit {bit} flipped")));
            }
        }
    }
    None
}

fn mk_case(a: SocketAddr, t: u128) -> Case {
    let mut d = Vec::new();
    match a.ip() {
        IpAddr::V4(ip) => {
            d.push(4);
            d.extend_from_slice(&a.port().to_be_bytes());
            d.extend_from_slice(&ip.octets());
        }
        IpAddr::V6(ip) => {
            let (flow, scope) = match a {
                SocketAddr::V6(v6) => (v6.flowinfo(), v6.scope_id()),
                _ => (0, 0),
            };
            d.push(if flow != 0 || scope != 0 { 7 } else { 6 });
            d.extend_from_slice(&a.port().to_be_bytes());
            d.extend_from_slice(&ip.octets());
            if flow != 0 || scope != 0 {
                d.extend_from_slice(&flow.to_be_bytes());
                d.extend_from_slice(&scope.to_be_bytes());
            }
        }
    }
    d.extend_from_slice(&(t & MASK96).to_be_bytes()[4..16]);
    Case::new("xma", d)
}

fn parse_case(c: &Case) -> (SocketAddr, u128) {
    let d = &c.data;
    let port = u16::from_be_bytes([d[1], d[2]]);
    let (ip, rest): (IpAddr, &[u8]) = if d[0] == 4 {
        (IpAddr::V4(Ipv4Addr::new(d[3], d[4], d[5], d[6])), &d[7..])
    } else {
        let mut o = [0u8; 16];
        o.copy_from_slice(&d[3..19]);
        (IpAddr::V6(Ipv6Addr::from(o)), if d[0] == 7 { &d[27..] } else { &d[19..] })
    };
    let mut t: u128 = 0;
    for b in rest {
        t = (t << 8) | *b as u128;
    }
    if d[0] == 7 {
        if let IpAddr::V6(v6) = ip {
            let flow = u32::from_be_bytes([d[19], d[20], d[21], d[22]]);
            let scope = u32::from_be_bytes([d[23], d[24], d[25], d[26]]);
            return (SocketAddr::V6(std::net::SocketAddrV6::new(v6, port, flow, scope)), t);
        }
    }
    (SocketAddr::new(ip, port), t)
}

pub fn judge(case: &Case, acc: &mut Acc) {
    acc.evaluations += 1;
    acc.validated += 1;
    if case.op == "xma-generated" {
        acc.outcome("generated ids");
        for i in 0..case.args[0] {
            let id = stun_types::message::TransactionId::generate();
            let t: u128 = id.into();
            for a in ["[2001:db8::1]:3478", "192.0.2.1:40000", "[::ffff:1.2.3.4]:1"] {
                let a: SocketAddr = a.parse().unwrap();
                let x = XorMappedAddress::new(a, id);
                let want_wire = attrs::encode(Kind::XorMappedAddress, &Val::Addr(attrs::xor_addr(a, t & MASK96)));
                if !same_addr(x.addr(id), a) || x.to_raw().value[..] != want_wire[..] {
                    viol!(acc, P, "generated-id", case, format!("XOR-MAPPED-ADDRESS under an id from TransactionId::generate() (call {i}) does not return / encode the address as RFC 8489 §14.2 says"), format!("{a} / {}", crate::refimpl::crypto::hex(&want_wire)), format!("{} / {}", x.addr(id), crate::refimpl::crypto::hex(&x.to_raw().value)));
                    return;
                }
            }
        }
        return;
    }
    if case.op == "xma-beside" {
        // a received message that carries, beside its XOR-MAPPED-ADDRESS, an attribute of another
        // type x with an address-shaped value (another address, well-formed for XOR-MAPPED-ADDRESS):
        // attribute::<XorMappedAddress>() returns the address of the 0x0020 attribute
        let x = case.args[0] as u16;
        let t: u128 = 0x0D0C_0B0A_0908_0706_0504_0302;
        acc.outcome("address read from a message carrying an address-shaped attribute of another type");
        for (a, decoy) in [("192.0.2.33:40001", "203.0.113.9:5000"), ("[2001:db8::33]:40001", "[2001:db8:ffff::9]:5000"), ("192.0.2.33:40001", "[2001:db8:ffff::9]:5000")] {
            let (a, decoy): (SocketAddr, SocketAddr) = (a.parse().unwrap(), decoy.parse().unwrap());
            let decoy_val = attrs::encode(Kind::XorMappedAddress, &Val::Addr(attrs::xor_addr(decoy, t)));
            let xma = XorMappedAddress::new(a, t.into());
            for decoy_first in [true, false] {
                let mut b = crate::real::builder(2, 1, t);
                let r = RawAttribute::new(AttributeType::new(x), &decoy_val);
                if decoy_first {
                    b.add_raw_attribute(r).unwrap();
                    b.add_attribute(&xma).unwrap();
                } else {
                    b.add_attribute(&xma).unwrap();
                    b.add_raw_attribute(r).unwrap();
                }
                let bytes = b.build();
                let got = stun_types::message::Message::from_bytes(&bytes).map_err(|e| format!("{e:?}")).and_then(|m| m.attribute::<XorMappedAddress>().map(|y| y.addr(t.into())).map_err(|e| format!("{e:?}")));
                if got != Ok(a) {
                    viol!(acc, P, "address-from-another-attribute", case, format!("attribute::<XorMappedAddress>() of a message whose XOR-MAPPED-ADDRESS says {a} and that also carries an attribute of type {x:#06x} ({}) holding {decoy}", if decoy_first { "before it" } else { "after it" }), format!("{a}"), format!("{got:?}"));
                    return;
                }
                // without the 0x0020 attribute there is no XOR-MAPPED-ADDRESS in the message
                let mut b = crate::real::builder(2, 1, t);
                b.add_raw_attribute(RawAttribute::new(AttributeType::new(x), &decoy_val)).unwrap();
                let bytes = b.build();
                if let Ok(m) = stun_types::message::Message::from_bytes(&bytes) {
                    if let Ok(y) = m.attribute::<XorMappedAddress>() {
                        viol!(acc, P, "address-from-another-attribute", case, format!("attribute::<XorMappedAddress>() finds an address in a message that has no 0x0020 attribute, only one of type {x:#06x}"), "Err(MissingAttribute)", format!("{}", y.addr(t.into())));
                        return;
                    }
                }
            }
        }
        return;
    }
    let (a, t) = parse_case(case);
    let wide: u128 = (case.args.first().copied().unwrap_or(0) as u128 & 0xFFFF_FFFF) << 96;
    match xma_check(a, t, true, wide) {
        None => acc.outcome(if a.is_ipv4() { "ipv4 ok" } else { "ipv6 ok" }),
        Some((clause, exp, obs)) => {
            acc.outcome("VIOLATION");
            viol!(acc, P, clause, case, "XOR-MAPPED-ADDRESS does not return / encode the address as RFC 8489 §14.2 says", exp, obs);
        }
    }
}

pub fn run(ctx: &Ctx) -> Report {
    let seed_t = ((ctx.seeded(13) as u128) << 32 | ctx.seeded(14) as u128) & MASK96;
    let cookie_t: u128 = 0x2112_A442_2112_A442_2112_A442;
    let tids = [0u128, MASK96, cookie_t, seed_t];
    let key: [u8; 16] = {
        let mut k = [0u8; 16];
        k[0..4].copy_from_slice(&[0x21, 0x12, 0xA4, 0x42]);
        k[4..16].copy_from_slice(&seed_t.to_be_bytes()[4..16]);
        k
    };
    let mut cases: Vec<Case> = Vec::new();
    // all ports x 4 addresses x 3 tids
    let addrs: Vec<IpAddr> = vec![
        IpAddr::V4(Ipv4Addr::new(192, 0, 2, 1)),
        IpAddr::V4(Ipv4Addr::new(0x21, 0x12, 0xA4, 0x42)),
        IpAddr::V6(Ipv6Addr::from([0x20, 0x01, 0x0d, 0xb8, 0x12, 0x34, 0x56, 0x78, 0x00, 0x11, 0x22, 0x33, 0x44, 0x55, 0x66, 0x77])),
        IpAddr::V6(Ipv6Addr::from(key)),
    ];
    for port in 0..=0xFFFFu16 {
        for ip in &addrs {
            for t in [0u128, MASK96, seed_t] {
                cases.push(mk_case(SocketAddr::new(*ip, port), t));
            }
        }
    }
    // byte-lane walks: each address byte takes all 256 values against 5 backgrounds; same for tid bytes
    let backgrounds6: Vec<[u8; 16]> = vec![[0; 16], [0xFF; 16], key, {
        let mut c = key;
        for b in c.iter_mut() {
            *b = !*b;
        }
        c
    }, {
        let mut s = [0u8; 16];
        for (i, b) in s.iter_mut().enumerate() {
            *b = (ctx.seeded(100 + i as u64) & 0xFF) as u8;
        }
        s
    }];
    for bg in &backgrounds6 {
        for lane in 0..16 {
            for v in 0..=255u8 {
                let mut o = *bg;
                o[lane] = v;
                cases.push(mk_case(SocketAddr::new(IpAddr::V6(Ipv6Addr::from(o)), 3478), seed_t));
                if lane < 4 {
                    cases.push(mk_case(SocketAddr::new(IpAddr::V4(Ipv4Addr::new(if lane == 0 { v } else { bg[0] }, if lane == 1 { v } else { bg[1] }, if lane == 2 { v } else { bg[2] }, if lane == 3 { v } else { bg[3] })), 3478), seed_t));
                }
            }
        }
        // tid lanes
        for lane in 0..12 {
            for v in 0..=255u8 {
                let mut tb = [0u8; 16];
                tb[4..16].copy_from_slice(&bg[4..16]);
                tb[4 + lane] = v;
                let t = u128::from_be_bytes(tb) & MASK96;
                cases.push(mk_case(SocketAddr::new(IpAddr::V6(Ipv6Addr::from(backgrounds6[4])), 1), t));
                cases.push(mk_case(SocketAddr::new(IpAddr::V4(Ipv4Addr::new(10, 1, 2, 3)), 1), t));
            }
        }
    }
    for t in tids {
        for ip in &addrs {
            cases.push(mk_case(SocketAddr::new(*ip, 0x2112), t));
        }
    }
    // special-purpose addresses (an implementation that canonicalises or classifies addresses shows here)
    for txt in ["::", "::1", "::ffff:1.2.3.4", "::ffff:33.18.164.66", "::ffff:255.255.255.255", "::1.2.3.4", "64:ff9b::c000:201", "fe80::1", "ff02::1", "2002:c000:201::", "fc00::", "100::", "0.0.0.0", "255.255.255.255", "127.0.0.1", "224.0.0.1", "169.254.0.1"] {
        let ip: IpAddr = txt.parse().unwrap();
        for port in [0u16, 1, 0x2112, 0x8000, 0xFFFF] {
            for t in tids {
                cases.push(mk_case(SocketAddr::new(ip, port), t));
            }
        }
    }
    // addresses (and ports) whose *obfuscated* form is one of the special-purpose addresses: the value
    // an implementation keeps or puts on the wire is then ::, ::ffff:a.b.c.d, fe80::1, 0.0.0.0, port 0 ...
    for txt in ["::", "::1", "::ffff:1.2.3.4", "::ffff:33.18.164.66", "::ffff:0.0.0.0", "::ffff:255.255.255.255", "::1.2.3.4", "64:ff9b::c000:201", "fe80::1", "ff02::1", "2002:c000:201::", "fc00::", "100::", "0.0.0.0", "255.255.255.255", "127.0.0.1", "224.0.0.1", "169.254.0.1"] {
        let wire_ip: IpAddr = txt.parse().unwrap();
        for wire_port in [0u16, 1, 0x2112, 0xFFFF] {
            for t in tids {
                let port = wire_port ^ 0x2112;
                let ip = match wire_ip {
                    IpAddr::V4(v4) => IpAddr::V4(Ipv4Addr::from(u32::from(v4) ^ 0x2112_A442)),
                    IpAddr::V6(v6) => {
                        let k: u128 = (0x2112_A442u128 << 96) | (t & ((1u128 << 96) - 1));
                        IpAddr::V6(Ipv6Addr::from(u128::from(v6) ^ k))
                    }
                };
                cases.push(mk_case(SocketAddr::new(ip, port), t));
            }
        }
    }
    // transaction ids built from integers wider than 96 bits (TransactionId::from masks them; whatever
    // is derived from the id must be derived from the masked value): the same addresses under ids
    // with bits 96..128 set
    for txt in ["2001:db8::1", "::1", "fe80::1", "192.0.2.1", "2112:a442::1"] {
        let ip: IpAddr = txt.parse().unwrap();
        for wide in [0xFFFF_FFFFi64, 0x0000_0001, 0x8000_0000, 0xDEED_BEEF, 0x2112_A442] {
            for t in tids {
                let mut c = mk_case(SocketAddr::new(ip, 3478), t);
                c.args = vec![wide];
                cases.push(c);
            }
        }
    }
    // ... and under ids from TransactionId::generate() (the ids an application really has)
    cases.push(Case::new("xma-generated", vec![]).args(&[4000]));
    // socket addresses with a zone (scope id) or a flow label, as recv_from hands them to a server
    // for link-local peers, and plain addresses of the forms a zone could be folded into
    for txt in ["fe80::1", "fe80::abcd:1234:5678:9abc", "ff02::1", "2001:db8::1", "::1", "fe80:2::1", "fe80:ffff::1", "fe80:0:1::1", "fe80::2:0:0:1", "fec0::1"] {
        let ip: Ipv6Addr = txt.parse().unwrap();
        for (flow, scope) in [(0u32, 1u32), (0, 2), (0, 0xFFFF), (0, 0x1_0000), (0, u32::MAX), (5, 0), (0xF_FFFF, 3), (0, 0)] {
            for port in [0u16, 40000] {
                for t in tids {
                    cases.push(mk_case(SocketAddr::V6(std::net::SocketAddrV6::new(ip, port, flow, scope)), t));
                }
            }
        }
    }
    // lane pairs with all 65536 value pairs: IPv4 all 6 pairs; IPv6 adjacent lanes and lanes 8 apart
    // (carries, sign extension and word-boundary slips need two lanes to show)
    for i in 0..4usize {
        for j in i + 1..4 {
            for x in 0..=0xFFFFu32 {
                let mut o = [10u8, 1, 2, 3];
                o[i] = (x >> 8) as u8;
                o[j] = x as u8;
                cases.push(mk_case(SocketAddr::new(IpAddr::V4(Ipv4Addr::from(o)), 0x8001), seed_t));
            }
        }
    }
    let mut pairs6: Vec<(usize, usize)> = (0..15).map(|i| (i, i + 1)).collect();
    pairs6.extend((0..8).map(|i| (i, i + 8)));
    let stride = ctx.tier.pick(5u32, 1u32); // quick: every 5th second-lane value + the boundary set
    for (i, j) in pairs6 {
        for a in 0..=255u32 {
            for b in 0..=255u32 {
                if b % stride != 0 && ![0x01, 0x21, 0x42, 0x7F, 0x80, 0xA4, 0xFF].contains(&b) {
                    continue;
                }
                let mut o = backgrounds6[4];
                o[i] = a as u8;
                o[j] = b as u8;
                cases.push(mk_case(SocketAddr::new(IpAddr::V6(Ipv6Addr::from(o)), 0x7FFF), seed_t));
            }
        }
    }
    // addresses (and ports) whose *obfuscated* form reads as the header of a sealing attribute - 80 28 00 04
    // (FINGERPRINT), 00 08 00 14 (MESSAGE-INTEGRITY), 00 1c 00 20 / 00 1c 00 10 (MESSAGE-INTEGRITY-SHA256) -
    // at every 4-aligned offset of the value, under every id of the set: in a message that ends with this
    // attribute those bytes lie where a trailing sealing attribute would
    for t in tids {
        let mut k = [0u8; 16];
        k[0..4].copy_from_slice(&[0x21, 0x12, 0xA4, 0x42]);
        k[4..16].copy_from_slice(&(t & MASK96).to_be_bytes()[4..16]);
        for hdr in [[0x80u8, 0x28, 0x00, 0x04], [0x00, 0x08, 0x00, 0x14], [0x00, 0x1C, 0x00, 0x20], [0x00, 0x1C, 0x00, 0x10], [0x80, 0x28, 0x00, 0x00]] {
            for off in [0usize, 4, 8, 12] {
                for bg in [[0u8; 16], [0x5A; 16]] {
                    let mut o = bg;
                    for i in 0..4 {
                        o[off + i] = hdr[i] ^ k[off + i];
                    }
                    for port in [3478u16, 0x8028 ^ 0x2112, 0x0008 ^ 0x2112] {
                        cases.push(mk_case(SocketAddr::new(IpAddr::V6(Ipv6Addr::from(o)), port), t));
                    }
                }
            }
            let v4 = [hdr[0] ^ 0x21, hdr[1] ^ 0x12, hdr[2] ^ 0xA4, hdr[3] ^ 0x42];
            for port in [3478u16, 0x8028 ^ 0x2112, 0x0004 ^ 0x2112] {
                cases.push(mk_case(SocketAddr::new(IpAddr::V4(Ipv4Addr::from(v4)), port), t));
            }
        }
    }
    // every other 16-bit attribute type carrying an address-shaped value beside the XOR-MAPPED-ADDRESS
    for x in 0..=0xFFFFi64 {
        if ![0x0020, 0x0008, 0x001C, 0x8028].contains(&x) {
            cases.push(Case::new("xma-beside", vec![]).args(&[x]));
        }
    }
    let n_cases = cases.len() as u64;
    let mut acc = cases
        .into_par_iter()
        .fold(Acc::default, |mut acc, case| {
            if acc.samples.len() < 2 && acc.evaluations % 100_003 == 7 {
                acc.sample(case.brief());
            }
            judge_guarded(judge, &case, &mut acc);
            acc
        })
        .reduce(Acc::default, |a, b| a.merge(b));
    acc.nontrivial = n_cases;
    let mut bounds = json!({"ports": 65536, "lane_walk_backgrounds": 5, "cases": n_cases});
    let mut rule = "all 65536 ports x 4 addresses x 3 tids; every byte lane of IPv4/IPv6 address and of the transaction id takes all 256 values against 5 backgrounds (zeros, ones, equal to the XOR key, complement, seeded); boundary tids; 17 special-purpose addresses (unspecified, loopback, IPv4-mapped / -compatible, NAT64, link-local, multicast, 6to4, ...) x 5 ports x 4 tids, and the addresses whose obfuscated (XOR-ed) form is one of those; transaction ids built from integers wider than 96 bits and 4000 ids from TransactionId::generate(); IPv6 socket addresses with scope ids and flow labels (the IP address, port and wire value must not depend on them); IPv4: all 6 lane pairs x all 65536 value pairs; IPv6: adjacent lanes and lanes 8 apart x 256 x (every 5th value + boundary set; all 256 in thorough); IPv6: all 96 single-bit-different tids; every case also through a whole message (the attribute last / followed by SOFTWARE); addresses whose obfuscated form reads as the header of a sealing attribute at every 4-aligned offset; for every other 16-bit attribute type x (the sealing types apart): a message carrying an address-shaped attribute of type x before / after / instead of its XOR-MAPPED-ADDRESS, read with attribute::<XorMappedAddress>(); every judged operation is preceded on the same thread by operations under five related transaction ids".to_string();
    if ctx.tier == Tier::Thorough {
        // all 2^32 IPv4 addresses (fast path: address round trip + wire encoding)
        let fails = AtomicU64::new(0);
        let first_fail: std::sync::Mutex<Option<(SocketAddr, u128, &'static str, String, String)>> = std::sync::Mutex::new(None);
        let total = AtomicU64::new(0);
        (0..=0xFFFFu32).into_par_iter().for_each(|hi| {
            let mut n = 0u64;
            for lo in 0..=0xFFFFu32 {
                let ip = Ipv4Addr::from((hi << 16) | lo);
                // one evaluation per address (17 x 10^9 evaluations took 45 min); the port and the
                // transaction id vary with the address so that every port value and both ids occur
                // 65 536 times / 2^31 times over the sweep
                let port = (lo as u16) ^ (hi as u16).rotate_left(5);
                let t = if (lo ^ hi) & 1 == 0 { 0u128 } else { seed_t };
                {
                    {
                        n += 1;
                        let a = SocketAddr::new(IpAddr::V4(ip), port);
                        if let Some((c, e, o)) = xma_check(a, t, false, 0) {
                            fails.fetch_add(1, Ordering::Relaxed);
                            let mut g = first_fail.lock().unwrap();
                            if g.is_none() {
                                *g = Some((a, t, c, e, o));
                            }
                        }
                    }
                }
            }
            total.fetch_add(n, Ordering::Relaxed);
        });
        let n = total.load(Ordering::Relaxed);
        acc.evaluations += n;
        acc.validated += n;
        acc.nontrivial += n;
        acc.outcome_n("ipv4 exhaustive sweep evaluations", n);
        if let Some((a, t, c, e, o)) = first_fail.lock().unwrap().take() {
            let case = mk_case(a, t);
            viol!(acc, P, c, &case, format!("XOR-MAPPED-ADDRESS wrong for an IPv4 address ({} failures in the exhaustive sweep)", fails.load(Ordering::Relaxed)), e, o);
        }
        // all byte pairs for IPv6 (two lanes at a time, 16 values each from a boundary set)
        let vals: [u8; 8] = [0x00, 0x01, 0x21, 0x42, 0x7F, 0x80, 0xA4, 0xFF];
        let pair_cases: Vec<Case> = (0..16usize)
            .flat_map(|i| (i + 1..16).map(move |j| (i, j)))
            .flat_map(|(i, j)| {
                let mut v = Vec::new();
                for a in vals {
                    for b in vals {
                        let mut o = key;
                        o[i] = a;
                        o[j] = b;
                        v.push(mk_case(SocketAddr::new(IpAddr::V6(Ipv6Addr::from(o)), 9), seed_t));
                    }
                }
                v
            })
            .collect();
        let np = pair_cases.len() as u64;
        let acc2 = crate::props::sweep(pair_cases.into_par_iter(), judge);
        acc = acc.merge(acc2);
        acc.nontrivial += np;
        bounds["ipv4_exhaustive"] = json!(n);
        rule.push_str("; thorough: all 2^32 IPv4 addresses (port and one of 2 tids derived from the address, every port 65 536 times), IPv6 lane pairs x 8x8 boundary values");
    }
    Report {
        acc,
        exhaustive: true,
        rule,
        bounds,
        assumptions: vec!["the remaining 2^128 IPv6 x 2^96 tid combinations beyond lane (pair) walks are not explored".into()],
        ..Default::default()
    }
}
