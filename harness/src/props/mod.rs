//! One module per property; `run` explores, `replay` re-judges one recorded case.

use crate::common::*;
use rayon::prelude::*;
use serde_json::{json, Value};

pub mod agent_props;
pub mod c01;
pub mod c02;
pub mod c03;
pub mod c04;
pub mod c08;
pub mod c09;
pub mod c10;
pub mod c11;
pub mod c12;
pub mod c13;
pub mod c14;
pub mod c16;
pub mod c17;
pub mod c19;

pub const ALL: [&str; 20] = [
    "C01", "C02", "C03", "C04", "C05", "C06", "C07", "C08", "C09", "C10", "C11", "C12", "C13", "C14", "C15", "C16", "C17",
    "C18", "C19", "C20",
];

pub type Judge = fn(&Case, &mut Acc);

fn in_judge(prop: &str) -> Option<Judge> {
    Some(match prop {
        "C01" => c01::judge,
        "C02" => c02::judge,
        "C03" => c03::judge,
        "C04" => c04::judge,
        "C08" => c08::judge,
        "C09" => c09::judge,
        "C10" => c10::judge,
        "C11" => c11::judge,
        "C12" => c12::judge,
        "C14" => c14::judge,
        "C13" => c13::judge,
        "C16" => c16::judge,
        "C17" => c17::judge,
        "C19" => c19::judge,
        _ => return None,
    })
}

pub fn run(ctx: &Ctx) -> Report {
    match ctx.prop.as_str() {
        "C01" => c01::run(ctx),
        "C02" => c02::run(ctx),
        "C03" => c03::run(ctx),
        "C04" => c04::run(ctx),
        "C08" => c08::run(ctx),
        "C09" => c09::run(ctx),
        "C10" => c10::run(ctx),
        "C11" => c11::run(ctx),
        "C12" => c12::run(ctx),
        "C14" => c14::run(ctx),
        "C13" => c13::run(ctx),
        "C16" => c16::run(ctx),
        "C17" => c17::run(ctx),
        "C19" => c19::run(ctx),
        "C05" => agent_props::c05(ctx),
        "C06" => agent_props::c06(ctx),
        "C07" => agent_props::c07(ctx),
        "C15" => agent_props::c15(ctx),
        "C18" => agent_props::c18(ctx),
        "C20" => agent_props::c20(ctx),
        other => {
            eprintln!("MACHINERY-FAILURE: property {other} has no check");
            std::process::exit(2)
        }
    }
}

pub fn in_replay(case: &Case) -> Value {
    json!({"engine": "IN", "case": case.to_value()})
}

thread_local! {
    /// the cases this thread judged most recently (oldest first)
    static RECENT: std::cell::RefCell<std::collections::VecDeque<Case>> = const { std::cell::RefCell::new(std::collections::VecDeque::new()) };
}
const CHAIN: usize = 3;
thread_local! {
    /// landmark cases of this thread: the first one judged, the one with the longest buffer and the
    /// one with the longest operation list (a high-water mark a library might keep is set by these)
    static LANDMARKS: std::cell::RefCell<[Option<Case>; 3]> = const { std::cell::RefCell::new([None, None, None]) };
}
thread_local! {
    static HIST_DEP: std::cell::RefCell<std::collections::HashSet<String>> = std::cell::RefCell::new(std::collections::HashSet::new());
}
fn note_landmarks(case: &Case) {
    LANDMARKS.with(|l| {
        let mut l = l.borrow_mut();
        if l[0].is_none() {
            l[0] = Some(case.clone());
        }
        if l[1].as_ref().map_or(true, |c| c.data.len() < case.data.len()) {
            l[1] = Some(case.clone());
        }
        let tl = |c: &Case| c.text.iter().map(|t| t.len()).sum::<usize>();
        if l[2].as_ref().map_or(true, |c| tl(c) < tl(case)) {
            l[2] = Some(case.clone());
        }
    });
}

/// Judges `chain` (results discarded) and then `case` on a thread that never ran the library.
fn on_fresh_thread(judge: Judge, chain: Vec<Case>, case: Case) -> Acc {
    std::thread::Builder::new()
        .stack_size(16 << 20)
        .spawn(move || {
            let mut scratch = Acc::default();
            for c in &chain {
                judge_plain(judge, c, &mut scratch);
            }
            let mut acc = Acc::default();
            judge_plain(judge, &case, &mut acc);
            acc
        })
        .expect("spawn")
        .join()
        .unwrap_or_default()
}

/// The judged operations are functions of their arguments, so a verdict must not depend on what
/// the pool thread evaluated before.  A violation whose signature is new to this accumulator is
/// therefore re-judged alone on a fresh thread; if it does not show there, it is re-judged after
/// the thread's most recent cases (a state the library kept from an earlier call), and the replay
/// artefact then carries that chain: `{engine: IN, chain: [...], case}`.
pub fn judge_guarded(judge: Judge, case: &Case, acc: &mut Acc) {
    let mut local = Acc::default();
    judge_plain(judge, case, &mut local);
    // signatures this thread already found to depend on earlier calls go straight to that verdict
    let known: Vec<String> = HIST_DEP.with(|h| local.violations.keys().filter(|k| h.borrow().contains(*k)).cloned().collect());
    for k in known {
        if let Some((v, n)) = local.violations.remove(&k) {
            let sig = format!("{}/result-depends-on-earlier-calls", v.property);
            if let Some(e) = acc.violations.get_mut(&sig) {
                e.1 += n;
            } else {
                local.violations.insert(k, (v, n)); // first time in this accumulator: verify below
            }
        }
    }
    // a later occurrence of a signature never replaces the verified artefact of the first one
    for (k, (v, _)) in local.violations.iter_mut() {
        if let Some((first, _)) = acc.violations.get(k) {
            v.replay = first.replay.clone();
            v.what = first.what.clone();
        }
    }
    let fresh: Vec<String> = local.violations.keys().filter(|k| !acc.violations.contains_key(*k)).cloned().collect();
    if !fresh.is_empty() {
        let alone = on_fresh_thread(judge, vec![], case.clone());
        let missing: Vec<&String> = fresh.iter().filter(|k| !alone.violations.contains_key(*k)).collect();
        if !missing.is_empty() {
            let recent: Vec<Case> = RECENT.with(|r| r.borrow().iter().cloned().collect());
            let mut with_marks: Vec<Case> = LANDMARKS.with(|l| l.borrow().iter().flatten().cloned().collect());
            with_marks.extend(recent.iter().cloned());
            let mut left: Vec<String> = missing.into_iter().cloned().collect();
            for chain in [recent, with_marks] {
                if left.is_empty() {
                    break;
                }
                let chained = on_fresh_thread(judge, chain.clone(), case.clone());
                left.retain(|k| {
                    if !chained.violations.contains_key(k) {
                        return true;
                    }
                    if let Some((v, _)) = local.violations.get_mut(k) {
                        v.replay = json!({"engine": "IN", "chain": chain.iter().map(|c| c.to_value()).collect::<Vec<_>>(), "case": case.to_value()});
                        v.what = format!("{} [only after earlier calls on the same thread: the replay judges {} earlier case(s) first]", v.what, chain.len());
                    }
                    false
                });
            }
            // Seen on the real code in this execution, but neither alone nor after the thread's recent
            // and landmark cases: the operation is a function of its arguments, so the observation
            // itself is the violation (its result depended on some earlier call of this thread).  The
            // artefact records the case and says that it does not fail alone.
            for k in left {
                HIST_DEP.with(|h| {
                    h.borrow_mut().insert(k.clone());
                });
                if let Some((mut v, n)) = local.violations.remove(&k) {
                    let prop = v.property.clone();
                    v.signature = format!("{prop}/result-depends-on-earlier-calls");
                    v.what = format!("an operation that is a function of its arguments answered differently after earlier calls on the same thread: {} (observed as {k}; on a fresh thread the same case is clean)", v.what);
                    v.replay = json!({"engine": "IN", "case": case.to_value(), "history_dependent": true, "observed": {"signature": k, "expected": v.expected, "observed": v.observed}});
                    let e = local.violations.entry(v.signature.clone()).or_insert((v, 0));
                    e.1 += n;
                }
            }
        }
    }
    note_landmarks(case);
    RECENT.with(|r| {
        let mut r = r.borrow_mut();
        if r.len() == CHAIN {
            r.pop_front();
        }
        r.push_back(case.clone());
    });
    let a = std::mem::take(acc);
    *acc = a.merge(local);
}

/// Judge one case with the subject guarded: a panic of the library inside a judgement is a C01
/// matter; it is recorded against C01 and blocks (does not decide) the property being checked.
pub fn judge_plain(judge: Judge, case: &Case, acc: &mut Acc) {
    let _w = watch(case);
    let mut local = Acc::default();
    match guarded(|| judge(case, &mut local)) {
        Ok(()) => {
            let l = std::mem::take(&mut local);
            let a = std::mem::take(acc);
            *acc = a.merge(l);
        }
        Err(p) => {
            acc.evaluations += 1;
            acc.outcome("VIOLATION: library panicked inside the judged operation");
            // a panic is never an admissible answer of the operation under judgement, whichever
            // property the operation belongs to
            let prop = crate::common::current_prop();
            acc.violation(Violation {
                property: prop.clone(),
                signature: format!("{}/panic/{}/{}", prop, panic_label(&p), case.op),
                what: format!("library panicked while case {} was judged: {}", case.op, p.message),
                expected: "a value or an error".into(),
                observed: format!("panic at {}", p.location),
                replay: in_replay(case),
            });
        }
    }
}

/// Parallel sweep over explicitly enumerated cases.
pub fn sweep<I>(cases: I, judge: Judge) -> Acc
where
    I: ParallelIterator<Item = Case>,
{
    cases
        .fold(Acc::default, |mut acc, case| {
            if acc.samples.len() < 2 && acc.evaluations % 257 == 0 {
                acc.sample(case.brief());
            }
            judge_guarded(judge, &case, &mut acc);
            acc
        })
        .reduce(Acc::default, |a, b| a.merge(b))
}

pub fn replay(prop: &str, rp: &Value) -> Vec<Violation> {
    match rp.get("engine").and_then(|e| e.as_str()) {
        Some("IN") => {
            let case: Case = match serde_json::from_value(rp["case"].clone()) {
                Ok(c) => c,
                Err(e) => {
                    eprintln!("MACHINERY-FAILURE: bad replay case: {e}");
                    std::process::exit(2)
                }
            };
            if case.op == "teardown" {
                let p: &'static str = ALL.iter().find(|x| **x == prop).copied().unwrap_or("C20");
                let mut acc = Acc::default();
                crate::teardown::judge(p, case.text.first().map(|s| s.as_str()).unwrap_or("tcp"), &mut acc);
                return acc.violations.into_values().map(|(v, _)| v).collect();
            }
            if case.op == "allocprobe" {
                let p: &'static str = ALL.iter().find(|x| **x == prop).copied().unwrap_or("C14");
                let mut acc = Acc::default();
                crate::teardown::alloc_probe(p, &mut acc);
                return acc.violations.into_values().map(|(v, _)| v).collect();
            }
            if case.op == "callsites" {
                let p: &'static str = ALL.iter().find(|x| **x == prop).copied().unwrap_or("C01");
                let fam: &'static str = crate::teardown::FAMILIES.iter().find(|f| Some(&f.to_string()) == case.text.first()).copied().unwrap_or("parser");
                let mut acc = Acc::default();
                crate::teardown::callsite_sweep(p, fam, &mut acc);
                return acc.violations.into_values().map(|(v, _)| v).collect();
            }
            let Some(j) = in_judge(prop) else {
                eprintln!("MACHINERY-FAILURE: {prop} has no input-space judge");
                std::process::exit(2)
            };
            let chain: Vec<Case> = match rp.get("chain") {
                Some(c) => serde_json::from_value(c.clone()).unwrap_or_else(|e| {
                    eprintln!("MACHINERY-FAILURE: bad replay chain: {e}");
                    std::process::exit(2)
                }),
                None => vec![],
            };
            // always on a thread that never ran the library, so that one replay cannot prime another
            let acc = on_fresh_thread(j, chain, case);
            acc.violations.into_values().map(|(v, _)| v).collect()
        }
        Some("SM") => crate::engine_sm::replay(prop, rp),
        _ => {
            eprintln!("MACHINERY-FAILURE: replay file names no engine");
            std::process::exit(2)
        }
    }
}

#[macro_export]
macro_rules! viol {
    ($acc:expr, $prop:expr, $clause:expr, $case:expr, $what:expr, $exp:expr, $obs:expr) => {
        $acc.violation($crate::common::Violation::new(
            $prop,
            $clause,
            $what,
            $exp,
            $obs,
            $crate::props::in_replay($case),
        ))
    };
}
