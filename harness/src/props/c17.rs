//! C17 — a prefix of a message is reported as truncated with the length still needed; the
//! stand-alone header decoder agrees with the full parser.

use crate::common::*;
use crate::engine_in;
use crate::props::{judge_guarded, sweep};
use crate::real::{self, PErr};
use crate::refimpl::wire;
use crate::viol;
use rayon::prelude::*;
use serde_json::json;
use stun_types::message::{Message, MessageHeader};

const P: &str = "C17";

pub fn run(ctx: &Ctx) -> Report {
    let (n_full, n_small) = ctx.tier.pick((5, 6), (5, 7));
    let sk = engine_in::skeletons(n_full, n_small);
    let hv = crate::props::c02::header_variants(ctx);
    let acc1 = sk
        .par_iter()
        .enumerate()
        .fold(Acc::default, |mut acc, (i, toks)| {
            for (c, m, t) in hv.iter() {
                let buf = engine_in::render(*c, *m, *t, toks);
                if wire::decode(&buf).is_err() {
                    continue; // only well-formed messages are in scope
                }
                acc.nontrivial += 1;
                for k in 0..buf.len() {
                    let case = Case::new("prefix", buf.clone()).args(&[k as i64]);
                    if i % 1499 == 0 && k == 21 {
                        acc.sample(case.brief());
                    }
                    judge_guarded(judge, &case, &mut acc);
                }
            }
            acc
        })
        .reduce(Acc::default, |a, b| a.merge(b));
    // builder-made messages with large attributes (lengths around the 8-bit/16-bit carries)
    let mut big = Vec::new();
    for len in [0usize, 1, 2, 3, 4, 5, 255, 256, 257, 763] {
        let mut b = real::builder(0, 1, 5);
        let v = vec![b'x'; len];
        b.add_raw_attribute(stun_types::attribute::RawAttribute::new(0xFF00.into(), &v)).unwrap();
        let _ = b.add_fingerprint();
        big.push(b.build());
    }
    let cases: Vec<Case> = big
        .iter()
        .flat_map(|b| (0..b.len()).map(move |k| Case::new("prefix", b.clone()).args(&[k as i64])))
        .collect();
    let n_big = big.len() as u64;
    let mut acc2 = sweep(cases.into_par_iter(), judge);
    acc2.nontrivial += n_big;
    // MESSAGE-INTEGRITY-SHA256 truncated to every admissible length (16, 20, 24, 28, 32), alone / behind
    // other attributes / behind MESSAGE-INTEGRITY, followed by nothing / FINGERPRINT / a comprehension-
    // optional attribute, every cut point
    {
        let mut trunc: Vec<Vec<u8>> = Vec::new();
        for n in [16usize, 20, 24, 28, 32] {
            for pre in 0..3u8 {
                for tail in 0..3u8 {
                    let mut b = wire::encode_header((n % 4) as u8 % 4, 1, 0x4142_4344_4546_4748_494A_4B4C, 0);
                    if pre >= 1 {
                        wire::append_raw(&mut b, 0x0006, b"user");
                    }
                    if pre == 2 {
                        wire::append_mi(&mut b, engine_in::KEY);
                    }
                    wire::append_mi256(&mut b, engine_in::KEY, n);
                    match tail {
                        1 => wire::append_fp(&mut b),
                        2 => {
                            wire::append_raw(&mut b, 0x8022, b"after");
                            wire::append_fp(&mut b);
                        }
                        _ => {}
                    }
                    if wire::decode(&b).is_ok() {
                        trunc.push(b);
                    }
                }
            }
        }
        let cases: Vec<Case> = trunc.iter().flat_map(|b| (0..b.len()).map(move |k| Case::new("prefix", b.clone()).args(&[k as i64]))).collect();
        let n = trunc.len() as u64;
        let mut a = sweep(cases.into_par_iter(), judge);
        a.nontrivial += n;
        acc2 = acc2.merge(a);
    }
    // payloads of other protocols in a DATA-like value (a relayed HTTP / SIP / RTSP header block, CR LF CR LF
    // keep-alives, a TLS record, a ChannelData header, runs of 00 / FF), of every length class modulo 4,
    // alone / followed by FINGERPRINT / by a further attribute: every cut
    {
        let payloads: Vec<Vec<u8>> = vec![
            b"GET / HTTP/1.1\r\nHost: a\r\n\r\n".to_vec(), b"OPTIONS sip:a SIP/2.0\r\n\r\n".to_vec(), b"\r\n\r\n".to_vec(), b"\r\n".to_vec(), b"x\r\n\r\n".to_vec(), b"xy\r\n\r\n".to_vec(), b"xyz\r\n\r\n".to_vec(),
            b"\r\n\r\n\r\n\r\n\r\n\r\n".to_vec(), b"\n\n".to_vec(), b"\r\n\r\nabc".to_vec(), vec![0x16, 0x03, 0x03, 0x00, 0x04, 1, 2, 3, 4], vec![0x40, 0x00, 0x00, 0x04, 9, 9, 9, 9], vec![0; 9], vec![0xFF; 10], b"\0\0\0\0".to_vec(), b"STUN".to_vec(),
        ];
        let mut msgs: Vec<Vec<u8>> = Vec::new();
        for pl in &payloads {
            for tail in 0..3u8 {
                for lead in [false, true] {
                    let mut b = wire::encode_header(1, 0x007, 0x5A5B_5C5D_5E5F_6061_6263_6465, 0);
                    if lead {
                        wire::append_raw(&mut b, 0x0012, &[0, 1, 0x21, 0x12, 0x21 ^ 10, 0x12, 0xA4, 0x43]);
                    }
                    wire::append_raw(&mut b, 0x0013, pl);
                    match tail {
                        1 => wire::append_fp(&mut b),
                        2 => wire::append_raw(&mut b, 0x8022, b"\r\n\r\n"),
                        _ => {}
                    }
                    if wire::decode(&b).is_ok() {
                        msgs.push(b);
                    }
                }
            }
        }
        let cases: Vec<Case> = msgs.iter().flat_map(|b| (0..b.len()).map(move |k| Case::new("prefix", b.clone()).args(&[k as i64]))).collect();
        let n = msgs.len() as u64;
        let mut a = sweep(cases.into_par_iter(), judge);
        a.nontrivial += n;
        acc2 = acc2.merge(a);
    }
    // messages that carry a message (a relayed STUN message in a DATA-like attribute, with and
    // without integrity / FINGERPRINT) or values that read as a sealing attribute / STUN header:
    // a prefix may end exactly on an embedded FINGERPRINT, inside an embedded MESSAGE-INTEGRITY ...
    let mut nested: Vec<Vec<u8>> = Vec::new();
    {
        let mut inners: Vec<Vec<u8>> = Vec::new();
        let mut m = wire::encode_header(0, 1, 0x0A0B_0C0D_0E0F_1011_1213_1415, 0);
        inners.push(m.clone());
        wire::append_raw(&mut m, 0x0006, b"user");
        let mut with_fp = m.clone();
        wire::append_fp(&mut with_fp);
        inners.push(with_fp);
        let mut with_mi = m.clone();
        wire::append_mi(&mut with_mi, b"key");
        inners.push(with_mi.clone());
        wire::append_fp(&mut with_mi);
        inners.push(with_mi);
        let mut with_256 = m.clone();
        wire::append_mi256(&mut with_256, b"key", 32);
        wire::append_fp(&mut with_256);
        inners.push(with_256);
        inners.push(vec![0x80, 0x28, 0x00, 0x04, 1, 2, 3, 4]);
        inners.push(vec![0xDE, 0xAD, 0xBE, 0xEF, 0x80, 0x28, 0x00, 0x04, 1, 2, 3, 4]);
        inners.push([&[0x00u8, 0x08, 0x00, 0x14][..], &[7u8; 20][..]].concat());
        inners.push([&[0x00u8, 0x1C, 0x00, 0x20][..], &[7u8; 32][..]].concat());
        for inner in &inners {
            for lead in [0usize, 1, 2, 3] {
                for (after, outer_fp) in [(false, false), (true, false), (true, true), (false, true)] {
                    let mut v = vec![0x5Au8; lead];
                    v.extend_from_slice(inner);
                    let mut b = wire::encode_header(1, 0x006, 0x2021_2223_2425_2627_2829_2A2B, 0);
                    wire::append_raw(&mut b, 0x0013, &v);
                    if after {
                        wire::append_raw(&mut b, 0x0012, &[0, 1, 0x21, 0x12, 0x21 ^ 10, 0x12, 0xA4, 0x43]);
                    }
                    if outer_fp {
                        wire::append_fp(&mut b);
                    }
                    nested.push(b);
                }
            }
        }
    }
    let n_nested = nested.len() as u64;
    let nested_cases: Vec<Case> = nested.iter().flat_map(|b| (0..b.len()).map(move |k| Case::new("prefix", b.clone()).args(&[k as i64]))).collect();
    let mut acc_nested = sweep(nested_cases.into_par_iter(), judge);
    acc_nested.nontrivial += n_nested;
    // every (class, method) pair (all 16 384 type-field values) x five small bodies whose last
    // attribute has an unaligned / empty / aligned value (a relayed datagram in a DATA attribute, a
    // short text + FINGERPRINT ...), every cut point: a leniency tied to one method or message type
    // has to be one of these
    let acc_types = (0..16384u32)
        .into_par_iter()
        .fold(Acc::default, |mut acc, cm| {
            let (class, method) = ((cm >> 12) as u8, (cm & 0xFFF) as u16);
            let tidv: u128 = 0x3132_3334_3536_3738_393A_3B3C;
            for body in 0..5u8 {
                let mut b = wire::encode_header(class, method, tidv, 0);
                match body {
                    0 => wire::append_raw(&mut b, 0x0013, &[1, 2, 3, 4, 5]),
                    1 => {
                        wire::append_raw(&mut b, 0x8022, b"x");
                        wire::append_fp(&mut b);
                    }
                    2 => {
                        wire::append_raw(&mut b, 0x0012, &[0, 1, 0x21, 0x12, 0x21 ^ 10, 0x12, 0xA4, 0x43]);
                        wire::append_raw(&mut b, 0x0013, &[9, 8, 7]);
                    }
                    3 => wire::append_raw(&mut b, 0x0013, &[]),
                    _ => wire::append_raw(&mut b, 0x0013, &[1, 2, 3, 4, 5, 6]),
                }
                if wire::decode(&b).is_err() {
                    continue;
                }
                acc.nontrivial += 1;
                for k in 0..b.len() {
                    judge_guarded(judge, &Case::new("prefix", b.clone()).args(&[k as i64]), &mut acc);
                }
            }
            acc
        })
        .reduce(Acc::default, |a, b| a.merge(b));
    // messages with many attributes (n = 1..=70 cut inside and right behind each attribute header of
    // the tail; n = 33, 64, 65, 66, 100, 129, 257, 1025 at every cut point): a walk over the partial
    // attributes that gives up after some number of them answers something other than Truncated
    let mut many_msgs: Vec<(Vec<u8>, bool)> = Vec::new();
    for n in (1..=70usize).chain([100, 129, 257, 1025]) {
        let mut b = wire::encode_header(0, 8, 0x6162_6364_6566_6768_696A_6B6C, 0);
        for i in 0..n {
            wire::append_raw(&mut b, 0x0012, &[0, 1, (i >> 8) as u8, i as u8, 10, 0, (i >> 8) as u8, i as u8]);
        }
        many_msgs.push((b, matches!(n, 33 | 64 | 65 | 66 | 100 | 129 | 257)));
    }
    let many_cases: Vec<Case> = many_msgs
        .iter()
        .flat_map(|(b, every)| {
            let every = *every;
            (0..b.len()).filter(move |k| every || *k % 12 <= 5 || *k + 30 > b.len()).map(move |k| Case::new("prefix", b.clone()).args(&[k as i64]))
        })
        .collect();
    let n_many = many_msgs.len() as u64;
    let mut acc_many = sweep(many_cases.into_par_iter(), judge);
    acc_many.nontrivial += n_many;
    // messages around the 16-bit length boundary: cut points 0..=300, the last 300, every power
    // of two +-1 and every 251st in between (the parser answers a short prefix from the header alone)
    let mut huge: Vec<Vec<u8>> = Vec::new();
    for (len, fp) in [(4093usize, true), (16381, false), (65_500, true), (65_520, true), (65_528, false)] {
        let mut b = real::builder(2, 0x0FFF, (1u128 << 96) - 7);
        let v = vec![0x5Au8; len];
        b.add_raw_attribute(stun_types::attribute::RawAttribute::new(0x8030.into(), &v)).unwrap();
        if fp {
            b.add_fingerprint().unwrap();
        }
        let bytes = b.build();
        if bytes.len() - 20 <= 0xFFFF && wire::decode(&bytes).is_ok() {
            huge.push(bytes);
        }
    }
    let acc_huge = huge
        .par_iter()
        .fold(Acc::default, |mut acc, b| {
            acc.nontrivial += 1;
            let n = b.len();
            let mut cuts: Vec<usize> = (0..=300.min(n - 1)).collect();
            cuts.extend(n.saturating_sub(300)..n);
            let mut p = 1usize;
            while p < n {
                for c in [p - 1, p, p + 1] {
                    if c < n {
                        cuts.push(c);
                    }
                }
                p *= 2;
            }
            cuts.extend((301..n).step_by(251));
            cuts.sort();
            cuts.dedup();
            for k in cuts {
                judge_guarded(judge, &Case::new("prefix", b.clone()).args(&[k as i64]), &mut acc);
            }
            acc
        })
        .reduce(Acc::default, |a, b| a.merge(b));
    acc2 = acc2.merge(acc_huge);
    // every declared length (every multiple of 4 up to 65 532) under two attribute layouts, cut at
    // every point of the first 1100 bytes and at the points a misread length field leads to
    let acc_len = (0..=16383u32)
        .into_par_iter()
        .fold(Acc::default, |mut acc, q| {
            for layout in 0..2i64 {
                judge_guarded(judge, &Case::new("lengths", vec![]).args(&[q as i64 * 4, layout]), &mut acc);
            }
            acc
        })
        .reduce(Acc::default, |a, b| a.merge(b));
    acc2 = acc2.merge(acc_len);
    // header decoder over the header space
    let lens: [u16; 7] = [0, 1, 3, 4, 8, 0xFFFC, 0xFFFF];
    let acc3 = (0..=0xFFFFu32)
        .into_par_iter()
        .fold(Acc::default, |mut acc, t| {
            for l in lens {
                for cookie_ok in [true, false] {
                    let mut h = wire::encode_header(0, 0, 0x0102_0304_0506_0708_090a_0b0c, 0);
                    h[0] = (t >> 8) as u8;
                    h[1] = t as u8;
                    h[2] = (l >> 8) as u8;
                    h[3] = l as u8;
                    if !cookie_ok {
                        h[5] ^= 0x10;
                    }
                    let case = Case::new("header", h);
                    judge_guarded(judge, &case, &mut acc);
                }
            }
            // every 16-bit length field under three type fields
            for ty in [0x0001u16, 0x0111, 0x3FFF] {
                let mut h = wire::encode_header(0, 0, 0xA1B2_C3D4_E5F6_0718_293A_4B5C, 0);
                h[0] = (ty >> 8) as u8;
                h[1] = ty as u8;
                h[2] = (t >> 8) as u8;
                h[3] = t as u8;
                judge_guarded(judge, &Case::new("header", h), &mut acc);
            }
            acc
        })
        .reduce(Acc::default, |a, b| a.merge(b));
    // every single-bit flip of the cookie; transaction ids: walking one / walking zero over the 96
    // bits, every byte lane with all 256 values
    let mut hcases: Vec<Case> = Vec::new();
    for bit in 0..32 {
        let mut h = wire::encode_header(1, 2, 3, 0);
        h[4 + bit / 8] ^= 0x80 >> (bit % 8);
        hcases.push(Case::new("header", h));
    }
    for bit in 0..96 {
        hcases.push(Case::new("header", wire::encode_header(0, 1, 1u128 << bit, 8)));
        hcases.push(Case::new("header", wire::encode_header(3, 1, ((1u128 << 96) - 1) ^ (1u128 << bit), 8)));
    }
    for lane in 0..12 {
        for v in 0..=255u128 {
            hcases.push(Case::new("header", wire::encode_header(2, 0x123, v << (8 * lane), 0)));
        }
    }
    let acc3 = acc3.merge(sweep(hcases.into_par_iter(), judge));
    let acc = acc1.merge(acc2).merge(acc3).merge(acc_nested).merge(acc_types).merge(acc_many);
    Report {
        acc,
        exhaustive: true,
        rule: "messages relaying payloads of other protocols (HTTP / SIP header blocks, CR LF CR LF keep-alives, TLS / ChannelData headers, runs of 00 / FF) at every cut; messages with a MESSAGE-INTEGRITY-SHA256 of 16 / 20 / 24 / 28 / 32 bytes in three positions x three tails at every cut; every declared length (every multiple of 4 in 0..=65 532) under two attribute layouts (value-less attributes: an attribute ends at every multiple of 4; an address attribute + one DATA attribute), cut at every point below 1100, at 20 + the byte-swapped / halved / single-bit-flipped / high-byte / low-byte length and in the last 8 bytes; every well-formed message of the skeleton space (x4 header variants, one per class), all 16 384 (class, method) pairs x five small bodies (unaligned / empty / aligned last attribute, FINGERPRINT), messages of 1..=70 / 100 / 129 / 257 / 1025 attributes, 144 messages carrying a relayed STUN message or a value that reads as a sealing attribute at four alignments, and 10 builder-made messages with attribute lengths up to 763 x every cut point 0..len; 5 messages of 4 KiB .. 65 552 bytes x cut points {0..=300, last 300, powers of two +-1, every 251st}; header decoder on all 65536 type fields x 7 length fields x cookie ok/off, all 65536 length fields x 3 types, every cookie bit, walking-one / walking-zero / byte-lane transaction ids; distinct_nontrivial counts the well-formed messages".into(),
        bounds: json!({"skeletons": sk.len(), "cut_points": "all", "header_space": 65536 * 14}),
        assumptions: vec![],
        ..Default::default()
    }
}

pub fn judge(case: &Case, acc: &mut Acc) {
    acc.evaluations += 1;
    acc.validated += 1;
    match case.op.as_str() {
        "prefix" => {
            let m = &case.data;
            let k = case.args[0] as usize;
            let p = &m[..k];
            let want_expected = if k < 20 { 20 } else { m.len() };
            match Message::from_bytes(p) {
                Ok(_) => {
                    acc.outcome("VIOLATION: prefix accepted");
                    viol!(acc, P, "prefix-accepted", case, "a strict prefix of a well-formed message was accepted", format!("Err(Truncated {{ expected: {want_expected}, actual: {k} }})"), "Ok");
                }
                Err(e) => {
                    let pe: PErr = e.into();
                    match pe {
                        PErr::Truncated(e, a) if e == want_expected && a == k => acc.outcome(if k < 20 { "truncated inside header" } else { "truncated inside body" }),
                        PErr::Truncated(e, a) => {
                            acc.outcome("VIOLATION: wrong counts");
                            viol!(acc, P, "wrong-counts", case, "Truncated carries the wrong byte counts", format!("expected {want_expected}, actual {k}"), format!("expected {e}, actual {a}"));
                        }
                        other => {
                            acc.outcome("VIOLATION: not reported as truncated");
                            viol!(acc, P, "not-truncated", case, "a prefix is not reported as truncated", format!("Truncated {{ expected: {want_expected}, actual: {k} }}"), format!("{other:?}"));
                        }
                    }
                }
            }
            if k >= 20 {
                header_check(case, &m[..20], acc);
            }
        }
        "lengths" => {
            // a message whose declared length is args[0]; layout 0: attributes without a value (an
            // attribute ends at every multiple of 4), layout 1: a 12-byte address attribute and one
            // DATA attribute with the rest (a relayed datagram)
            let (l, layout) = (case.args[0] as usize, case.args[1]);
            let mut m = wire::encode_header(1, 0x006, 0x5152_5354_5556_5758_595A_5B5C, 0);
            if layout == 0 || l < 16 {
                for i in 0..l / 4 {
                    wire::append_raw(&mut m, if i % 2 == 0 { 0x0025 } else { 0xC029 }, &[]);
                }
            } else {
                wire::append_raw(&mut m, 0x0012, &[0, 1, 0x21, 0x12, 0x21 ^ 10, 0x12, 0xA4, 0x43]);
                let v: Vec<u8> = (0..l - 16).map(|i| (i * 7) as u8).collect();
                wire::append_raw(&mut m, 0x0013, &v);
            }
            let n = m.len();
            if n != l + 20 || wire::decode(&m).is_err() {
                panic!("harness: length-sweep message of {l} bytes is not well-formed");
            }
            acc.nontrivial += 1;
            acc.outcome("declared length: message cut at the first 1100 points and where a misread length field leads");
            let l16 = l as u16;
            let mut cuts: Vec<usize> = (0..n.min(1100)).collect();
            cuts.extend([20 + l16.swap_bytes() as usize, 20 + (l >> 8), 20 + (l & 0xFF), 20 + l / 2, 20 + l / 4, l, l16.swap_bytes() as usize]);
            cuts.extend((0..16).map(|b| 20 + (l ^ (1 << b))));
            cuts.extend((1..=8).map(|d| n.saturating_sub(d)));
            cuts.sort();
            cuts.dedup();
            for k in cuts {
                if k >= n {
                    continue;
                }
                acc.evaluations += 1;
                let want_expected = if k < 20 { 20 } else { n };
                let got = Message::from_bytes(&m[..k]).map(|_| ()).map_err(PErr::from);
                if got != Err(PErr::Truncated(want_expected, k)) {
                    viol!(acc, P, if got.is_ok() { "prefix-accepted" } else { "not-truncated" }, case, format!("the first {k} bytes of a well-formed message of {n} bytes (declared length {l:#06x}) are not reported as truncated"), format!("Err(Truncated {{ expected: {want_expected}, actual: {k} }})"), format!("{got:?}"));
                    return;
                }
            }
            header_check(case, &m[..20], acc);
        }
        "header" => header_check(case, &case.data.clone(), acc),
        other => panic!("harness: unknown C17 op {other}"),
    }
}

fn header_check(case: &Case, h: &[u8], acc: &mut Acc) {
    let reference = wire::decode_header(h);
    match (MessageHeader::from_bytes(h), &reference) {
        (Ok(hd), Ok((c, m, tid, declared))) => {
            acc.outcome("header accepted");
            let t: u128 = hd.transaction_id().into();
            if real::class_num(hd.get_type().class()) != *c || hd.get_type().method() != *m || t != *tid || hd.data_length() as usize != *declared {
                viol!(acc, P, "header-fields", case, "header decoder reports other fields than are encoded", format!("({c}, {m:#x}, {tid:#x}, {declared})"), format!("({}, {:#x}, {t:#x}, {})", real::class_num(hd.get_type().class()), hd.get_type().method(), hd.data_length()));
            }
            // the full parser must not call it non-STUN
            if let Err(e) = Message::from_bytes(h) {
                let pe: PErr = e.into();
                if pe == PErr::NotStun {
                    viol!(acc, P, "header-vs-parser", case, "header decoder accepts what the full parser calls non-STUN", "same classification", "header Ok, parser NotStun");
                }
            }
        }
        (Err(e), Err(_)) => {
            acc.outcome("header refused");
            let pe: PErr = e.into();
            if pe != PErr::NotStun {
                viol!(acc, P, "header-wrong-cause", case, "a 20-byte non-STUN header is refused with another cause", "NotStun", format!("{pe:?}"));
            }
            let full = Message::from_bytes(h).map(|_| "Ok").map_err(PErr::from);
            if full != Err(PErr::NotStun) {
                viol!(acc, P, "header-vs-parser", case, "header decoder refuses but the full parser does not say non-STUN", "NotStun from both", format!("{full:?}"));
            }
        }
        (Ok(_), Err(_)) => {
            acc.outcome("VIOLATION: non-STUN header accepted");
            viol!(acc, P, "header-accepts-nonstun", case, "the header decoder accepts a header the reference classifies as non-STUN", "Err(NotStun)", "Ok");
        }
        (Err(e), Ok(_)) => {
            acc.outcome("VIOLATION: STUN header refused");
            viol!(acc, P, "header-refuses-stun", case, "the header decoder refuses a valid STUN header", "Ok", format!("{:?}", PErr::from(e)));
        }
    }
}
