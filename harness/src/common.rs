//! Shared plumbing: tiers, cases, violations, reports, evidence, known findings, panic capture,
//! in-process watchdog.

use serde::{Deserialize, Serialize};
use serde_json::{json, Value};
use std::cell::RefCell;
use std::collections::BTreeMap;
use std::panic::{catch_unwind, AssertUnwindSafe};
use std::sync::atomic::{AtomicBool, AtomicU64, Ordering};
use std::sync::{Mutex, OnceLock};
use std::time::{Duration, Instant};

#[derive(Clone, Copy, Debug, PartialEq, Eq)]
pub enum Tier {
    Quick,
    Thorough,
}

impl Tier {
    pub fn name(self) -> &'static str {
        match self {
            Tier::Quick => "quick",
            Tier::Thorough => "thorough",
        }
    }
    pub fn pick<T>(self, quick: T, thorough: T) -> T {
        match self {
            Tier::Quick => quick,
            Tier::Thorough => thorough,
        }
    }
}

static CURRENT_PROP: OnceLock<String> = OnceLock::new();
pub fn set_current_prop(p: &str) {
    let _ = CURRENT_PROP.set(p.to_string());
}
pub fn current_prop() -> String {
    CURRENT_PROP.get().cloned().unwrap_or_else(|| "C01".to_string())
}

pub fn verif_dir() -> String {
    std::env::var("VERIF_DIR").unwrap_or_else(|_| "/verif".to_string())
}

/// where evidence and replay files go (overridden by the mutant self-test so that runs against
/// scratch copies never overwrite the evidence of the real tree)
pub fn evidence_dir() -> String {
    std::env::var("VERIF_EVIDENCE_DIR").unwrap_or_else(|_| format!("{}/evidence", verif_dir()))
}

/// One input-space case: an operation name, a byte buffer and a few integer / text arguments.
/// Everything needed to re-run the judgement without the explorer.
#[derive(Clone, Debug, Serialize, Deserialize, PartialEq, Eq, Default)]
pub struct Case {
    pub op: String,
    #[serde(with = "hexbytes")]
    pub data: Vec<u8>,
    #[serde(default)]
    pub args: Vec<i64>,
    #[serde(default)]
    pub text: Vec<String>,
}

impl Case {
    pub fn new(op: &str, data: Vec<u8>) -> Self {
        Case { op: op.to_string(), data, args: vec![], text: vec![] }
    }
    pub fn args(mut self, a: &[i64]) -> Self {
        self.args = a.to_vec();
        self
    }
    pub fn text(mut self, t: &[&str]) -> Self {
        self.text = t.iter().map(|s| s.to_string()).collect();
        self
    }
    pub fn to_value(&self) -> Value {
        // long buffers are kept in full: a replay needs them
        serde_json::to_value(self).unwrap()
    }
    pub fn brief(&self) -> Value {
        let mut v = self.clone();
        let full = v.data.len();
        if full > 96 {
            v.data.truncate(96);
            let mut j = serde_json::to_value(&v).unwrap();
            j["data_len"] = json!(full);
            j["data_truncated_for_display"] = json!(true);
            return j;
        }
        serde_json::to_value(&v).unwrap()
    }
}

pub mod hexbytes {
    use serde::{Deserialize, Deserializer, Serializer};
    pub fn serialize<S: Serializer>(b: &Vec<u8>, s: S) -> Result<S::Ok, S::Error> {
        s.serialize_str(&crate::refimpl::crypto::hex(b))
    }
    pub fn deserialize<'de, D: Deserializer<'de>>(d: D) -> Result<Vec<u8>, D::Error> {
        let s = String::deserialize(d)?;
        Ok(crate::refimpl::crypto::unhex(&s))
    }
}

#[derive(Clone, Debug, Serialize, Deserialize)]
pub struct Violation {
    pub property: String,
    /// stable class of the failure: `<property>/<clause>/<detail>`; known findings match on it
    pub signature: String,
    pub what: String,
    pub expected: String,
    pub observed: String,
    /// engine + case (or action history) that re-executes it
    pub replay: Value,
}

impl Violation {
    pub fn new(property: &str, clause: &str, what: impl Into<String>, expected: impl Into<String>, observed: impl Into<String>, replay: Value) -> Self {
        Violation {
            property: property.to_string(),
            signature: format!("{property}/{clause}"),
            what: what.into(),
            expected: expected.into(),
            observed: observed.into(),
            replay,
        }
    }
}

/// Mergeable accumulator used by the parallel sweeps.
#[derive(Default, Debug)]
pub struct Acc {
    pub evaluations: u64,
    pub nontrivial: u64,
    pub validated: u64,
    pub outcomes: BTreeMap<String, u64>,
    /// first violation per signature (+ count)
    pub violations: BTreeMap<String, (Violation, u64)>,
    pub samples: Vec<Value>,
}

impl Acc {
    pub fn outcome(&mut self, k: &str) {
        *self.outcomes.entry(k.to_string()).or_insert(0) += 1;
    }
    pub fn outcome_n(&mut self, k: &str, n: u64) {
        *self.outcomes.entry(k.to_string()).or_insert(0) += n;
    }
    pub fn violation(&mut self, v: Violation) {
        let e = self.violations.entry(v.signature.clone()).or_insert_with(|| (v, 0));
        e.1 += 1;
    }
    pub fn sample(&mut self, v: Value) {
        if self.samples.len() < 6 {
            self.samples.push(v);
        }
    }
    pub fn merge(mut self, other: Acc) -> Acc {
        self.evaluations += other.evaluations;
        self.nontrivial += other.nontrivial;
        self.validated += other.validated;
        for (k, v) in other.outcomes {
            *self.outcomes.entry(k).or_insert(0) += v;
        }
        for (k, (v, n)) in other.violations {
            match self.violations.get_mut(&k) {
                Some(e) => {
                    e.1 += n;
                    // keep the smaller replay for readability
                    if v.replay.to_string().len() < e.0.replay.to_string().len() {
                        e.0 = v;
                    }
                }
                None => {
                    self.violations.insert(k, (v, n));
                }
            }
        }
        for s in other.samples {
            if self.samples.len() < 6 {
                self.samples.push(s);
            }
        }
        self
    }
}

/// What a property check hands back to `main`.
#[derive(Default, Debug)]
pub struct Report {
    pub acc: Acc,
    pub states: u64,
    pub transitions: u64,
    pub exhaustive: bool,
    pub rule: String,
    pub bounds: Value,
    pub assumptions: Vec<String>,
    pub notes: Vec<String>,
    pub caps_hit: Vec<String>,
    /// reachability witnesses that were demanded but not found (vacuity => machinery failure)
    pub missing_witnesses: Vec<String>,
    pub extra: BTreeMap<String, Value>,
}

/// What the budgets count: the CPU time the process has consumed divided by the number of worker
/// threads, or the wall time since `start` if that is less.  On an idle machine with the pool busy the
/// two agree; on a machine busy with other work the wall time grows and the CPU time does not, and a
/// budget on wall time would cut a search short (and lose its witnesses) for reasons that have nothing
/// to do with the tree under test.  A runaway search burns CPU and is still stopped.
pub fn effective_secs(start: Instant) -> f64 {
    let wall = start.elapsed().as_secs_f64();
    let cpu = crate::ambient::process_cpu_ns() as f64 / 1e9 / rayon::current_num_threads().max(1) as f64;
    if cpu > 0.0 {
        wall.min(cpu)
    } else {
        wall
    }
}

pub struct Ctx {
    pub prop: String,
    pub tier: Tier,
    pub seed: u64,
    pub start: Instant,
    pub threads: usize,
}

impl Ctx {
    /// time spent so far as the budgets count it (see `effective_secs`)
    pub fn elapsed(&self) -> f64 {
        effective_secs(self.start)
    }
    /// wall budget of the tier in seconds (engines stop expanding and report a cap when exceeded)
    pub fn budget_s(&self) -> f64 {
        let env = std::env::var("VERIF_BUDGET_S").ok().and_then(|s| s.parse::<f64>().ok());
        env.unwrap_or(match self.tier {
            Tier::Quick => 300.0,
            Tier::Thorough => 3600.0,
        })
    }
    /// don't-care constants derive from the seed (never which shapes are enumerated)
    pub fn seeded(&self, salt: u64) -> u64 {
        let mut x = self.seed.wrapping_add(0x9E37_79B9_7F4A_7C15).wrapping_add(salt.wrapping_mul(0xBF58_476D_1CE4_E5B9));
        x ^= x >> 30;
        x = x.wrapping_mul(0xBF58_476D_1CE4_E5B9);
        x ^= x >> 27;
        x = x.wrapping_mul(0x94D0_49BB_1331_11EB);
        x ^ (x >> 31)
    }
}

// ---------------------------------------------------------------------------------------------
// panic capture

#[derive(Clone, Debug)]
pub struct Panic {
    pub message: String,
    pub location: String,
}

thread_local! {
    static LAST_PANIC: RefCell<Option<Panic>> = const { RefCell::new(None) };
    static QUIET: RefCell<bool> = const { RefCell::new(false) };
}

pub fn install_panic_hook() {
    let default = std::panic::take_hook();
    std::panic::set_hook(Box::new(move |info| {
        let quiet = QUIET.with(|q| *q.borrow());
        let message = if let Some(s) = info.payload().downcast_ref::<&str>() {
            s.to_string()
        } else if let Some(s) = info.payload().downcast_ref::<String>() {
            s.clone()
        } else {
            "<non-string panic payload>".to_string()
        };
        let location = info
            .location()
            .map(|l| format!("{}:{}", l.file(), l.line()))
            .unwrap_or_else(|| "<unknown>".into());
        LAST_PANIC.with(|p| *p.borrow_mut() = Some(Panic { message, location }));
        if !quiet {
            default(info);
        }
    }));
}

/// Run `f`, converting a panic of the subject into a value.
pub fn guarded<T>(f: impl FnOnce() -> T) -> Result<T, Panic> {
    QUIET.with(|q| *q.borrow_mut() = true);
    LAST_PANIC.with(|p| *p.borrow_mut() = None);
    let r = catch_unwind(AssertUnwindSafe(f));
    QUIET.with(|q| *q.borrow_mut() = false);
    match r {
        Ok(v) => Ok(v),
        Err(_) => Err(LAST_PANIC
            .with(|p| p.borrow_mut().take())
            .unwrap_or(Panic { message: "<panic>".into(), location: "<unknown>".into() })),
    }
}

/// Short stable label for a panic site: file name + line with the repo path removed, plus a
/// classification of the message.
pub fn panic_label(p: &Panic) -> String {
    let loc = p.location.rsplit('/').next().unwrap_or(&p.location).to_string();
    let kind = if p.message.contains("overflow") {
        "arith-overflow"
    } else if p.message.contains("out of range") || p.message.contains("index out of bounds") || p.message.contains("out of bounds") {
        "index"
    } else if p.message.contains("unreachable") {
        "unreachable"
    } else if p.message.contains("unwrap") {
        "unwrap"
    } else if p.message.contains("assertion") {
        "assertion"
    } else {
        "panic"
    };
    // keep the file, drop the line (lines move with unrelated edits); the message class is kept
    let file = loc.split(':').next().unwrap_or("?").to_string();
    format!("{kind}@{file}")
}

// ---------------------------------------------------------------------------------------------
// in-process watchdog for non-termination

struct Slot {
    since: Mutex<Option<(Instant, i32, u64, Case)>>,
}

static SLOTS: OnceLock<Vec<Slot>> = OnceLock::new();
static WATCHDOG_ON: AtomicBool = AtomicBool::new(false);
pub static WATCH_LIMIT_MS: AtomicU64 = AtomicU64::new(20_000);

fn slots() -> &'static Vec<Slot> {
    SLOTS.get_or_init(|| (0..256).map(|_| Slot { since: Mutex::new(None) }).collect())
}

fn slot_index() -> usize {
    rayon::current_thread_index().map(|i| i + 1).unwrap_or(0) % 256
}

/// Mark the start of a subject call that must terminate; returns a guard that clears the mark.
pub struct Watch(usize);

pub fn watch(case: &Case) -> Watch {
    let i = slot_index();
    if WATCHDOG_ON.load(Ordering::Relaxed) {
        let tid = crate::ambient::gettid();
        *slots()[i].since.lock().unwrap() = Some((Instant::now(), tid, crate::ambient::thread_cpu_ns(tid).unwrap_or(0), case.clone()));
    }
    Watch(i)
}

impl Drop for Watch {
    fn drop(&mut self) {
        if WATCHDOG_ON.load(Ordering::Relaxed) {
            *slots()[self.0].since.lock().unwrap() = None;
        }
    }
}

/// Start the watchdog: if a watched call runs longer than the limit the process reports a hang
/// violation for `prop` and exits 1 (a hung thread cannot be cancelled).
pub fn start_watchdog(prop: &str, tier: Tier, seed: u64) {
    WATCHDOG_ON.store(true, Ordering::SeqCst);
    let prop = prop.to_string();
    std::thread::spawn(move || loop {
        std::thread::sleep(Duration::from_millis(500));
        let limit = Duration::from_millis(WATCH_LIMIT_MS.load(Ordering::Relaxed));
        for s in slots().iter() {
            let stuck = {
                let g = s.since.lock().unwrap();
                // the limit is on the CPU time the watched call has consumed (a loop that never ends
                // burns CPU; a busy machine must not turn a slow call into a hang).  Backstops on the
                // wall clock: a call that is blocked (no CPU for 15 limits) or has not returned after
                // 90 limits
                match &*g {
                    Some((t, tid, cpu0, c)) => {
                        let wall = t.elapsed();
                        let cpu = crate::ambient::thread_cpu_ns(*tid).map(|n| Duration::from_nanos(n.saturating_sub(*cpu0)));
                        let hung = match cpu {
                            Some(cpu) => cpu > limit || (wall > limit * 15 && cpu < Duration::from_secs(1)) || wall > limit * 90,
                            None => wall > limit * 15,
                        };
                        if hung {
                            Some(c.clone())
                        } else {
                            None
                        }
                    }
                    None => None,
                }
            };
            if let Some(case) = stuck {
                let v = Violation::new(
                    &prop,
                    "hang",
                    "a call on this input did not return within the watchdog limit",
                    "returns a value or an error",
                    format!("no return after {} ms of CPU time (or blocked for {} ms)", limit.as_millis(), limit.as_millis() * 15),
                    json!({"engine": "IN", "case": case.to_value()}),
                );
                let path = write_replay(&v, 0);
                println!("VIOLATION property={} replay={}", prop, path);
                let rep = Report { rule: "aborted by watchdog".into(), ..Default::default() };
                let _ = write_evidence_raw(&prop, tier, seed, &rep, 0.0, 1, &[format!("hang: {}", path)]);
                std::process::exit(1);
            }
        }
    });
}

// ---------------------------------------------------------------------------------------------
// known findings

#[derive(Clone, Debug, Deserialize)]
pub struct Finding {
    pub status: String,
    pub property: String,
    pub signature: String,
    pub what: String,
    #[serde(default)]
    pub commit: Option<String>,
}

pub fn load_findings() -> Vec<Finding> {
    let p = format!("{}/known_findings.json", verif_dir());
    match std::fs::read_to_string(&p) {
        Ok(s) => serde_json::from_str::<Vec<Finding>>(&s).unwrap_or_else(|e| {
            eprintln!("machinery: cannot parse {p}: {e}");
            std::process::exit(2)
        }),
        Err(_) => vec![],
    }
}

// ---------------------------------------------------------------------------------------------
// replay files and evidence

pub fn write_replay(v: &Violation, n: usize) -> String {
    let dir = format!("{}/replays", evidence_dir());
    let _ = std::fs::create_dir_all(&dir);
    let path = format!("{}/{}-{}.json", dir, v.property, n);
    let body = serde_json::to_string_pretty(v).unwrap();
    std::fs::write(&path, body).expect("write replay");
    path
}

pub fn write_evidence_raw(prop: &str, tier: Tier, seed: u64, rep: &Report, wall: f64, violations: usize, extra_notes: &[String]) -> std::io::Result<()> {
    let dir = evidence_dir();
    std::fs::create_dir_all(&dir)?;
    let mut samples = rep.acc.samples.clone();
    if samples.is_empty() {
        samples.push(json!("no case was executed"));
    }
    let states = if rep.states > 0 { rep.states } else { rep.acc.nontrivial.max(1) };
    let transitions = if rep.transitions > 0 { rep.transitions } else { rep.acc.evaluations.max(1) };
    let mut notes = rep.notes.clone();
    notes.extend_from_slice(extra_notes);
    let mut coverage = json!({
        "states": states,
        "transitions": transitions,
        "traces_validated_against_impl": rep.acc.validated,
        "samples": samples,
        "evaluations": rep.acc.evaluations.max(1),
        "distinct_nontrivial": rep.acc.nontrivial,
        "rule": rep.rule,
        "exhaustive": rep.exhaustive && rep.caps_hit.is_empty(),
        "bounds": rep.bounds,
        "outcomes": rep.acc.outcomes,
        "caps_hit": rep.caps_hit,
        "notes": notes,
        "missing_witnesses": rep.missing_witnesses,
    });
    for (k, v) in &rep.extra {
        coverage[k] = v.clone();
    }
    let ev = json!({
        "property_id": prop,
        "tier": tier.name(),
        "seed": seed,
        "level": "model_checking",
        "coverage": coverage,
        "assumptions": rep.assumptions,
        "wall_s": (wall * 1000.0).round() / 1000.0,
        "violations": violations,
    });
    let path = format!("{}/{}.json", dir, prop);
    let tmp = format!("{}.tmp", path);
    std::fs::write(&tmp, serde_json::to_string_pretty(&ev).unwrap())?;
    std::fs::rename(&tmp, &path)
}

pub fn fmt_bytes(b: &[u8]) -> String {
    if b.len() > 64 {
        format!("{}… ({} bytes)", crate::refimpl::crypto::hex(&b[..64]), b.len())
    } else {
        crate::refimpl::crypto::hex(b)
    }
}
