//! Tracing filters per call site.
//!
//! A subscriber may enable any subset of the library's tracing call sites (per target, per level, per
//! span, per field): `RUST_LOG=warn,some::target=trace` is one line of configuration.  Code that
//! decides something at one call site (`enabled!`, a span that is or is not current) and relies on it
//! at another, or that does work inside the arguments of an event, behaves differently under such a
//! subset than under "everything on" and "everything off".  Call sites are discovered, not guessed:
//! this subscriber numbers every call site in the order it first sees it (process-wide), and enables
//! either exactly one of them (`OneHot(k)`) or all but one (`AllBut(k)`).  The exploration runs its
//! family under `OneHot(k)` and `AllBut(k)` for every k below the number of call sites seen so far,
//! until no new call site turns up.
use std::sync::atomic::{AtomicU64, Ordering};
use std::sync::Mutex;
use tracing::span::{Attributes, Id, Record};
use tracing::subscriber::Interest;
use tracing::{Event, Metadata, Subscriber};

static SEEN: Mutex<Vec<(tracing::callsite::Identifier, String)>> = Mutex::new(Vec::new());

fn index_of(meta: &Metadata<'_>) -> usize {
    let id = meta.callsite();
    let mut g = SEEN.lock().unwrap_or_else(|p| p.into_inner());
    if let Some(i) = g.iter().position(|(x, _)| *x == id) {
        return i;
    }
    g.push((id, format!("{} {} {}:{}", meta.level(), meta.target(), meta.file().unwrap_or("?").rsplit('/').next().unwrap_or("?"), meta.line().unwrap_or(0))));
    g.len() - 1
}

/// Number of call sites seen so far, and what they are.
pub fn seen() -> Vec<String> {
    SEEN.lock().unwrap_or_else(|p| p.into_inner()).iter().map(|(_, d)| d.clone()).collect()
}

#[derive(Clone, Copy, Debug, PartialEq, Eq)]
pub enum Mode {
    /// discover only: everything enabled
    All,
    OneHot(usize),
    AllBut(usize),
    /// everything enabled; the subscriber panics when an event or span of this call site reaches it (a log
    /// shipper whose collector died); the application catches the panic
    PanicAt(usize),
}

pub struct Filter {
    mode: Mode,
    next_span: AtomicU64,
}

impl Subscriber for Filter {
    fn register_callsite(&self, meta: &'static Metadata<'static>) -> Interest {
        let _ = index_of(meta);
        Interest::sometimes()
    }
    fn enabled(&self, meta: &Metadata<'_>) -> bool {
        let i = index_of(meta);
        match self.mode {
            Mode::All | Mode::PanicAt(_) => true,
            Mode::OneHot(k) => i == k,
            Mode::AllBut(k) => i != k,
        }
    }
    fn new_span(&self, span: &Attributes<'_>) -> Id {
        if let Mode::PanicAt(k) = self.mode {
            if index_of(span.metadata()) == k {
                panic!("subscriber: span collector gone");
            }
        }
        Id::from_u64(self.next_span.fetch_add(1, Ordering::Relaxed) + 1)
    }
    fn record(&self, _span: &Id, _values: &Record<'_>) {}
    fn record_follows_from(&self, _span: &Id, _follows: &Id) {}
    fn event(&self, event: &Event<'_>) {
        if let Mode::PanicAt(k) = self.mode {
            if index_of(event.metadata()) == k {
                panic!("subscriber: log collector gone");
            }
        }
        // format the fields, as a real subscriber would (Debug / Display impls of the library run here)
        struct V(usize);
        impl tracing::field::Visit for V {
            fn record_debug(&mut self, _f: &tracing::field::Field, v: &dyn std::fmt::Debug) {
                self.0 += format!("{v:?}").len();
            }
        }
        let mut v = V(0);
        event.record(&mut v);
    }
    fn enter(&self, _span: &Id) {}
    fn exit(&self, _span: &Id) {}
}

pub fn dispatch(mode: Mode) -> tracing::Dispatch {
    tracing::Dispatch::new(Filter { mode, next_span: AtomicU64::new(0) })
}

/// Run `f` under every filter: first with everything enabled (discovery), then one-hot and all-but-one
/// for every call site seen, going on while new call sites turn up (at most `cap` of them).  `f` gets
/// a label for the filter.  Returns the number of call sites covered.
pub fn for_each_filter(cap: usize, mut f: impl FnMut(&str, &tracing::Dispatch)) -> usize {
    f("all call sites enabled", &dispatch(Mode::All));
    let mut k = 0usize;
    while k < seen().len().min(cap) {
        let what = seen()[k].clone();
        f(&format!("only the call site [{what}] enabled"), &dispatch(Mode::OneHot(k)));
        f(&format!("every call site but [{what}] enabled"), &dispatch(Mode::AllBut(k)));
        k += 1;
    }
    k
}
