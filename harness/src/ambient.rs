//! Ambient seams: the process clock and the process environment, decided by the harness.
//!
//! The library is Sans-IO: time comes in as `Instant` arguments, configuration through setters.
//! Whether it *also* looks at the process clock or at the environment cannot be seen from its
//! replies as long as both stand still - and in an exploration that finishes a case in microseconds
//! they do.  So the two are put behind seams that the exploration owns:
//!
//!  * `clock_gettime` (what `Instant::now()` and `SystemTime::now()` are made of) is defined here and
//!    therefore resolved here at link time.  Per thread, the harness can let the clock *jump*: every
//!    read made on the thread moves it forward by a chosen step (so two consecutive reads are a chosen
//!    duration apart), or it is moved forward explicitly between two calls of a history.  With a step of
//!    zero the function is the kernel's clock.
//!  * `getenv` (what `std::env::var` is made of) is defined here as well.  Inside a recording window the
//!    names asked for on the thread are recorded; per thread one name can be given an answer of the
//!    harness' choosing.  The exploration first records, then re-runs the recorded histories once per
//!    (name read, value of a small alphabet) and compares the replies.
//!
//! Nothing in the harness' own budget keeping runs inside a jump: steps and overrides are thread-local
//! and reset by the guards below.
use std::cell::{Cell, RefCell};
use std::collections::BTreeSet;
use std::ffi::{CStr, CString};
use std::os::raw::{c_char, c_int, c_long};
use std::sync::atomic::{AtomicU64, Ordering};
use std::sync::Mutex;

#[repr(C)]
pub struct Timespec {
    tv_sec: i64,
    tv_nsec: i64,
}

thread_local! {
    static OFFSET_NS: Cell<i64> = const { Cell::new(0) };
    static STEP_NS: Cell<i64> = const { Cell::new(0) };
    static RECORD: Cell<bool> = const { Cell::new(false) };
    static OVERRIDE: RefCell<Option<(CString, Option<CString>)>> = const { RefCell::new(None) };
}

/// clock reads / environment reads made on threads while a recording window was open
pub static CLOCK_READS: AtomicU64 = AtomicU64::new(0);
pub static ENV_READS: AtomicU64 = AtomicU64::new(0);
static ENV_NAMES: Mutex<BTreeSet<String>> = Mutex::new(BTreeSet::new());

extern "C" {
    fn syscall(num: c_long, ...) -> c_long;
    static environ: *const *const c_char;
}

#[cfg(target_arch = "x86_64")]
const SYS_CLOCK_GETTIME: c_long = 228;
#[cfg(target_arch = "aarch64")]
const SYS_CLOCK_GETTIME: c_long = 113;

#[cfg(target_arch = "x86_64")]
const SYS_GETTID: c_long = 186;
#[cfg(target_arch = "aarch64")]
const SYS_GETTID: c_long = 178;

/// kernel thread id of the calling thread
pub fn gettid() -> i32 {
    unsafe { syscall(SYS_GETTID) as i32 }
}

/// CPU time consumed so far by the thread with kernel id `tid` (its per-thread CPU clock, read with the
/// raw system call: no offset, no step), in nanoseconds; None if the thread is gone
pub fn thread_cpu_ns(tid: i32) -> Option<u64> {
    // MAKE_THREAD_CPUCLOCK(tid, CPUCLOCK_SCHED)
    let clk: c_long = (((!tid) << 3) | 6) as c_long;
    let mut ts = Timespec { tv_sec: 0, tv_nsec: 0 };
    let r = unsafe { syscall(SYS_CLOCK_GETTIME, clk, &mut ts as *mut Timespec) };
    if r != 0 {
        return None;
    }
    Some(ts.tv_sec as u64 * 1_000_000_000 + ts.tv_nsec as u64)
}

/// CPU time consumed so far by the whole process (CLOCK_PROCESS_CPUTIME_ID through the raw system call), ns
pub fn process_cpu_ns() -> u64 {
    let mut ts = Timespec { tv_sec: 0, tv_nsec: 0 };
    let r = unsafe { syscall(SYS_CLOCK_GETTIME, 2 as c_long, &mut ts as *mut Timespec) };
    if r != 0 {
        return 0;
    }
    ts.tv_sec as u64 * 1_000_000_000 + ts.tv_nsec as u64
}

/// The process's `clock_gettime`: the kernel's clock plus this thread's offset.
///
/// # Safety
/// `ts` must be valid for writes, as for the C function.
#[no_mangle]
pub unsafe extern "C" fn clock_gettime(clk: c_int, ts: *mut Timespec) -> c_int {
    let r = syscall(SYS_CLOCK_GETTIME, clk as c_long, ts) as c_int;
    if r != 0 || ts.is_null() {
        return r;
    }
    let _ = OFFSET_NS.try_with(|off| {
        if RECORD.try_with(|r| r.get()).unwrap_or(false) {
            CLOCK_READS.fetch_add(1, Ordering::Relaxed);
        }
        let step = STEP_NS.try_with(|s| s.get()).unwrap_or(0);
        if step != 0 {
            off.set(off.get().saturating_add(step));
        }
        let o = off.get();
        if o != 0 {
            let t = &mut *ts;
            let total = t.tv_nsec as i128 + o as i128;
            t.tv_sec += (total.div_euclid(1_000_000_000)) as i64;
            t.tv_nsec = total.rem_euclid(1_000_000_000) as i64;
        }
    });
    r
}

unsafe fn real_getenv(name: &CStr) -> *mut c_char {
    let want = name.to_bytes();
    let mut p = environ;
    if p.is_null() {
        return std::ptr::null_mut();
    }
    while !(*p).is_null() {
        let e = CStr::from_ptr(*p).to_bytes();
        if e.len() > want.len() && e[want.len()] == b'=' && &e[..want.len()] == want {
            return (*p).add(want.len() + 1) as *mut c_char;
        }
        p = p.add(1);
    }
    std::ptr::null_mut()
}

/// The process's `getenv`.
///
/// # Safety
/// `name` must be a valid C string, as for the C function.
#[no_mangle]
pub unsafe extern "C" fn getenv(name: *const c_char) -> *mut c_char {
    if name.is_null() {
        return std::ptr::null_mut();
    }
    let n = CStr::from_ptr(name);
    if RECORD.try_with(|r| r.get()).unwrap_or(false) {
        let s = n.to_string_lossy().into_owned();
        // (what the panic machinery, the harness and its tracing subscriber ask for is not the library's)
        if !s.starts_with("RUST_") && !s.starts_with("VERIF_") && s != "NO_COLOR" {
            ENV_READS.fetch_add(1, Ordering::Relaxed);
            if let Ok(mut g) = ENV_NAMES.lock() {
                g.insert(s);
            }
        }
    }
    let mut answer: Option<*mut c_char> = None;
    let _ = OVERRIDE.try_with(|o| {
        if let Ok(o) = o.try_borrow() {
            if let Some((k, v)) = o.as_ref() {
                if k.as_c_str() == n {
                    answer = Some(match v {
                        Some(v) => v.as_ptr() as *mut c_char,
                        None => std::ptr::null_mut(),
                    });
                }
            }
        }
    });
    match answer {
        Some(a) => a,
        None => real_getenv(n),
    }
}

/// Restores this thread's ambient settings when dropped.
pub struct Guard {
    offset: i64,
    step: i64,
    record: bool,
    over: Option<(CString, Option<CString>)>,
}

impl Drop for Guard {
    fn drop(&mut self) {
        OFFSET_NS.with(|o| o.set(self.offset));
        STEP_NS.with(|s| s.set(self.step));
        RECORD.with(|r| r.set(self.record));
        OVERRIDE.with(|o| *o.borrow_mut() = self.over.take());
    }
}

/// Remember this thread's settings; they come back when the guard is dropped.
pub fn scope() -> Guard {
    Guard { offset: OFFSET_NS.with(|o| o.get()), step: STEP_NS.with(|s| s.get()), record: RECORD.with(|r| r.get()), over: OVERRIDE.with(|o| o.borrow().clone()) }
}

/// From now on every clock read on this thread finds the clock `step` further on than the read before.
pub fn clock_step(step: std::time::Duration) {
    STEP_NS.with(|s| s.set(step.as_nanos().min(i64::MAX as u128) as i64));
}

/// Move this thread's clock forward once.
pub fn clock_advance(by: std::time::Duration) {
    OFFSET_NS.with(|o| o.set(o.get().saturating_add(by.as_nanos().min(i64::MAX as u128) as i64)));
}

/// Open / close the recording window of this thread.
pub fn record(on: bool) {
    RECORD.with(|r| r.set(on));
}

/// On this thread `name` reads as `value` (`None`: as unset).
pub fn env_override(name: &str, value: Option<&str>) {
    let k = CString::new(name).expect("name without NUL");
    let v = value.map(|v| CString::new(v).expect("value without NUL"));
    OVERRIDE.with(|o| *o.borrow_mut() = Some((k, v)));
}

/// The names asked for inside recording windows so far.
pub fn env_names() -> Vec<String> {
    ENV_NAMES.lock().map(|g| g.iter().cloned().collect()).unwrap_or_default()
}

/// Values an environment variable is given in the re-runs: switches, small and large numbers, the
/// words configuration variables are usually compared with.
pub const ENV_VALUES: [&str; 18] = ["", "0", "1", "2", "7", "250", "1500", "60000", "4294967296", "-1", "true", "false", "on", "off", "debug", "trace", "udp", "tcp"];

/// The steps the clock is made to jump by: a second, seven seconds, an hour and a minute, fifty days.
pub const CLOCK_STEPS_S: [u64; 4] = [1, 7, 3_660, 4_320_000];

/// Check at start-up that both seams are really in the path of `Instant::now()` and `std::env::var`
/// (a toolchain that resolves them elsewhere would make every exploration through them vacuous).
pub fn self_test() -> Result<(), String> {
    let _g = scope();
    let t0 = std::time::Instant::now();
    clock_advance(std::time::Duration::from_secs(1000));
    let t1 = std::time::Instant::now();
    if t1.duration_since(t0) < std::time::Duration::from_secs(999) {
        return Err("Instant::now() does not go through the harness' clock_gettime".into());
    }
    let s0 = std::time::SystemTime::now();
    clock_advance(std::time::Duration::from_secs(1000));
    let s1 = std::time::SystemTime::now();
    if s1.duration_since(s0).map_or(true, |d| d < std::time::Duration::from_secs(999)) {
        return Err("SystemTime::now() does not go through the harness' clock_gettime".into());
    }
    env_override("VERIF_AMBIENT_SELFTEST", Some("42"));
    if std::env::var("VERIF_AMBIENT_SELFTEST").ok().as_deref() != Some("42") {
        return Err("std::env::var does not go through the harness' getenv".into());
    }
    env_override("PATH", None);
    if std::env::var_os("PATH").is_some() {
        return Err("std::env::var does not go through the harness' getenv (unset)".into());
    }
    Ok(())
}
