fn main(){}
