//! vcheck — bounded-exhaustive checks of the stun-proto properties (see /verif/DESIGN.md).
//!
//! usage: vcheck <C01..C20|selftest> [--tier quick|thorough] [--replay <file>]
//! exit: 0 held (KNOWN-FINDING lines possible), 1 VIOLATION, 2 machinery failure.

mod agent;
mod alloc;
mod ambient;
mod callsites;
mod common;
mod engine_in;
mod engine_sm;
mod props;
mod real;
mod refimpl;
mod teardown;

use common::*;

#[global_allocator]
static GLOBAL: alloc::Probe = alloc::Probe;
use serde_json::Value;
use std::time::Instant;

fn machinery(msg: &str) -> ! {
    eprintln!("MACHINERY-FAILURE: {msg}");
    std::process::exit(2)
}

fn selftests() {
    let mut fails = Vec::new();
    fails.extend(refimpl::crypto::selftest());
    fails.extend(refimpl::wire::selftest());
    fails.extend(refimpl::attrs::selftest());
    fails.extend(agent::spec::selftest());
    if let Err(e) = ambient::self_test() {
        fails.push(e);
    }
    let _ = agent::base_instant();
    if !fails.is_empty() {
        for f in &fails {
            eprintln!("selftest: {f}");
        }
        machinery("reference self-tests failed");
    }
}

fn main() {
    let args: Vec<String> = std::env::args().collect();
    if args.len() < 2 {
        machinery("usage: vcheck <Cxx|selftest> [--tier quick|thorough] [--replay file]");
    }
    let prop = args[1].clone();
    let mut tier = match std::env::var("VERIF_TIER").as_deref() {
        Ok("thorough") => Tier::Thorough,
        _ => Tier::Quick,
    };
    let mut replay: Option<String> = None;
    let mut i = 2;
    while i < args.len() {
        match args[i].as_str() {
            "--tier" => {
                i += 1;
                tier = match args.get(i).map(|s| s.as_str()) {
                    Some("quick") => Tier::Quick,
                    Some("thorough") => Tier::Thorough,
                    _ => machinery("bad --tier"),
                };
            }
            "--replay" => {
                i += 1;
                replay = Some(args.get(i).cloned().unwrap_or_else(|| machinery("--replay needs a file")));
            }
            _ if prop == "crosscheck" || prop == "stackprobe" || prop == "teardown" || prop == "allocprobe" => {}
            other => machinery(&format!("unknown argument {other}")),
        }
        i += 1;
    }
    let seed: u64 = std::env::var("VERIF_SEED").ok().and_then(|s| s.parse().ok()).unwrap_or(1);
    let threads: usize = std::env::var("VERIF_THREADS")
        .ok()
        .and_then(|s| s.parse().ok())
        .unwrap_or_else(|| std::thread::available_parallelism().map(|n| n.get()).unwrap_or(4));
    rayon::ThreadPoolBuilder::new()
        .num_threads(threads)
        .stack_size(16 << 20)
        .build_global()
        .unwrap_or_else(|e| machinery(&format!("thread pool: {e}")));
    install_panic_hook();
    set_current_prop(&prop);
    let start = Instant::now();
    selftests();
    if prop == "crosscheck" {
        // lines: <algo> <hex input> <hex key or -> <hex expected>   (produced by python3 hashlib/hmac/zlib in setup.sh)
        let path = args.get(2).cloned().unwrap_or_else(|| machinery("crosscheck needs a corpus file"));
        let body = std::fs::read_to_string(&path).unwrap_or_else(|e| machinery(&format!("read {path}: {e}")));
        let mut n = 0;
        for (ln, line) in body.lines().enumerate() {
            let f: Vec<&str> = line.split_whitespace().collect();
            if f.len() != 4 {
                continue;
            }
            let input = if f[1] == "-" { vec![] } else { refimpl::crypto::unhex(f[1]) };
            let key = if f[2] == "-" { vec![] } else { refimpl::crypto::unhex(f[2]) };
            let got = match f[0] {
                "sha1" => refimpl::crypto::hex(&refimpl::crypto::sha1(&input)),
                "sha256" => refimpl::crypto::hex(&refimpl::crypto::sha256(&input)),
                "md5" => refimpl::crypto::hex(&refimpl::crypto::md5(&input)),
                "hmac-sha1" => refimpl::crypto::hex(&refimpl::crypto::hmac_sha1(&key, &input)),
                "hmac-sha256" => refimpl::crypto::hex(&refimpl::crypto::hmac_sha256(&key, &input)),
                "crc32" => format!("{:08x}", refimpl::crypto::crc32_fast(&input)),
                other => machinery(&format!("crosscheck: unknown algorithm {other}")),
            };
            if got != f[3] {
                machinery(&format!("crosscheck line {}: {} differs from python: {} vs {}", ln + 1, f[0], got, f[3]));
            }
            n += 1;
        }
        println!("crosscheck ok: {n} reference computations agree with python hashlib/hmac/zlib");
        return;
    }
    if prop == "allocprobe" {
        // child of the allocation-failure probe: allocprobe <case> <k> <min>
        let n = |i: usize| args.get(i).and_then(|a| a.parse::<i64>().ok()).unwrap_or_else(|| machinery("allocprobe <case> <k> <min>"));
        teardown::alloc_child(n(2) as usize, n(3), n(4) as usize);
        return;
    }
    if prop == "teardown" {
        teardown::child(args.get(2).map(|s| s.as_str()).unwrap_or("tcp"));
        return;
    }
    if prop == "stackprobe" {
        // child of C01's stack probe: the probe family on a thread with a stack of args[2] KiB
        let kib: usize = args.get(2).and_then(|a| a.parse().ok()).unwrap_or_else(|| machinery("stackprobe <KiB>"));
        let cases = props::c01::stack_cases();
        let n = cases.len();
        let h = std::thread::Builder::new().name(format!("stack-{kib}KiB")).stack_size(kib * 1024).spawn(move || {
            let mut acc = Acc::default();
            for c in &cases {
                props::c01::judge(c, &mut acc);
            }
            acc.violations.len()
        });
        match h.map(|h| h.join()) {
            Ok(Ok(v)) => {
                println!("stackprobe ok: {n} cases on {kib} KiB, {v} violation signature(s)");
                return;
            }
            other => machinery(&format!("stackprobe: {:?}", other.map(|r| r.map_err(|_| "panicked")))),
        }
    }
    if prop == "selftest" {
        println!("selftest ok ({:.2}s)", start.elapsed().as_secs_f64());
        return;
    }
    if !props::ALL.contains(&prop.as_str()) {
        machinery(&format!("unknown property {prop}"));
    }

    if let Some(path) = replay {
        let body = std::fs::read_to_string(&path).unwrap_or_else(|e| machinery(&format!("read {path}: {e}")));
        let v: Value = serde_json::from_str(&body).unwrap_or_else(|e| machinery(&format!("parse {path}: {e}")));
        let rp = if v.get("replay").is_some() { v["replay"].clone() } else { v };
        let found = props::replay(&prop, &rp);
        if found.is_empty() {
            println!("replay: no violation of {prop} on this case");
            return;
        }
        for f in &found {
            println!("replay: {} — {}\n  expected: {}\n  observed: {}", f.signature, f.what, f.expected, f.observed);
        }
        println!("VIOLATION property={prop} replay={path}");
        std::process::exit(1);
    }

    let ctx = Ctx { prop: prop.clone(), tier, seed, start, threads };
    let rep = match guarded(|| props::run(&ctx)) {
        Ok(r) => r,
        Err(p) => machinery(&format!("engine panicked: {} at {}", p.message, p.location)),
    };

    let findings = load_findings();
    let mut unlisted = 0usize;
    let mut notes = Vec::new();
    let mut n = 0usize;
    let total_viol: u64 = rep.acc.violations.values().map(|(_, c)| *c).sum();
    for (sig, (v, count)) in &rep.acc.violations {
        // a violation must reproduce, twice, from its replay artefact alone
        let history_dependent = v.replay.get("history_dependent").and_then(|b| b.as_bool()) == Some(true);
        let r1: Vec<String> = props::replay(&prop, &v.replay).into_iter().map(|x| x.signature).collect();
        let r2: Vec<String> = props::replay(&prop, &v.replay).into_iter().map(|x| x.signature).collect();
        if history_dependent {
            // observed during the exploration and, by construction, clean when replayed alone on a
            // fresh thread (props::judge_guarded established that before recording it)
            if r1 != r2 {
                machinery(&format!("replays of a history-dependent case differ from each other: {r1:?} / {r2:?}"));
            }
        } else if r1 != r2 || !r1.contains(sig) {
            eprintln!("signature {sig}: replay gave {r1:?} then {r2:?}");
            let path = write_replay(v, 900 + n);
            if prop == "C20" {
                // (whatever the engine: every family of the C20 check replays agent histories)
                // For C20 this is the property itself: the same call history, replayed on fresh
                // agents of this process, does not give the same replies every time (the explorer
                // saw `sig`, two replays of the recorded history gave r1 and r2).
                n += 1;
                unlisted += 1;
                println!("  C20/replies-not-reproducible — replaying the recorded history on fresh agents gives different replies from one execution to the next\n    expected: identical replies on every replay (explorer saw {sig})\n    observed: first replay {r1:?}, second replay {r2:?}");
                println!("VIOLATION property=C20 replay={}", path);
                notes.push(format!("history whose replies are not reproducible: {path}"));
                continue;
            }
            if v.replay.get("engine").and_then(|m| m.as_str()) == Some("IN") && r1 == r2 {
                // The judged operations of the input-space engine are functions of their arguments and
                // the judgement is deterministic.  A violation that was observed on the real code while
                // the other pool threads were using the library, and that is absent when the same case
                // runs alone, means the answer depended on what other threads (or earlier calls) were
                // doing: that is a violation of the property, not of the machinery.
                n += 1;
                unlisted += 1;
                println!("  {}/result-depends-on-context — observed during the parallel exploration as {sig}, absent when the recorded case runs alone: the operation's answer depended on other threads or earlier calls\n    expected: {}\n    observed: {}", v.property, v.expected, v.observed);
                println!("VIOLATION property={} replay={}", prop, path);
                notes.push(format!("case whose verdict depends on its context: {path}"));
                continue;
            }
            machinery(&format!("violation does not reproduce deterministically from its replay file {path} (if this is an agent check, ambient state in the agent is a possible cause: run C20)"));
        }
        if v.property != prop && prop == "C20" && std::env::var("VERIF_PRISTINE").is_err() {
            // The C20 exploration runs after unrelated agents have used the library in this process
            // (agent::prelude).  A breach attributed to another property is C20's if the same
            // history is clean in a process where no other agent ever ran.
            let path = write_replay(v, 800 + n);
            let exe = std::env::current_exe().unwrap_or_else(|e| machinery(&format!("current_exe: {e}")));
            let st = std::process::Command::new(exe)
                .args(["C20", "--replay", &path])
                .env("VERIF_PRISTINE", "1")
                .env("VERIF_THREADS", "2")
                .stdout(std::process::Stdio::null())
                .stderr(std::process::Stdio::null())
                .status()
                .unwrap_or_else(|e| machinery(&format!("pristine child: {e}")));
            match st.code() {
                Some(0) => {
                    n += 1;
                    unlisted += 1;
                    println!("  C20/depends-on-earlier-unrelated-agents — after unrelated agents ran in this process the agent departs from the reference ({sig}); the same history in a process where no other agent ever ran does not (x{count})\n    expected: {}\n    observed: {}", v.expected, v.observed);
                    println!("VIOLATION property=C20 replay={}", path);
                    notes.push(format!("history whose replies depend on unrelated agents that ran earlier in the process: {path}"));
                    continue;
                }
                Some(1) => {}
                other => machinery(&format!("pristine child process ended with {other:?} on {path}")),
            }
        }
        if v.property != prop {
            // attributed to another property (shared transition function): evidence note only
            notes.push(format!("blocked by a violation attributed to {}: {} (x{})", v.property, sig, count));
            continue;
        }
        if let Some(k) = findings.iter().find(|f| f.status == "known" && f.property == prop && &f.signature == sig) {
            println!("KNOWN-FINDING: property={} {} [{} occurrence(s), signature {}]", prop, k.what, count, sig);
            notes.push(format!("known finding {sig} x{count}"));
            continue;
        }
        n += 1;
        unlisted += 1;
        let path = write_replay(v, n);
        println!("  {} — {} (x{})\n    expected: {}\n    observed: {}", sig, v.what, count, v.expected, v.observed);
        println!("VIOLATION property={} replay={}", prop, path);
    }
    let wall = start.elapsed().as_secs_f64();
    if let Err(e) = write_evidence_raw(&prop, tier, seed, &rep, wall, total_viol as usize, &notes) {
        machinery(&format!("cannot write evidence: {e}"));
    }
    println!(
        "{} {}: evaluations={} states={} transitions={} validated={} violations={} exhaustive={} wall={:.1}s",
        prop,
        tier.name(),
        rep.acc.evaluations,
        if rep.states > 0 { rep.states } else { rep.acc.nontrivial },
        if rep.transitions > 0 { rep.transitions } else { rep.acc.evaluations },
        rep.acc.validated,
        total_viol,
        rep.exhaustive && rep.caps_hit.is_empty(),
        wall
    );
    for (k, v) in &rep.acc.outcomes {
        println!("  outcome {k}: {v}");
    }
    for c in &rep.caps_hit {
        println!("  cap hit: {c}");
    }
    if unlisted > 0 {
        std::process::exit(1);
    }
    if !rep.missing_witnesses.is_empty() {
        machinery(&format!("vacuous exploration, witnesses not reached: {:?}", rep.missing_witnesses));
    }
}
