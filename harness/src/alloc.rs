//! Allocation-failure seam: the harness' global allocator can be told to refuse one allocation.
//!
//! On the unchanged library an allocation that fails aborts the process (`Vec::extend` ends in
//! `handle_alloc_error`), so nothing is promised about results under memory exhaustion and nothing is
//! judged there.  A change that starts to *handle* the failure (`try_reserve` and a fallback) creates
//! executions that did not exist before: the process survives and goes on with whatever the fallback left
//! behind.  Those are explored the way faults are: for every case of a family and every k, a child process
//! runs the case with the k-th allocation of at least `min` bytes made *inside a library call* refused
//! (one-shot).  A child that dies gives no verdict; a child that completes must give the result the case
//! gives without the fault.
use std::alloc::{GlobalAlloc, Layout, System};
use std::cell::Cell;

pub struct Probe;

thread_local! {
    /// (armed, countdown to the refused allocation or -1, minimum size, allocations of that size seen while armed)
    static STATE: Cell<(bool, i64, usize, u64)> = const { Cell::new((false, -1, usize::MAX, 0)) };
}

#[inline]
fn refuse(size: usize) -> bool {
    STATE
        .try_with(|s| {
            let (armed, k, min, seen) = s.get();
            if !armed || size < min {
                return false;
            }
            if k == 0 {
                s.set((armed, -1, min, seen + 1));
                return true;
            }
            s.set((armed, if k > 0 { k - 1 } else { k }, min, seen + 1));
            false
        })
        .unwrap_or(false)
}

unsafe impl GlobalAlloc for Probe {
    unsafe fn alloc(&self, l: Layout) -> *mut u8 {
        if refuse(l.size()) {
            return std::ptr::null_mut();
        }
        System.alloc(l)
    }
    unsafe fn dealloc(&self, p: *mut u8, l: Layout) {
        System.dealloc(p, l)
    }
    unsafe fn alloc_zeroed(&self, l: Layout) -> *mut u8 {
        if refuse(l.size()) {
            return std::ptr::null_mut();
        }
        System.alloc_zeroed(l)
    }
    unsafe fn realloc(&self, p: *mut u8, l: Layout, new_size: usize) -> *mut u8 {
        if refuse(new_size) {
            return std::ptr::null_mut();
        }
        System.realloc(p, l, new_size)
    }
}

/// Set up this thread: the `k`-th allocation of at least `min` bytes made while armed is refused (k < 0: none).
pub fn plan(k: i64, min: usize) {
    STATE.with(|s| s.set((false, k, min, 0)));
}

/// Run a library call with the plan armed.
pub fn armed<T>(f: impl FnOnce() -> T) -> T {
    STATE.with(|s| {
        let (_, k, min, seen) = s.get();
        s.set((true, k, min, seen));
    });
    let r = f();
    STATE.with(|s| {
        let (_, k, min, seen) = s.get();
        s.set((false, k, min, seen));
    });
    r
}

/// Allocations of at least `min` bytes seen inside armed calls so far.
pub fn seen() -> u64 {
    STATE.with(|s| s.get().3)
}
