pub mod attrs;
pub mod crypto;
pub mod police;
pub mod wire;
