//! RFC 8489 §6.3.1 attribute policing verdict (C16), independent of the library.

use super::wire::{exposed, RefMsg};

#[derive(Clone, Debug, PartialEq, Eq)]
pub enum Police {
    Nothing,
    BadRequest,
    /// exposed comprehension-required types that are not supported, in message order
    Unknown(Vec<u16>),
}

pub fn comprehension_required(t: u16) -> bool {
    t < 0x8000
}

pub fn verdict(m: &RefMsg, supported: &[u16], required: &[u16]) -> Police {
    let vis: Vec<u16> = exposed(&m.attrs).into_iter().map(|i| m.attrs[i].typ).collect();
    let unknown: Vec<u16> = vis.iter().copied().filter(|t| comprehension_required(*t) && !supported.contains(t)).collect();
    if !unknown.is_empty() {
        return Police::Unknown(unknown);
    }
    if required.iter().any(|r| !vis.contains(r)) {
        return Police::BadRequest;
    }
    Police::Nothing
}
