//! Independent reference crypto: SHA-1, SHA-256, MD5, HMAC, CRC-32/ISO-HDLC.
//! Written from FIPS 180-4 / RFC 1321 / RFC 2104 / ISO 3309; shares nothing with the
//! RustCrypto / `crc` crates the subject uses.  Self-tested with known answers at start-up.

pub fn sha1(data: &[u8]) -> [u8; 20] {
    let mut h: [u32; 5] = [0x67452301, 0xEFCDAB89, 0x98BADCFE, 0x10325476, 0xC3D2E1F0];
    let mut msg = data.to_vec();
    let bitlen = (data.len() as u64).wrapping_mul(8);
    msg.push(0x80);
    while msg.len() % 64 != 56 {
        msg.push(0);
    }
    msg.extend_from_slice(&bitlen.to_be_bytes());
    for block in msg.chunks_exact(64) {
        let mut w = [0u32; 80];
        for i in 0..16 {
            w[i] = u32::from_be_bytes([block[4 * i], block[4 * i + 1], block[4 * i + 2], block[4 * i + 3]]);
        }
        for i in 16..80 {
            w[i] = (w[i - 3] ^ w[i - 8] ^ w[i - 14] ^ w[i - 16]).rotate_left(1);
        }
        let (mut a, mut b, mut c, mut d, mut e) = (h[0], h[1], h[2], h[3], h[4]);
        for (i, wi) in w.iter().enumerate() {
            let (f, k) = match i {
                0..=19 => ((b & c) | ((!b) & d), 0x5A827999u32),
                20..=39 => (b ^ c ^ d, 0x6ED9EBA1),
                40..=59 => ((b & c) | (b & d) | (c & d), 0x8F1BBCDC),
                _ => (b ^ c ^ d, 0xCA62C1D6),
            };
            let t = a
                .rotate_left(5)
                .wrapping_add(f)
                .wrapping_add(e)
                .wrapping_add(k)
                .wrapping_add(*wi);
            e = d;
            d = c;
            c = b.rotate_left(30);
            b = a;
            a = t;
        }
        h[0] = h[0].wrapping_add(a);
        h[1] = h[1].wrapping_add(b);
        h[2] = h[2].wrapping_add(c);
        h[3] = h[3].wrapping_add(d);
        h[4] = h[4].wrapping_add(e);
    }
    let mut out = [0u8; 20];
    for i in 0..5 {
        out[4 * i..4 * i + 4].copy_from_slice(&h[i].to_be_bytes());
    }
    out
}

const K256: [u32; 64] = [
    0x428a2f98, 0x71374491, 0xb5c0fbcf, 0xe9b5dba5, 0x3956c25b, 0x59f111f1, 0x923f82a4, 0xab1c5ed5,
    0xd807aa98, 0x12835b01, 0x243185be, 0x550c7dc3, 0x72be5d74, 0x80deb1fe, 0x9bdc06a7, 0xc19bf174,
    0xe49b69c1, 0xefbe4786, 0x0fc19dc6, 0x240ca1cc, 0x2de92c6f, 0x4a7484aa, 0x5cb0a9dc, 0x76f988da,
    0x983e5152, 0xa831c66d, 0xb00327c8, 0xbf597fc7, 0xc6e00bf3, 0xd5a79147, 0x06ca6351, 0x14292967,
    0x27b70a85, 0x2e1b2138, 0x4d2c6dfc, 0x53380d13, 0x650a7354, 0x766a0abb, 0x81c2c92e, 0x92722c85,
    0xa2bfe8a1, 0xa81a664b, 0xc24b8b70, 0xc76c51a3, 0xd192e819, 0xd6990624, 0xf40e3585, 0x106aa070,
    0x19a4c116, 0x1e376c08, 0x2748774c, 0x34b0bcb5, 0x391c0cb3, 0x4ed8aa4a, 0x5b9cca4f, 0x682e6ff3,
    0x748f82ee, 0x78a5636f, 0x84c87814, 0x8cc70208, 0x90befffa, 0xa4506ceb, 0xbef9a3f7, 0xc67178f2,
];

pub fn sha256(data: &[u8]) -> [u8; 32] {
    let mut h: [u32; 8] = [
        0x6a09e667, 0xbb67ae85, 0x3c6ef372, 0xa54ff53a, 0x510e527f, 0x9b05688c, 0x1f83d9ab, 0x5be0cd19,
    ];
    let mut msg = data.to_vec();
    let bitlen = (data.len() as u64).wrapping_mul(8);
    msg.push(0x80);
    while msg.len() % 64 != 56 {
        msg.push(0);
    }
    msg.extend_from_slice(&bitlen.to_be_bytes());
    for block in msg.chunks_exact(64) {
        let mut w = [0u32; 64];
        for i in 0..16 {
            w[i] = u32::from_be_bytes([block[4 * i], block[4 * i + 1], block[4 * i + 2], block[4 * i + 3]]);
        }
        for i in 16..64 {
            let s0 = w[i - 15].rotate_right(7) ^ w[i - 15].rotate_right(18) ^ (w[i - 15] >> 3);
            let s1 = w[i - 2].rotate_right(17) ^ w[i - 2].rotate_right(19) ^ (w[i - 2] >> 10);
            w[i] = w[i - 16].wrapping_add(s0).wrapping_add(w[i - 7]).wrapping_add(s1);
        }
        let mut v = h;
        for i in 0..64 {
            let s1 = v[4].rotate_right(6) ^ v[4].rotate_right(11) ^ v[4].rotate_right(25);
            let ch = (v[4] & v[5]) ^ ((!v[4]) & v[6]);
            let t1 = v[7]
                .wrapping_add(s1)
                .wrapping_add(ch)
                .wrapping_add(K256[i])
                .wrapping_add(w[i]);
            let s0 = v[0].rotate_right(2) ^ v[0].rotate_right(13) ^ v[0].rotate_right(22);
            let maj = (v[0] & v[1]) ^ (v[0] & v[2]) ^ (v[1] & v[2]);
            let t2 = s0.wrapping_add(maj);
            v[7] = v[6];
            v[6] = v[5];
            v[5] = v[4];
            v[4] = v[3].wrapping_add(t1);
            v[3] = v[2];
            v[2] = v[1];
            v[1] = v[0];
            v[0] = t1.wrapping_add(t2);
        }
        for i in 0..8 {
            h[i] = h[i].wrapping_add(v[i]);
        }
    }
    let mut out = [0u8; 32];
    for i in 0..8 {
        out[4 * i..4 * i + 4].copy_from_slice(&h[i].to_be_bytes());
    }
    out
}

pub fn md5(data: &[u8]) -> [u8; 16] {
    const S: [u32; 64] = [
        7, 12, 17, 22, 7, 12, 17, 22, 7, 12, 17, 22, 7, 12, 17, 22, 5, 9, 14, 20, 5, 9, 14, 20, 5, 9,
        14, 20, 5, 9, 14, 20, 4, 11, 16, 23, 4, 11, 16, 23, 4, 11, 16, 23, 4, 11, 16, 23, 6, 10, 15,
        21, 6, 10, 15, 21, 6, 10, 15, 21, 6, 10, 15, 21,
    ];
    let mut k = [0u32; 64];
    for (i, ki) in k.iter_mut().enumerate() {
        *ki = (((i as f64) + 1.0).sin().abs() * 4294967296.0).floor() as u32;
    }
    let (mut a0, mut b0, mut c0, mut d0) = (0x67452301u32, 0xefcdab89u32, 0x98badcfeu32, 0x10325476u32);
    let mut msg = data.to_vec();
    let bitlen = (data.len() as u64).wrapping_mul(8);
    msg.push(0x80);
    while msg.len() % 64 != 56 {
        msg.push(0);
    }
    msg.extend_from_slice(&bitlen.to_le_bytes());
    for block in msg.chunks_exact(64) {
        let mut m = [0u32; 16];
        for i in 0..16 {
            m[i] = u32::from_le_bytes([block[4 * i], block[4 * i + 1], block[4 * i + 2], block[4 * i + 3]]);
        }
        let (mut a, mut b, mut c, mut d) = (a0, b0, c0, d0);
        for i in 0..64 {
            let (mut f, g) = match i / 16 {
                0 => ((b & c) | ((!b) & d), i),
                1 => ((d & b) | ((!d) & c), (5 * i + 1) % 16),
                2 => (b ^ c ^ d, (3 * i + 5) % 16),
                _ => (c ^ (b | (!d)), (7 * i) % 16),
            };
            f = f.wrapping_add(a).wrapping_add(k[i]).wrapping_add(m[g]);
            a = d;
            d = c;
            c = b;
            b = b.wrapping_add(f.rotate_left(S[i]));
        }
        a0 = a0.wrapping_add(a);
        b0 = b0.wrapping_add(b);
        c0 = c0.wrapping_add(c);
        d0 = d0.wrapping_add(d);
    }
    let mut out = [0u8; 16];
    out[0..4].copy_from_slice(&a0.to_le_bytes());
    out[4..8].copy_from_slice(&b0.to_le_bytes());
    out[8..12].copy_from_slice(&c0.to_le_bytes());
    out[12..16].copy_from_slice(&d0.to_le_bytes());
    out
}

fn hmac_generic<const N: usize>(hash: fn(&[u8]) -> [u8; N], key: &[u8], data: &[u8]) -> [u8; N] {
    let mut k = [0u8; 64];
    if key.len() > 64 {
        let hk = hash(key);
        k[..N].copy_from_slice(&hk);
    } else {
        k[..key.len()].copy_from_slice(key);
    }
    let mut inner = Vec::with_capacity(64 + data.len());
    inner.extend(k.iter().map(|b| b ^ 0x36));
    inner.extend_from_slice(data);
    let ih = hash(&inner);
    let mut outer = Vec::with_capacity(64 + N);
    outer.extend(k.iter().map(|b| b ^ 0x5c));
    outer.extend_from_slice(&ih);
    hash(&outer)
}

pub fn hmac_sha1(key: &[u8], data: &[u8]) -> [u8; 20] {
    hmac_generic::<20>(sha1, key, data)
}

pub fn hmac_sha256(key: &[u8], data: &[u8]) -> [u8; 32] {
    hmac_generic::<32>(sha256, key, data)
}

/// CRC-32/ISO-HDLC (reflected, poly 0xEDB88320, init/xorout 0xFFFFFFFF), bitwise.
pub fn crc32(data: &[u8]) -> u32 {
    let mut crc = 0xFFFF_FFFFu32;
    for &b in data {
        crc ^= b as u32;
        for _ in 0..8 {
            if crc & 1 != 0 {
                crc = (crc >> 1) ^ 0xEDB8_8320;
            } else {
                crc >>= 1;
            }
        }
    }
    !crc
}

/// Table-driven variant used in the hot fault sweeps; checked against the bitwise one in selftest.
pub fn crc32_fast(data: &[u8]) -> u32 {
    use std::sync::OnceLock;
    static TABLE: OnceLock<[u32; 256]> = OnceLock::new();
    let t = TABLE.get_or_init(|| {
        let mut t = [0u32; 256];
        for (i, e) in t.iter_mut().enumerate() {
            let mut c = i as u32;
            for _ in 0..8 {
                c = if c & 1 != 0 { (c >> 1) ^ 0xEDB8_8320 } else { c >> 1 };
            }
            *e = c;
        }
        t
    });
    let mut crc = 0xFFFF_FFFFu32;
    for &b in data {
        crc = t[((crc ^ b as u32) & 0xff) as usize] ^ (crc >> 8);
    }
    !crc
}

pub fn hex(b: &[u8]) -> String {
    let mut s = String::with_capacity(b.len() * 2);
    for x in b {
        s.push_str(&format!("{:02x}", x));
    }
    s
}

pub fn unhex(s: &str) -> Vec<u8> {
    let s: Vec<u8> = s.bytes().filter(|c| !c.is_ascii_whitespace()).collect();
    assert!(s.len() % 2 == 0, "odd hex length");
    s.chunks(2)
        .map(|p| u8::from_str_radix(std::str::from_utf8(p).unwrap(), 16).expect("hex digit"))
        .collect()
}

/// Known-answer tests.  Returns a list of failures (empty = ok).
pub fn selftest() -> Vec<String> {
    let mut f = Vec::new();
    let mut chk = |name: &str, got: String, want: &str| {
        if got != want {
            f.push(format!("{name}: got {got} want {want}"));
        }
    };
    chk("sha1(abc)", hex(&sha1(b"abc")), "a9993e364706816aba3e25717850c26c9cd0d89d");
    chk("sha1('')", hex(&sha1(b"")), "da39a3ee5e6b4b0d3255bfef95601890afd80709");
    chk(
        "sha1(448bit)",
        hex(&sha1(b"abcdbcdecdefdefgefghfghighijhijkijkljklmklmnlmnomnopnopq")),
        "84983e441c3bd26ebaae4aa1f95129e5e54670f1",
    );
    let million_a = vec![b'a'; 1_000_000];
    chk("sha1(1M a)", hex(&sha1(&million_a)), "34aa973cd4c4daa4f61eeb2bdbad27316534016f");
    chk(
        "sha256(abc)",
        hex(&sha256(b"abc")),
        "ba7816bf8f01cfea414140de5dae2223b00361a396177a9cb410ff61f20015ad",
    );
    chk(
        "sha256('')",
        hex(&sha256(b"")),
        "e3b0c44298fc1c149afbf4c8996fb92427ae41e4649b934ca495991b7852b855",
    );
    chk(
        "sha256(448bit)",
        hex(&sha256(b"abcdbcdecdefdefgefghfghighijhijkijkljklmklmnlmnomnopnopq")),
        "248d6a61d20638b8e5c026930c3e6039a33ce45964ff2167f6ecedd419db06c1",
    );
    chk(
        "sha256(1M a)",
        hex(&sha256(&million_a)),
        "cdc76e5c9914fb9281a1c7e284d73e67f1809a48a497200e046d39ccc7112cd0",
    );
    chk("md5('')", hex(&md5(b"")), "d41d8cd98f00b204e9800998ecf8427e");
    chk("md5(a)", hex(&md5(b"a")), "0cc175b9c0f1b6a831c399e269772661");
    chk("md5(abc)", hex(&md5(b"abc")), "900150983cd24fb0d6963f7d28e17f72");
    chk(
        "md5(message digest)",
        hex(&md5(b"message digest")),
        "f96b697d7cb7938d525a2f31aaf161d0",
    );
    chk(
        "md5(a-z)",
        hex(&md5(b"abcdefghijklmnopqrstuvwxyz")),
        "c3fcd3d76192e4007dfb496cca67e13b",
    );
    chk(
        "md5(A-Za-z0-9)",
        hex(&md5(b"ABCDEFGHIJKLMNOPQRSTUVWXYZabcdefghijklmnopqrstuvwxyz0123456789")),
        "d174ab98d277d9f5a5611c2c9f419d9f",
    );
    chk(
        "md5(8x1234567890)",
        hex(&md5(
            b"12345678901234567890123456789012345678901234567890123456789012345678901234567890",
        )),
        "57edf4a22be3c955ac49da2e2107b67a",
    );
    // RFC 2202 HMAC-SHA1
    chk(
        "hmac-sha1 #1",
        hex(&hmac_sha1(&[0x0b; 20], b"Hi There")),
        "b617318655057264e28bc0b6fb378c8ef146be00",
    );
    chk(
        "hmac-sha1 #2",
        hex(&hmac_sha1(b"Jefe", b"what do ya want for nothing?")),
        "effcdf6ae5eb2fa2d27416d5f184df9c259a7c79",
    );
    chk(
        "hmac-sha1 #3",
        hex(&hmac_sha1(&[0xaa; 20], &[0xdd; 50])),
        "125d7342b9ac11cd91a39af48aa17b4f63f175d3",
    );
    chk(
        "hmac-sha1 #6 (80-byte key)",
        hex(&hmac_sha1(&[0xaa; 80], b"Test Using Larger Than Block-Size Key - Hash Key First")),
        "aa4ae5e15272d00e95705637ce8a3b55ed402112",
    );
    // RFC 4231 HMAC-SHA256
    chk(
        "hmac-sha256 #1",
        hex(&hmac_sha256(&[0x0b; 20], b"Hi There")),
        "b0344c61d8db38535ca8afceaf0bf12b881dc200c9833da726e9376c2e32cff7",
    );
    chk(
        "hmac-sha256 #2",
        hex(&hmac_sha256(b"Jefe", b"what do ya want for nothing?")),
        "5bdcc146bf60754e6a042426089575c75a003f089d2739839dec58b964ec3843",
    );
    chk(
        "hmac-sha256 #3",
        hex(&hmac_sha256(&[0xaa; 20], &[0xdd; 50])),
        "773ea91e36800e46854db8ebd09181a72959098b3ef8c122d9635514ced565fe",
    );
    chk(
        "hmac-sha256 #6 (131-byte key)",
        hex(&hmac_sha256(&[0xaa; 131], b"Test Using Larger Than Block-Size Key - Hash Key First")),
        "60e431591ee0b67f0d8a26aacbf5b77f8e0bc6213728c5140546040f0ee37f54",
    );
    chk("crc32(123456789)", format!("{:08x}", crc32(b"123456789")), "cbf43926");
    chk("crc32('')", format!("{:08x}", crc32(b"")), "00000000");
    for n in [0usize, 1, 2, 3, 63, 64, 65, 300] {
        let d: Vec<u8> = (0..n).map(|i| (i * 7 + 3) as u8).collect();
        if crc32(&d) != crc32_fast(&d) {
            f.push(format!("crc32_fast differs at len {n}"));
        }
    }
    f
}
