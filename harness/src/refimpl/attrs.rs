//! Reference encode/decode of the 19 built-in attribute types (RFC 8489 §14, RFC 8445 §7.1,
//! RFC 5389 §15) with a three-valued decode verdict (DESIGN.md §3.3, §6 C08).

use std::net::{IpAddr, Ipv4Addr, Ipv6Addr, SocketAddr};

#[derive(Clone, Copy, Debug, PartialEq, Eq, Hash, PartialOrd, Ord)]
pub enum Kind {
    Username,
    MessageIntegrity,
    ErrorCode,
    UnknownAttributes,
    Realm,
    Nonce,
    MessageIntegritySha256,
    PasswordAlgorithm,
    Userhash,
    XorMappedAddress,
    PasswordAlgorithms,
    AlternateDomain,
    Software,
    AlternateServer,
    Fingerprint,
    Priority,
    UseCandidate,
    IceControlled,
    IceControlling,
}

pub const ALL_KINDS: [Kind; 19] = [
    Kind::Username,
    Kind::MessageIntegrity,
    Kind::ErrorCode,
    Kind::UnknownAttributes,
    Kind::Realm,
    Kind::Nonce,
    Kind::MessageIntegritySha256,
    Kind::PasswordAlgorithm,
    Kind::Userhash,
    Kind::XorMappedAddress,
    Kind::PasswordAlgorithms,
    Kind::AlternateDomain,
    Kind::Software,
    Kind::AlternateServer,
    Kind::Fingerprint,
    Kind::Priority,
    Kind::UseCandidate,
    Kind::IceControlled,
    Kind::IceControlling,
];

impl Kind {
    /// IANA STUN attribute registry
    pub fn code(self) -> u16 {
        match self {
            Kind::Username => 0x0006,
            Kind::MessageIntegrity => 0x0008,
            Kind::ErrorCode => 0x0009,
            Kind::UnknownAttributes => 0x000A,
            Kind::Realm => 0x0014,
            Kind::Nonce => 0x0015,
            Kind::MessageIntegritySha256 => 0x001C,
            Kind::PasswordAlgorithm => 0x001D,
            Kind::Userhash => 0x001E,
            Kind::XorMappedAddress => 0x0020,
            Kind::PasswordAlgorithms => 0x8002,
            Kind::AlternateDomain => 0x8003,
            Kind::Software => 0x8022,
            Kind::AlternateServer => 0x8023,
            Kind::Fingerprint => 0x8028,
            Kind::Priority => 0x0024,
            Kind::UseCandidate => 0x0025,
            Kind::IceControlled => 0x8029,
            Kind::IceControlling => 0x802A,
        }
    }
    pub fn name(self) -> &'static str {
        match self {
            Kind::Username => "USERNAME",
            Kind::MessageIntegrity => "MESSAGE-INTEGRITY",
            Kind::ErrorCode => "ERROR-CODE",
            Kind::UnknownAttributes => "UNKNOWN-ATTRIBUTES",
            Kind::Realm => "REALM",
            Kind::Nonce => "NONCE",
            Kind::MessageIntegritySha256 => "MESSAGE-INTEGRITY-SHA256",
            Kind::PasswordAlgorithm => "PASSWORD-ALGORITHM",
            Kind::Userhash => "USERHASH",
            Kind::XorMappedAddress => "XOR-MAPPED-ADDRESS",
            Kind::PasswordAlgorithms => "PASSWORD-ALGORITHMS",
            Kind::AlternateDomain => "ALTERNATE-DOMAIN",
            Kind::Software => "SOFTWARE",
            Kind::AlternateServer => "ALTERNATE-SERVER",
            Kind::Fingerprint => "FINGERPRINT",
            Kind::Priority => "PRIORITY",
            Kind::UseCandidate => "USE-CANDIDATE",
            Kind::IceControlled => "ICE-CONTROLLED",
            Kind::IceControlling => "ICE-CONTROLLING",
        }
    }
    pub fn from_name(s: &str) -> Option<Kind> {
        ALL_KINDS.iter().copied().find(|k| k.name() == s)
    }
}

/// Decoded fields in a representation independent of the library's types.
#[derive(Clone, Debug, PartialEq, Eq)]
pub enum Val {
    Text(String),
    Bytes(Vec<u8>),
    /// (code, reason)
    Error(u16, String),
    List(Vec<u16>),
    /// address exactly as it sits on the wire (XOR-MAPPED-ADDRESS: still XOR-ed)
    Addr(SocketAddr),
    U32(u32),
    U64(u64),
    Unit,
}

#[derive(Clone, Debug, PartialEq, Eq)]
pub enum Verdict {
    Accept(Val),
    Reject(&'static str),
    /// neither demanded nor forbidden (documented leniency / RFC silent)
    DontCare(&'static str),
}

fn text(v: &[u8], max_bytes: usize, max_chars_strict: usize) -> Verdict {
    if v.len() > max_bytes {
        return Verdict::Reject("longer than the RFC decode limit");
    }
    match std::str::from_utf8(v) {
        Err(_) => Verdict::Reject("not UTF-8"),
        Ok(s) => {
            if s.chars().count() > max_chars_strict {
                Verdict::DontCare("more characters than the RFC allows but within the byte limit")
            } else {
                Verdict::Accept(Val::Text(s.to_string()))
            }
        }
    }
}

fn addr(v: &[u8]) -> Verdict {
    if v.len() < 4 {
        return Verdict::Reject("address shorter than 4 bytes");
    }
    let port = u16::from_be_bytes([v[2], v[3]]);
    match v[1] {
        1 => {
            if v.len() != 8 {
                return Verdict::Reject("IPv4 address attribute must be 8 bytes");
            }
            Verdict::Accept(Val::Addr(SocketAddr::new(IpAddr::V4(Ipv4Addr::new(v[4], v[5], v[6], v[7])), port)))
        }
        2 => {
            if v.len() != 20 {
                return Verdict::Reject("IPv6 address attribute must be 20 bytes");
            }
            let mut o = [0u8; 16];
            o.copy_from_slice(&v[4..20]);
            Verdict::Accept(Val::Addr(SocketAddr::new(IpAddr::V6(Ipv6Addr::from(o)), port)))
        }
        _ => Verdict::Reject("unknown address family"),
    }
}

fn algo_word(v: &[u8]) -> Result<u16, &'static str> {
    let a = u16::from_be_bytes([v[0], v[1]]);
    let pl = u16::from_be_bytes([v[2], v[3]]);
    if pl != 0 {
        return Err("algorithm parameters must be empty");
    }
    if a != 1 && a != 2 {
        return Err("unknown password algorithm");
    }
    Ok(a)
}

/// Reference verdict for decoding value `v` as attribute kind `k` (the type code already matches).
pub fn decode(k: Kind, v: &[u8]) -> Verdict {
    match k {
        Kind::Username => {
            if v.len() == 513 {
                // RFC 5389: "less than 513 bytes"; the library documents 513 as its limit.
                return match std::str::from_utf8(v) {
                    Ok(_) => Verdict::DontCare("USERNAME of exactly 513 bytes"),
                    Err(_) => Verdict::Reject("not UTF-8"),
                };
            }
            text(v, 513, usize::MAX)
        }
        Kind::Realm | Kind::Nonce | Kind::Software => text(v, 763, 127),
        Kind::AlternateDomain => match std::str::from_utf8(v) {
            Err(_) => Verdict::Reject("not UTF-8"),
            Ok(s) => {
                let dns = s.len() <= 255
                    && s.bytes().all(|b| b.is_ascii_alphanumeric() || b == b'.' || b == b'-');
                if dns {
                    Verdict::Accept(Val::Text(s.to_string()))
                } else {
                    Verdict::DontCare("UTF-8 but not an ASCII DNS name of at most 255 characters")
                }
            }
        },
        Kind::MessageIntegrity => {
            if v.len() == 20 {
                Verdict::Accept(Val::Bytes(v.to_vec()))
            } else {
                Verdict::Reject("MESSAGE-INTEGRITY must be 20 bytes")
            }
        }
        Kind::MessageIntegritySha256 => {
            if (16..=32).contains(&v.len()) && v.len() % 4 == 0 {
                Verdict::Accept(Val::Bytes(v.to_vec()))
            } else {
                Verdict::Reject("MESSAGE-INTEGRITY-SHA256 must be 16..=32 bytes in steps of 4")
            }
        }
        Kind::Userhash => {
            if v.len() == 32 {
                Verdict::Accept(Val::Bytes(v.to_vec()))
            } else {
                Verdict::Reject("USERHASH must be 32 bytes")
            }
        }
        Kind::Fingerprint => {
            if v.len() == 4 {
                // the library's getter returns the CRC, i.e. the wire value with the XOR undone
                let x = u32::from_be_bytes([v[0], v[1], v[2], v[3]]) ^ super::wire::FP_XOR;
                Verdict::Accept(Val::Bytes(x.to_be_bytes().to_vec()))
            } else {
                Verdict::Reject("FINGERPRINT must be 4 bytes")
            }
        }
        Kind::ErrorCode => {
            if v.len() < 4 {
                return Verdict::Reject("ERROR-CODE shorter than 4 bytes");
            }
            let class = (v[2] & 0x07) as u16; // reserved bits MUST be ignored by receivers
            let number = v[3] as u16;
            if !(3..=6).contains(&class) {
                return Verdict::Reject("error class outside 3..=6");
            }
            if number > 99 {
                return Verdict::Reject("error number above 99");
            }
            match text(&v[4..], 763, 127) {
                Verdict::Accept(Val::Text(s)) => Verdict::Accept(Val::Error(class * 100 + number, s)),
                other => other,
            }
        }
        Kind::UnknownAttributes => {
            if v.len() % 2 != 0 {
                return Verdict::Reject("UNKNOWN-ATTRIBUTES is a list of 16-bit values");
            }
            Verdict::Accept(Val::List(v.chunks(2).map(|c| u16::from_be_bytes([c[0], c[1]])).collect()))
        }
        Kind::PasswordAlgorithm => {
            if v.len() < 4 {
                return Verdict::Reject("PASSWORD-ALGORITHM shorter than 4 bytes");
            }
            match algo_word(v) {
                Err(e) => Verdict::Reject(e),
                Ok(a) => {
                    if v.len() == 4 {
                        Verdict::Accept(Val::List(vec![a]))
                    } else {
                        Verdict::DontCare("bytes after a complete PASSWORD-ALGORITHM value")
                    }
                }
            }
        }
        Kind::PasswordAlgorithms => {
            if v.is_empty() {
                return Verdict::DontCare("empty PASSWORD-ALGORITHMS list");
            }
            if v.len() % 4 != 0 {
                return Verdict::Reject("PASSWORD-ALGORITHMS is a list of 4-byte entries");
            }
            let mut out = Vec::new();
            for w in v.chunks(4) {
                match algo_word(w) {
                    Ok(a) => out.push(a),
                    Err(e) => return Verdict::Reject(e),
                }
            }
            Verdict::Accept(Val::List(out))
        }
        Kind::XorMappedAddress | Kind::AlternateServer => addr(v),
        Kind::Priority => {
            if v.len() == 4 {
                Verdict::Accept(Val::U32(u32::from_be_bytes([v[0], v[1], v[2], v[3]])))
            } else {
                Verdict::Reject("PRIORITY must be 4 bytes")
            }
        }
        Kind::UseCandidate => {
            if v.is_empty() {
                Verdict::Accept(Val::Unit)
            } else {
                Verdict::Reject("USE-CANDIDATE must be empty")
            }
        }
        Kind::IceControlled | Kind::IceControlling => {
            if v.len() == 8 {
                let mut b = [0u8; 8];
                b.copy_from_slice(v);
                Verdict::Accept(Val::U64(u64::from_be_bytes(b)))
            } else {
                Verdict::Reject("tie-breaker must be 8 bytes")
            }
        }
    }
}

/// Structural decode without the length/character limits: the fields a value would have if a
/// constructor accepted it (used to drive the encode side with values from DON'T-CARE regions).
pub fn fields_lenient(k: Kind, v: &[u8]) -> Option<Val> {
    match decode(k, v) {
        Verdict::Accept(val) => Some(val),
        Verdict::Reject(_) => match k {
            Kind::Username | Kind::Realm | Kind::Nonce | Kind::Software => std::str::from_utf8(v).ok().map(|s| Val::Text(s.to_string())),
            Kind::ErrorCode if v.len() >= 4 => {
                let code = (v[2] & 7) as u16 * 100 + v[3] as u16;
                std::str::from_utf8(&v[4..]).ok().map(|s| Val::Error(code, s.to_string()))
            }
            Kind::MessageIntegritySha256 => Some(Val::Bytes(v.to_vec())),
            _ => None,
        },
        Verdict::DontCare(_) => match k {
            Kind::Username | Kind::Realm | Kind::Nonce | Kind::Software | Kind::AlternateDomain => {
                std::str::from_utf8(v).ok().map(|s| Val::Text(s.to_string()))
            }
            Kind::ErrorCode => {
                let code = (v[2] & 7) as u16 * 100 + v[3] as u16;
                std::str::from_utf8(&v[4..]).ok().map(|s| Val::Error(code, s.to_string()))
            }
            Kind::PasswordAlgorithms if v.is_empty() => Some(Val::List(vec![])),
            _ => None,
        },
    }
}

/// Reference wire value (unpadded) of a field set.
pub fn encode(k: Kind, val: &Val) -> Vec<u8> {
    match (k, val) {
        (Kind::Fingerprint, Val::Bytes(b)) => {
            let x = u32::from_be_bytes([b[0], b[1], b[2], b[3]]) ^ super::wire::FP_XOR;
            x.to_be_bytes().to_vec()
        }
        (_, Val::Text(s)) => s.as_bytes().to_vec(),
        (_, Val::Bytes(b)) => b.clone(),
        (_, Val::Error(code, reason)) => {
            let mut v = vec![0, 0, (code / 100) as u8, (code % 100) as u8];
            v.extend_from_slice(reason.as_bytes());
            v
        }
        (Kind::UnknownAttributes, Val::List(l)) => l.iter().flat_map(|t| t.to_be_bytes()).collect(),
        (Kind::PasswordAlgorithm | Kind::PasswordAlgorithms, Val::List(l)) => {
            l.iter().flat_map(|a| [(a >> 8) as u8, *a as u8, 0, 0]).collect()
        }
        (_, Val::Addr(a)) => {
            let mut v = vec![0u8];
            match a.ip() {
                IpAddr::V4(ip) => {
                    v.push(1);
                    v.extend_from_slice(&a.port().to_be_bytes());
                    v.extend_from_slice(&ip.octets());
                }
                IpAddr::V6(ip) => {
                    v.push(2);
                    v.extend_from_slice(&a.port().to_be_bytes());
                    v.extend_from_slice(&ip.octets());
                }
            }
            v
        }
        (_, Val::U32(x)) => x.to_be_bytes().to_vec(),
        (_, Val::U64(x)) => x.to_be_bytes().to_vec(),
        (_, Val::Unit) => vec![],
        (k, v) => panic!("reference encoder: {k:?} cannot carry {v:?}"),
    }
}

/// RFC 8489 §14.2 transformation (an involution): port ^ cookie>>16, v4 ^ cookie, v6 ^ cookie||tid
pub fn xor_addr(a: SocketAddr, tid: u128) -> SocketAddr {
    let port = a.port() ^ 0x2112;
    match a.ip() {
        IpAddr::V4(ip) => {
            let o = ip.octets();
            let c = [0x21u8, 0x12, 0xA4, 0x42];
            SocketAddr::new(IpAddr::V4(Ipv4Addr::new(o[0] ^ c[0], o[1] ^ c[1], o[2] ^ c[2], o[3] ^ c[3])), port)
        }
        IpAddr::V6(ip) => {
            let mut o = ip.octets();
            let mut key = [0u8; 16];
            key[0..4].copy_from_slice(&[0x21, 0x12, 0xA4, 0x42]);
            let t = (tid & ((1u128 << 96) - 1)).to_be_bytes();
            key[4..16].copy_from_slice(&t[4..16]);
            for i in 0..16 {
                o[i] ^= key[i];
            }
            SocketAddr::new(IpAddr::V6(Ipv6Addr::from(o)), port)
        }
    }
}

pub fn selftest() -> Vec<String> {
    let mut f = Vec::new();
    // RFC 5769 §2.2: XOR-MAPPED-ADDRESS 0001a147e112a643 = 192.0.2.1:32853
    let v = super::crypto::unhex("0001a147e112a643");
    match decode(Kind::XorMappedAddress, &v) {
        Verdict::Accept(Val::Addr(a)) => {
            let plain = xor_addr(a, 0xb7e7a701bc34d686fa87dfae);
            if plain != "192.0.2.1:32853".parse::<SocketAddr>().unwrap() {
                f.push(format!("xor v4 vector: {plain}"));
            }
        }
        o => f.push(format!("xor v4 vector verdict {o:?}")),
    }
    // RFC 5769 §2.3: 2001:db8:1234:5678:11:2233:4455:6677 port 32853
    let v = super::crypto::unhex("0002a1470113a9faa5d3f179bc25f4b5bed2b9d9");
    match decode(Kind::XorMappedAddress, &v) {
        Verdict::Accept(Val::Addr(a)) => {
            let plain = xor_addr(a, 0xb7e7a701bc34d686fa87dfae);
            if plain != "[2001:db8:1234:5678:11:2233:4455:6677]:32853".parse::<SocketAddr>().unwrap() {
                f.push(format!("xor v6 vector: {plain}"));
            }
        }
        o => f.push(format!("xor v6 vector verdict {o:?}")),
    }
    if decode(Kind::ErrorCode, &[0, 0, 4, 20, b'x']) != Verdict::Accept(Val::Error(420, "x".into())) {
        f.push("error-code 420".into());
    }
    if !matches!(decode(Kind::ErrorCode, &[0, 0, 7, 0]), Verdict::Reject(_)) {
        f.push("error class 7".into());
    }
    for k in ALL_KINDS {
        if Kind::from_name(k.name()) != Some(k) {
            f.push(format!("name roundtrip {k:?}"));
        }
    }
    f
}
