//! Reference STUN wire decoder / serialiser, written from RFC 8489 §5, §14 and the statement of
//! C02 / C10 / C17 (DESIGN.md Appendix B).  Shares no code with the repository.

use super::crypto;

pub const COOKIE: u32 = 0x2112_A442;
pub const MI: u16 = 0x0008;
pub const MI256: u16 = 0x001C;
pub const FP: u16 = 0x8028;
pub const FP_XOR: u32 = 0x5354_554E;

#[derive(Clone, Debug, PartialEq, Eq)]
pub struct RefAttr {
    pub typ: u16,
    /// offset of the attribute header in the buffer
    pub offset: usize,
    /// declared (unpadded) value length
    pub len: usize,
    pub value: Vec<u8>,
}

impl RefAttr {
    pub fn padded_total(&self) -> usize {
        4 + (self.len + 3) / 4 * 4
    }
    pub fn end(&self) -> usize {
        self.offset + self.padded_total()
    }
}

#[derive(Clone, Debug, PartialEq, Eq)]
pub struct RefMsg {
    /// 0 request, 1 indication, 2 success, 3 error
    pub class: u8,
    pub method: u16,
    pub tid: u128,
    pub declared_len: usize,
    pub attrs: Vec<RefAttr>,
}

/// One admissible way for the implementation to name a rejection.
#[derive(Clone, Debug, PartialEq, Eq)]
pub enum Cause {
    NotStun,
    /// `None` = the statement does not pin this count
    Truncated { expected: Option<usize>, actual: Option<usize> },
    AfterIntegrity(u16),
    AfterFingerprint(u16),
    FingerprintMismatch,
    /// any error variant is acceptable (statement names no cause)
    AnyError,
}

#[derive(Clone, Debug, PartialEq, Eq)]
pub struct Reject {
    pub causes: Vec<Cause>,
    /// true when the only thing wrong is bytes beyond 20+declared length: C02 then also admits
    /// acceptance of the declared part provided the excess is never interpreted.
    pub excess_only: bool,
    pub why: &'static str,
}

fn rej(causes: Vec<Cause>, why: &'static str) -> Reject {
    Reject { causes, excess_only: false, why }
}

pub fn be16(b: &[u8]) -> usize {
    ((b[0] as usize) << 8) | b[1] as usize
}

/// RFC 8489 §5 de-interleaving of the 14-bit type field.
pub fn split_type(t: u16) -> (u8, u16) {
    let c0 = (t >> 4) & 1;
    let c1 = (t >> 8) & 1;
    let class = (c1 << 1 | c0) as u8;
    let m_lo = t & 0x000F; // M3..M0
    let m_mid = (t >> 5) & 0x0007; // M6..M4
    let m_hi = (t >> 9) & 0x001F; // M11..M7
    (class, m_lo | (m_mid << 4) | (m_hi << 7))
}

/// RFC 8489 §5 interleaving: M11..M7 C1 M6..M4 C0 M3..M0
pub fn join_type(class: u8, method: u16) -> u16 {
    let m = method & 0x0FFF;
    let c0 = (class & 1) as u16;
    let c1 = ((class >> 1) & 1) as u16;
    (m & 0xF) | (c0 << 4) | (((m >> 4) & 0x7) << 5) | (c1 << 8) | (((m >> 7) & 0x1F) << 9)
}

pub fn is_integrity(t: u16) -> bool {
    t == MI || t == MI256
}

/// CRC relation of RFC 8489 §14.7 for a FINGERPRINT attribute located at `off`.
pub fn fingerprint_value(buf: &[u8], off: usize) -> u32 {
    let mut pre = buf[..off].to_vec();
    let l = (off + 8 - 20) as u16;
    pre[2] = (l >> 8) as u8;
    pre[3] = l as u8;
    crypto::crc32_fast(&pre) ^ FP_XOR
}

/// Decode header only (20 bytes available).
pub fn decode_header(buf: &[u8]) -> Result<(u8, u16, u128, usize), Reject> {
    if buf.len() < 20 {
        let mut causes = vec![Cause::Truncated { expected: Some(20), actual: Some(buf.len()) }];
        if !buf.is_empty() && buf[0] & 0xC0 != 0 {
            causes.push(Cause::NotStun);
        }
        return Err(rej(causes, "shorter than a header"));
    }
    if buf[0] & 0xC0 != 0 {
        return Err(rej(vec![Cause::NotStun], "top two bits set"));
    }
    let cookie = u32::from_be_bytes([buf[4], buf[5], buf[6], buf[7]]);
    if cookie != COOKIE {
        return Err(rej(vec![Cause::NotStun], "magic cookie"));
    }
    let t = be16(&buf[0..2]) as u16;
    let (class, method) = split_type(t);
    let mut tid: u128 = 0;
    for b in &buf[8..20] {
        tid = (tid << 8) | *b as u128;
    }
    Ok((class, method, tid, be16(&buf[2..4])))
}

pub fn decode(buf: &[u8]) -> Result<RefMsg, Reject> {
    let (class, method, tid, declared) = decode_header(buf)?;
    if 20 + declared > buf.len() {
        return Err(rej(
            vec![Cause::Truncated { expected: Some(20 + declared), actual: Some(buf.len()) }],
            "declared length exceeds buffer",
        ));
    }
    if 20 + declared < buf.len() {
        // Excess bytes.  The declared part decides whether acceptance is admissible at all.
        let inner = decode(&buf[..20 + declared]);
        return Err(Reject {
            causes: vec![Cause::AnyError],
            excess_only: inner.is_ok(),
            why: "bytes beyond the declared length",
        });
    }
    let mut attrs: Vec<RefAttr> = Vec::new();
    let mut off = 20usize;
    let mut seen_mi = false;
    let mut seen_mi256 = false;
    let mut seen_fp = false;
    while off < buf.len() {
        let rest = buf.len() - off;
        if rest < 4 {
            return Err(rej(vec![Cause::Truncated { expected: None, actual: None }], "attribute header cut"));
        }
        let typ = be16(&buf[off..off + 2]) as u16;
        let len = be16(&buf[off + 2..off + 4]);
        let padded = (len + 3) / 4 * 4;
        let mut causes = Vec::new();
        if 4 + len > rest || 4 + padded > rest {
            causes.push(Cause::Truncated { expected: None, actual: None });
        }
        if seen_fp {
            causes.push(Cause::AfterFingerprint(typ));
        } else if seen_mi || seen_mi256 {
            if !(is_integrity(typ) || typ == FP) {
                causes.push(Cause::AfterIntegrity(typ));
            } else if (typ == MI && seen_mi) || (typ == MI256 && seen_mi256) {
                causes.push(Cause::AfterIntegrity(typ));
            }
        }
        if !causes.is_empty() {
            // several things are wrong with the attribute under the cursor: an implementation may
            // test them in any order, so a FINGERPRINT-specific complaint is admissible as well
            if typ == FP {
                if len != 4 || 4 + padded > rest {
                    causes.push(Cause::AnyError);
                } else {
                    let v = u32::from_be_bytes([buf[off + 4], buf[off + 5], buf[off + 6], buf[off + 7]]);
                    if v != fingerprint_value(buf, off) {
                        causes.push(Cause::FingerprintMismatch);
                    }
                }
            }
            let why = if causes.iter().any(|c| matches!(c, Cause::Truncated { .. })) { "attribute overruns the body" } else { "attribute ordering" };
            return Err(rej(causes, why));
        }
        if typ == FP {
            if len != 4 {
                return Err(rej(vec![Cause::AnyError], "FINGERPRINT of wrong size"));
            }
            let v = u32::from_be_bytes([buf[off + 4], buf[off + 5], buf[off + 6], buf[off + 7]]);
            if v != fingerprint_value(buf, off) {
                return Err(rej(vec![Cause::FingerprintMismatch], "CRC relation false"));
            }
        }
        attrs.push(RefAttr { typ, offset: off, len, value: buf[off + 4..off + 4 + len].to_vec() });
        match typ {
            MI => seen_mi = true,
            MI256 => seen_mi256 = true,
            FP => seen_fp = true,
            _ => {}
        }
        off += 4 + padded;
    }
    Ok(RefMsg { class, method, tid, declared_len: declared, attrs })
}

/// Indices of the attributes that C10 says are exposed.
pub fn exposed(attrs: &[RefAttr]) -> Vec<usize> {
    let mut out = Vec::new();
    let mut i = 0;
    let mut first_integrity: Option<usize> = None;
    while i < attrs.len() {
        out.push(i);
        if is_integrity(attrs[i].typ) {
            first_integrity = Some(i);
            break;
        }
        i += 1;
    }
    if let Some(fi) = first_integrity {
        if attrs[fi].typ == MI && fi + 1 < attrs.len() && attrs[fi + 1].typ == MI256 {
            out.push(fi + 1);
        }
        for (j, a) in attrs.iter().enumerate().skip(fi + 1) {
            if a.typ == FP {
                out.push(j);
                break;
            }
        }
    }
    out
}

/// Index of the first integrity attribute, if any.
pub fn first_integrity(attrs: &[RefAttr]) -> Option<usize> {
    attrs.iter().position(|a| is_integrity(a.typ))
}

pub fn encode_attr(typ: u16, value: &[u8], pad: u8) -> Vec<u8> {
    let mut v = Vec::with_capacity(4 + value.len() + 3);
    v.extend_from_slice(&typ.to_be_bytes());
    v.extend_from_slice(&(value.len() as u16).to_be_bytes());
    v.extend_from_slice(value);
    while v.len() % 4 != 0 {
        v.push(pad);
    }
    v
}

pub fn encode_header(class: u8, method: u16, tid: u128, body_len: usize) -> Vec<u8> {
    let mut v = Vec::with_capacity(20 + body_len);
    v.extend_from_slice(&join_type(class, method).to_be_bytes());
    v.extend_from_slice(&(body_len as u16).to_be_bytes());
    v.extend_from_slice(&COOKIE.to_be_bytes());
    let t = tid & ((1u128 << 96) - 1);
    v.extend_from_slice(&t.to_be_bytes()[4..16]);
    v
}

pub fn encode_msg(class: u8, method: u16, tid: u128, attrs: &[(u16, Vec<u8>)]) -> Vec<u8> {
    let mut body = Vec::new();
    for (t, val) in attrs {
        body.extend(encode_attr(*t, val, 0));
    }
    let mut v = encode_header(class, method, tid, body.len());
    v.extend(body);
    v
}

pub fn set_len(buf: &mut [u8], body_len: usize) {
    buf[2] = (body_len >> 8) as u8;
    buf[3] = body_len as u8;
}

#[derive(Clone, Debug, PartialEq, Eq)]
pub enum Creds {
    Short(String),
    Long { user: String, realm: String, pass: String },
}

impl Creds {
    /// RFC 8489 §9.1.1 / §9.2.2 (MD5 form)
    pub fn key(&self) -> Vec<u8> {
        match self {
            Creds::Short(p) => p.as_bytes().to_vec(),
            Creds::Long { user, realm, pass } => {
                let mut s = Vec::new();
                s.extend_from_slice(user.as_bytes());
                s.push(b':');
                s.extend_from_slice(realm.as_bytes());
                s.push(b':');
                s.extend_from_slice(pass.as_bytes());
                crypto::md5(&s).to_vec()
            }
        }
    }
}

/// HMAC input of RFC 8489 §14.5/14.6 for an integrity attribute at `off` with value length `vlen`.
pub fn hmac_input(buf: &[u8], off: usize, vlen: usize) -> Vec<u8> {
    let mut pre = buf[..off].to_vec();
    let l = off + 4 + vlen - 20;
    pre[2] = (l >> 8) as u8;
    pre[3] = l as u8;
    pre
}

/// Is the integrity attribute `a` of buffer `buf` correct under `key`?
pub fn integrity_ok(buf: &[u8], a: &RefAttr, key: &[u8]) -> bool {
    match a.typ {
        MI => a.len == 20 && crypto::hmac_sha1(key, &hmac_input(buf, a.offset, 20))[..] == a.value[..],
        MI256 => {
            a.len >= 16
                && a.len <= 32
                && a.len % 4 == 0
                && crypto::hmac_sha256(key, &hmac_input(buf, a.offset, a.len))[..a.len] == a.value[..]
        }
        _ => false,
    }
}

/// Append a MESSAGE-INTEGRITY to a reference-serialised message.
pub fn append_mi(buf: &mut Vec<u8>, key: &[u8]) {
    let off = buf.len();
    let h = crypto::hmac_sha1(key, &hmac_input(buf, off, 20));
    buf.extend(encode_attr(MI, &h, 0));
    let l = buf.len() - 20;
    set_len(buf, l);
}

/// Append a MESSAGE-INTEGRITY-SHA256 truncated to `n` bytes.
pub fn append_mi256(buf: &mut Vec<u8>, key: &[u8], n: usize) {
    let off = buf.len();
    let h = crypto::hmac_sha256(key, &hmac_input(buf, off, n));
    buf.extend(encode_attr(MI256, &h[..n.min(32)], 0));
    let l = buf.len() - 20;
    set_len(buf, l);
}

pub fn append_fp(buf: &mut Vec<u8>) {
    let off = buf.len();
    // fingerprint_value needs the prefix only
    let v = fingerprint_value(buf, off);
    buf.extend(encode_attr(FP, &v.to_be_bytes(), 0));
    let l = buf.len() - 20;
    set_len(buf, l);
}

pub fn append_raw(buf: &mut Vec<u8>, typ: u16, value: &[u8]) {
    buf.extend(encode_attr(typ, value, 0));
    let l = buf.len() - 20;
    set_len(buf, l);
}

/// RFC 5769 / RFC 8489 test vectors: (name, bytes, credentials, expected algorithm type)
pub fn rfc_vectors() -> Vec<(&'static str, Vec<u8>, Vec<u8>, u16)> {
    let v1 = crypto::unhex(
        "000100582112a442b7e7a701bc34d686fa87dfae802200105354554e207465737420636c69656e74002400046e0001ff80290008932ff9b151263b36000600096576746a3a68367659202020000800149aeaa70cbfd8cb56781ef2b5b2d3f249c1b571a280280004e57a3bcf",
    );
    let v2 = crypto::unhex(
        "0101003c2112a442b7e7a701bc34d686fa87dfae8022000b7465737420766563746f7220002000080001a147e112a643000800142b91f599fd9e90c38c7489f92af9ba53f06be7d780280004c07d4c96",
    );
    let v3 = crypto::unhex(
        "010100482112a442b7e7a701bc34d686fa87dfae8022000b7465737420766563746f7220002000140002a1470113a9faa5d3f179bc25f4b5bed2b9d900080014a382954e4be67bf11784c97c8292c275bfe3ed4180280004c8fb0b4c",
    );
    let v4 = crypto::unhex(
        "000100602112a44278ad3433c6ad72c029da412e00060012e3839ee38388e383aae38383e382afe382b900000015001c662f2f3439396b39353464364f4c33346f4c394653547679363473410014000b6578616d706c652e6f72670000080014f67024656dd64a3e02b8e0712e85c9a28ca89666",
    );
    let v5 = crypto::unhex(
        "000100902112a44278ad3433c6ad72c029da412e001e00204a3cf38fef6992bda952c6780417da0f24819415569e60b205c46e41407f1704001500296f624d61744a6f733241414143662f2f3439396b39353464364f4c33346f4c394653547679363473410000000014000b6578616d706c652e6f726700001d000400020000001c0020b5c7bf005b6c52a21c51c5e892f81924136296cb927c43149309278cc6518e65",
    );
    vec![
        ("rfc5769-2.1 request", v1, Creds::Short("VOkJxbRl1RmTxUk/WvJxBt".into()).key(), MI),
        ("rfc5769-2.2 ipv4 response", v2, Creds::Short("VOkJxbRl1RmTxUk/WvJxBt".into()).key(), MI),
        ("rfc5769-2.3 ipv6 response", v3, Creds::Short("VOkJxbRl1RmTxUk/WvJxBt".into()).key(), MI),
        (
            "rfc5769-2.4 long-term",
            v4,
            Creds::Long {
                user: "\u{30de}\u{30c8}\u{30ea}\u{30c3}\u{30af}\u{30b9}".into(),
                realm: "example.org".into(),
                pass: "TheMatrIX".into(),
            }
            .key(),
            MI,
        ),
        (
            "rfc8489-B.1 sha256 userhash",
            v5,
            // RFC 8489 §9.2.2 with PASSWORD-ALGORITHM SHA-256: key = SHA-256(user:realm:SASLprep(password))
            crypto::sha256("\u{30de}\u{30c8}\u{30ea}\u{30c3}\u{30af}\u{30b9}:example.org:TheMatrIX".as_bytes()).to_vec(),
            MI256,
        ),
    ]
}

pub fn selftest() -> Vec<String> {
    let mut f = Vec::new();
    for (name, buf, key, algo) in rfc_vectors() {
        match decode(&buf) {
            Err(e) => f.push(format!("{name}: reference decoder rejects: {:?}", e)),
            Ok(m) => {
                let Some(a) = m.attrs.iter().find(|a| a.typ == algo) else {
                    f.push(format!("{name}: integrity attribute not found"));
                    continue;
                };
                if !integrity_ok(&buf, a, &key) {
                    f.push(format!("{name}: reference HMAC does not verify"));
                }
                if integrity_ok(&buf, a, b"wrong") {
                    f.push(format!("{name}: reference HMAC verifies under wrong key"));
                }
            }
        }
    }
    // type interleaving examples from RFC 8489: Binding request 0x0001, success 0x0101, error 0x0111, indication 0x0011
    for (c, m, t) in [(0u8, 1u16, 0x0001u16), (2, 1, 0x0101), (3, 1, 0x0111), (1, 1, 0x0011), (0, 0xFFF, 0x3EEF), (3, 0xFFF, 0x3FFF), (0, 0x80, 0x0200), (0, 0x10, 0x0020)] {
        if join_type(c, m) != t {
            f.push(format!("join_type({c},{m:#x}) = {:#x} != {t:#x}", join_type(c, m)));
        }
        if split_type(t) != (c, m) {
            f.push(format!("split_type({t:#x}) = {:?}", split_type(t)));
        }
    }
    // serialiser / decoder agree
    let mut b = encode_msg(0, 1, 0x0102_0304_0506_0708_090a_0b0c, &[(0x8022, b"abc".to_vec()), (0x0006, b"u".to_vec())]);
    append_mi(&mut b, b"k");
    append_mi256(&mut b, b"k", 32);
    append_fp(&mut b);
    match decode(&b) {
        Ok(m) => {
            if m.attrs.len() != 5 || exposed(&m.attrs) != vec![0, 1, 2, 3, 4] {
                f.push("serialiser/decoder disagree on attribute list".into());
            }
            if !integrity_ok(&b, &m.attrs[2], b"k") || !integrity_ok(&b, &m.attrs[3], b"k") {
                f.push("own sealing does not verify".into());
            }
        }
        Err(e) => f.push(format!("decoder rejects own serialisation: {e:?}")),
    }
    f
}
