#!/bin/bash
# seed_intake.sh <worktree dir> <seed id> <property> "<what it needs to manifest>"
# Confirms a seeded change produced by an independent sub-agent (suite passes with it; its demonstration fails
# with it and passes without), stores it under /verif/seeded/<id>/, runs the property's quick check against the
# worktree and records the outcome.  The worktree is removed afterwards.
WT="$1"; ID="$2"; PROP="$3"; NEEDS="$4"
V=/verif; OUT=$V/seeded/$ID; mkdir -p "$OUT"
export CARGO_NET_OFFLINE=true CARGO_TARGET_DIR="$WT/target"
cd "$WT" || exit 2
DEMO=$(git status --porcelain | grep -E '^\?\? .*tests/' | awk '{print $2}' | head -1)
[ -d "$DEMO" ] && DEMO=$(find "$DEMO" -name '*.rs' | head -1)
git diff -- . ':(exclude)*/tests/*' > "$OUT/patch.diff"
[ -s "$OUT/patch.diff" ] || { echo "no library change found"; exit 2; }
[ -n "$DEMO" ] && cp "$DEMO" "$OUT/$(basename "$DEMO")"
CRATE=$(echo "$DEMO" | cut -d/ -f1); TNAME=$(basename "$DEMO" .rs)
# 1. suite with the change, demo aside
mv "$DEMO" /tmp/_demo_aside_$ID.rs
cargo test --workspace --no-fail-fast --offline > "$OUT/suite_with_change.log" 2>&1; S1=$?
mv /tmp/_demo_aside_$ID.rs "$DEMO"
# 2. demo with the change
cargo test -p "$CRATE" --test "$TNAME" --offline > "$OUT/demo_with_change.log" 2>&1; S2=$?
# 3. demo without the change
# (no git stash: refs/stash is shared by all worktrees of the repository)
CHANGED=$(git diff --name-only -- . ':(exclude)*/tests/*')
git checkout -- $CHANGED
cargo test -p "$CRATE" --test "$TNAME" --offline > "$OUT/demo_without_change.log" 2>&1; S3=$?
git apply "$OUT/patch.diff"
PASSED=$(grep -E '^test result' "$OUT/suite_with_change.log" | awk '{s+=$4} END {print s}')
echo "suite rc=$S1 passed=$PASSED; demo with change rc=$S2; demo without rc=$S3"
CONF=false; [ $S1 -eq 0 ] && [ $S2 -ne 0 ] && [ $S3 -eq 0 ] && CONF=true
# 4. our check against the changed tree
mkdir -p /tmp/seed_ev_$ID
CHK=${VERIF_CHECK_DIR:-$V}   # a frozen copy of /verif, so that edits made while a round is taken in do not change what "first run" means
R=$(VERIF_REPO="$WT" VERIF_EVIDENCE_DIR=/tmp/seed_ev_$ID $CHK/check.sh "$PROP" quick 2>&1); RC=$?
echo "$R" | grep -E "^  $PROP/|VIOLATION|MACHINERY|$PROP quick" | head -8
SIG=$(echo "$R" | grep -E "^  $PROP/" | sed 's/ — .*//' | tr -d ' ' | paste -sd, -)
python3 - "$OUT" "$ID" "$PROP" "$NEEDS" "$CONF" "$RC" "$SIG" "$PASSED" "$DEMO" <<'PY'
import json,sys
out,i,prop,needs,conf,rc,sig,passed,demo=sys.argv[1:]
json.dump({"id":i,"property":prop,"origin":"independent sub-agent given only the property text and a scratch worktree","needs_to_manifest":needs,
 "demonstration":demo,"confirmed":conf=="true","what_was_run":["cargo test --workspace --no-fail-fast --offline with the change (demo aside): %s tests passed"%passed,
 "cargo test --test <demo> with the change: fails","same without the change (git checkout of the changed files): passes","VERIF_REPO=<worktree> ./check.sh %s quick -> exit %s"%(prop,rc)],
 "quick_check_exit":int(rc),"detected":rc=="1","signatures":sig},open(out+"/meta.json","w"),indent=1)
PY
rm -f "$OUT"/*.log.tmp
TAG=$(printf '%s' "$WT" | cksum | cut -d' ' -f1); rm -rf "$V/.target/w$TAG" "$CHK/.target/w$TAG" "$WT/target" /tmp/seed_ev_$ID
git -C /repo worktree remove --force "$WT"
