#!/bin/bash
# ./check.sh <Cxx|selftest> <quick|thorough> [--replay <file>]
# Rebuilds the harness against the repository's current working tree (hooks on), then runs one check.
# exit 0 held / 1 VIOLATION / 2 machinery failure.
cd "$(dirname "$0")" || exit 2
VERIF_DIR="$(pwd)"; export VERIF_DIR
PROP="$1"; TIER="${2:-quick}"; shift; shift
REPO="${VERIF_REPO:-/repo}"
[ -f "$REPO/stun-types/Cargo.toml" ] || { echo "MACHINERY-FAILURE: no repository at $REPO"; exit 2; }
export CARGO_NET_OFFLINE=true
TAG=$(printf '%s' "$REPO" | cksum | cut -d' ' -f1)
WORK="$VERIF_DIR/.target/w$TAG"
mkdir -p "$WORK" || exit 2
(
  flock 9
  # private copy of the harness manifest pointing at this repository
  mkdir -p "$WORK/harness"
  ln -sfn "$REPO" "$WORK/repo"
  ln -sfn "$VERIF_DIR/harness/src" "$WORK/harness/src"
  sed "s#\.\./\.repo/#../repo/#g" "$VERIF_DIR/harness/Cargo.toml" > "$WORK/harness/Cargo.toml.new"
  cmp -s "$WORK/harness/Cargo.toml.new" "$WORK/harness/Cargo.toml" || mv "$WORK/harness/Cargo.toml.new" "$WORK/harness/Cargo.toml"
  cmp -s "$VERIF_DIR/harness/Cargo.lock" "$WORK/harness/Cargo.lock" || cp "$VERIF_DIR/harness/Cargo.lock" "$WORK/harness/Cargo.lock"
  cd "$WORK/harness" && CARGO_TARGET_DIR="$WORK/target" cargo build --release --offline -q 2> "$WORK/build.log"
) 9> "$WORK/.lock"
if [ ! -x "$WORK/target/release/vcheck" ] || grep -q '^error' "$WORK/build.log"; then
  grep -v '^warning' "$WORK/build.log" | grep -A12 '^error' | head -60
  echo "MACHINERY-FAILURE: harness does not build against $REPO"
  exit 2
fi
if [ "$PROP" = crosscheck ]; then
  "$WORK/target/release/vcheck" crosscheck "$TIER"
else
  "$WORK/target/release/vcheck" "$PROP" --tier "$TIER" "$@"
fi
rc=$?
if [ $rc -ne 0 ] && [ $rc -ne 1 ] && [ $rc -ne 2 ]; then
  echo "MACHINERY-FAILURE: vcheck died with status $rc"
  exit 2
fi
exit $rc
