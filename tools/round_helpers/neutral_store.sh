#!/bin/bash
# neutral_store.sh <worktree-name> <origin> "<what>"  -> /verif/neutral/<name>/{patch.diff,meta.json}
N=$1; ORIGIN=$2; WHAT=$3; WT=/tmp/wt/$N; OUT=/verif/neutral/$N; mkdir -p $OUT
git -C $WT diff > $OUT/patch.diff
[ -s $OUT/patch.diff ] || { echo "$N: empty diff"; exit 2; }
python3 - "$N" "$ORIGIN" "$WHAT" <<'PY'
import json,sys,re
n,origin,what=sys.argv[1:]
lines=[l.split() for l in open('/tmp/wt/neg/%s/summary.txt'%n)]
res={}
for l in lines:
    res[l[0]]=int(l[1].split('=')[1])   # later lines (re-runs) override
json.dump({"id":n,"origin":origin,"what":what,"checks":sorted(res),"quick_check_exit":res,"all_silent":all(v==0 for v in res.values()),
 "what_was_run":["cargo test --workspace --no-fail-fast --offline with the change: passes (by its author)","VERIF_REPO=<worktree> ./check.sh <check> quick for every listed check"]},open('/verif/neutral/%s/meta.json'%n,'w'),indent=1)
print(n, "all silent" if all(v==0 for v in res.values()) else "NOT SILENT: %s"%{k:v for k,v in res.items() if v})
PY
