#!/bin/bash
# intake2.sh <Cxx>  -> runs seed_intake for /tmp/wt/o-Cxx as seed Cxx-n
P=$1
NEEDS=$(grep -P "^$P\t" /tmp/wt/needs3.tsv | cut -f2)
[ -n "$NEEDS" ] || { echo "no needs text for $P"; exit 2; }
VERIF_CHECK_DIR=/tmp/verif_frozen /verif/seed_intake.sh /tmp/wt/q-$P $P-o $P "$NEEDS" > /tmp/wt/intake/$P-o.log 2>&1
echo "$P-o done: $(grep -E 'suite rc|VIOLATION|quick:' /tmp/wt/intake/$P-o.log | cut -c1-200 | tr '\n' ' ')"
