#!/bin/bash
# seedtest.sh <seed-id> [prop]  : current /verif check against a scratch copy of /repo with the seeded patch
ID=$1; PROP=${2:-$(python3 -c "import json;print(json.load(open('/verif/seeded/$ID/meta.json'))['property'])")}
S=/tmp/st/$ID; rm -rf $S; mkdir -p $S/ev
rsync -a --exclude target --exclude .git /repo/ $S/repo/
(cd $S/repo && patch -p1 -s < /verif/seeded/$ID/patch.diff) || { echo "$ID: patch failed"; exit 2; }
R=$(VERIF_REPO=$S/repo VERIF_EVIDENCE_DIR=$S/ev /verif/check.sh $PROP quick 2>&1); RC=$?
echo "$ID [$PROP] rc=$RC"; echo "$R" | grep -E "^  $PROP/|MACHINERY" | cut -c1-300 | head -6
TAG=$(printf '%s' "$S/repo" | cksum | cut -d' ' -f1); rm -rf $S /verif/.target/w$TAG
