#!/bin/bash
# negctl.sh <worktree> <name> : all 20 quick checks against a behaviour-preserving change; expects exit 0 everywhere
WT=$1; N=$2; OUT=/tmp/wt/neg/$N; mkdir -p $OUT/ev
LIST=${3:-$(seq -w 1 20)}
for i in $LIST; do
  s=$(date +%s)
  VERIF_REPO=$WT VERIF_EVIDENCE_DIR=$OUT/ev /verif/check.sh C$i quick > $OUT/C$i.log 2>&1; rc=$?
  echo "C$i rc=$rc $(( $(date +%s)-s ))s $(grep -E '^VIOLATION|MACHINERY' $OUT/C$i.log | head -2 | tr '\n' ' ')" >> $OUT/summary.txt
done
echo "$N finished: $(grep -vc 'rc=0' $OUT/summary.txt) non-zero"
